"""C12 - event messages: scheme fields and instance-type resolution are exact.

Oracle: a reference event decoder written here from IEC 62386-103 Table 3 (event source schemes,
bits 23/22/15), -301 Table 2 (push-button event codes), -303 (occupancy flag bits, upper six bits
zero), -304 (10-bit illuminance).  It shares no code with the library.

Engines: enumeration (thorough: all 2^23 event-space frames without a map; all 2^21 device/instance
frames x maps resolving to types 1, 3, 4, 0 and to nothing; every type 0..31 on sampled sources;
quick: seeded stride), map-construction equivalence, retry-vs-direct differential.
"""
from harness.runner import Result, library_frame

ID = "C12"
LEVEL = "exploration"
RULE = ("enumeration of 24-bit frames with bit 16 clear (and of (frame, map) pairs for the device/instance scheme); "
        "every enumerated input is distinct by construction; non-trivial = the reference decoder classifies the frame as "
        "an event (not the reserved scheme 11x..1) ")
ASSUMPTIONS = [
    "event scheme layout and event codes transcribed by hand from IEC 62386-103 Table 3, -301 Table 2, -303, -304",
    "frames with bits 23,22,15 = 1,1,1 are a reserved scheme: the result must not be an event object",
    "an instance type outside 0..31 in a user-supplied map decodes as an unknown event (only the 5-bit types exist)",
]

PUSHBUTTON = {0: "ButtonReleased", 1: "ButtonPressed", 2: "ShortPress", 5: "DoublePress", 9: "LongPressStart",
              11: "LongPressRepeat", 12: "LongPressStop", 14: "ButtonFree", 15: "ButtonStuck"}


def _load():
    import dali.device.general, dali.device.pushbutton, dali.device.occupancy, dali.device.light  # noqa
    import dali.gear.general  # noqa
    import dali.device.helpers  # noqa
    from dali import command, frame
    return command, frame


def ref_decode(v, maptype="nomap"):
    """Reference: 24-bit integer -> dict of expected fields, or None if not an event.
    maptype: "nomap" (no map / no entry) or the integer type the map gives for this source."""
    if (v >> 16) & 1:
        return None
    b23, b22, b15 = (v >> 23) & 1, (v >> 22) & 1, (v >> 15) & 1
    hi6 = (v >> 17) & 0x3F
    hi5 = (v >> 17) & 0x1F
    mid5 = (v >> 10) & 0x1F
    data = v & 0x3FF
    e = {"short": None, "inum": None, "igroup": None, "dgroup": None}
    if b23 == 0 and b15 == 0:
        e["short"], t = hi6, mid5
    elif b23 == 0 and b15 == 1:
        e["short"], e["inum"] = hi6, mid5
        if maptype == "nomap":
            e.update(cls="AmbiguousInstanceType", itype=None, data=data)
            return e
        t = maptype
    elif b23 == 1 and b22 == 0 and b15 == 0:
        e["dgroup"], t = hi5, mid5
    elif b23 == 1 and b22 == 0 and b15 == 1:
        t, e["inum"] = hi5, mid5
    elif b23 == 1 and b22 == 1 and b15 == 0:
        e["igroup"], t = hi5, mid5
    else:
        return None
    e["itype"] = t
    if t == 1 and data in PUSHBUTTON:
        e.update(cls=PUSHBUTTON[data], data=None)
    elif t == 3 and data < 16:
        e.update(cls="OccupancyEvent",
                 data=(bool(data & 1), bool(data & 2), bool(data & 4), "movement" if data & 8 else "presence"))
    elif t == 4:
        e.update(cls="LightEvent", data=data)
    else:
        e.update(cls="UnknownEvent", data=data)
    return e


def describe(c):
    """Observable fields of a decoded event."""
    if not hasattr(c, "short_address") or not hasattr(c, "event_data"):
        return {"cls": type(c).__name__, "short": None, "inum": None, "igroup": None, "dgroup": None, "itype": None,
                "data": "not an event: %s" % (c,)}
    sa = c.short_address
    ed = c.event_data
    if type(c).__name__ == "OccupancyEvent" and ed is not None:
        ed = tuple(ed)
    return {"cls": type(c).__name__, "short": None if sa is None else sa.address, "inum": c.instance_number,
            "igroup": c.instance_group, "dgroup": c.device_group, "itype": c.instance_type, "data": ed}


_MAPS = {}


def full_map(t):
    if t not in _MAPS:
        from dali.device.helpers import DeviceInstanceTypeMapper
        m = DeviceInstanceTypeMapper()
        if t != "nomap":
            for a in range(64):
                for i in range(32):
                    m.add_type(short_address=a, instance_number=i, instance_type=t)
        _MAPS[t] = m
    return _MAPS[t]


def check_decode(v, maptype, use_map):
    """One (frame, map) pair against the reference."""
    command, frame = _load()
    from dali.device import general as dg
    out = []
    where = "event frame %#08x map=%r" % (v, maptype if use_map else "none")
    try:
        c = command.from_frame(frame.ForwardFrame(24, v), dev_inst_map=full_map(maptype) if use_map else None)
    except Exception as e:  # noqa
        return [("C12:decode-raised:%s@%s" % (type(e).__name__, library_frame(e.__traceback__)), "%s: %r" % (where, e))]
    exp = ref_decode(v, maptype if use_map else "nomap")
    if exp is None:
        if isinstance(c, dg._Event):
            out.append(("C12:reserved-scheme-decoded-as-event", "%s -> %s" % (where, c)))
        return out
    if not isinstance(c, dg._Event):
        return [("C12:event-not-recognised", "%s -> %r, expected %s" % (where, c, exp["cls"]))]
    try:
        got = describe(c)
    except Exception as e:  # noqa
        return [("C12:field-access-raised:%s" % type(e).__name__, "%s: %r" % (where, e))]
    if got["cls"] != exp["cls"]:
        out.append(("C12:event-class:%s->%s" % (exp["cls"], got["cls"]), "%s: decoded as %s, reference says %s" % (where, got["cls"], exp["cls"])))
        return out
    for k in ("short", "inum", "igroup", "dgroup", "itype", "data"):
        if got[k] != exp[k]:
            out.append(("C12:field-%s:%s" % (k, exp["cls"]), "%s: %s is %r, reference says %r" % (where, k, got[k], exp[k])))
    if exp["cls"] == "OccupancyEvent" and not out:
        m, o, r, s = exp["data"]
        if (c.movement, c.occupied, c.repeat, c.sensor_type) != (m, o, r, s):
            out.append(("C12:occupancy-flags", "%s: flags %r" % (where, (c.movement, c.occupied, c.repeat, c.sensor_type))))
    if exp["cls"] == "LightEvent" and not out and c.illuminance != exp["data"]:
        out.append(("C12:illuminance", "%s: illuminance %r" % (where, c.illuminance)))
    if not out and v % 5 == 0:
        # the devicetype argument belongs to 16-bit frames ("ignored for all other frame lengths")
        dt = (1, 4, 6, 8, 255)[(v // 5) % 5]
        try:
            w = command.from_frame(frame.ForwardFrame(24, v), devicetype=dt, dev_inst_map=full_map(maptype) if use_map else None)
            if not isinstance(w, dg._Event) or describe(w) != got:
                out.append(("C12:devicetype-argument-changes-24-bit-decode", "%s: with devicetype=%d decoded %r, with 0 %r"
                            % (where, dt, w, got)))
        except Exception as e:  # noqa
            out.append(("C12:decode-raised:%s@%s" % (type(e).__name__, library_frame(e.__traceback__)), "%s devicetype=%d: %r" % (where, dt, e)))
    return out


def check_metamorphic(short, inum, t, data):
    """device/instance frame + map(type t)  ~  device-scheme frame carrying type t (class and data equal);
    retry of the ambiguous event == direct decode with the map; retry with an entry-less map is None."""
    command, frame = _load()
    from dali.device.helpers import DeviceInstanceTypeMapper
    from dali.device import general as dg
    out = []
    v_di = (short << 17) | 0x8000 | (inum << 10) | data
    where = "device/instance frame %#08x (short %d, instance %d) with map type %r" % (v_di, short, inum, t)
    try:
        m = DeviceInstanceTypeMapper()
        # the entry is first recorded with another type, then corrected: the latest information must win
        m.add_type(short_address=short, instance_number=inum, instance_type=(t + 3) % 32 if isinstance(t, int) else 1)
        m.add_type(short_address=short, instance_number=inum, instance_type=t)
        other = DeviceInstanceTypeMapper()
        other.add_type(short_address=(short + 1) % 64, instance_number=inum, instance_type=t)
        other.add_type(short_address=short, instance_number=(inum + 1) % 32, instance_type=t)
        via_map = command.from_frame(frame.ForwardFrame(24, v_di), dev_inst_map=m)
        amb = command.from_frame(frame.ForwardFrame(24, v_di))
        amb2 = command.from_frame(frame.ForwardFrame(24, v_di), dev_inst_map=other)
        for a, label in ((amb, "no map"), (amb2, "map without a matching entry")):
            if type(a).__name__ != "AmbiguousInstanceType":
                out.append(("C12:not-ambiguous", "%s: with %s decoded as %s" % (where, label, type(a).__name__)))
                return out
            d = describe(a)
            if (d["short"], d["inum"], d["data"]) != (short, inum, data):
                out.append(("C12:ambiguous-fields", "%s: ambiguous event reports %r" % (where, d)))
        if 0 <= t <= 31:
            v_dev = (short << 17) | (t << 10) | data
            direct = command.from_frame(frame.ForwardFrame(24, v_dev))
            a, b = describe(via_map), describe(direct)
            if a["cls"] != b["cls"] or a["data"] != b["data"] or a["itype"] != b["itype"] or a["short"] != b["short"]:
                out.append(("C12:map-vs-in-frame-type", "%s: via map %r, device-scheme frame %r" % (where, a, b)))
        # a bus monitor keeps ONE map and fills it in as it learns types: the same frame seen before and after
        # the entry was added (same map object), and the ambiguous event retried before and after
        grow = DeviceInstanceTypeMapper()
        early = command.from_frame(frame.ForwardFrame(24, v_di), dev_inst_map=grow)
        early_retry = early.retry_decode(grow) if type(early).__name__ == "AmbiguousInstanceType" else "n/a"
        grow.add_type(short_address=short, instance_number=inum, instance_type=t)
        late = command.from_frame(frame.ForwardFrame(24, v_di), dev_inst_map=grow)
        if type(early).__name__ != "AmbiguousInstanceType" or early_retry is not None:
            out.append(("C12:not-ambiguous", "%s: with a still-empty map decoded as %s (retry %r)"
                        % (where, type(early).__name__, early_retry)))
        if describe(late) != describe(via_map):
            out.append(("C12:map-growth-ignored", "%s: same map object after the entry was added decodes %r, expected %r"
                        % (where, describe(late), describe(via_map))))
        late_retry = early.retry_decode(grow)
        if late_retry is None or describe(late_retry) != describe(via_map):
            out.append(("C12:retry-after-map-growth", "%s: retry after the entry was added gave %r, expected %r (an earlier "
                        "retry with the then-empty map had returned None)" % (where, late_retry and describe(late_retry), describe(via_map))))
        grow.add_type(short_address=short, instance_number=inum, instance_type=(t + 1) % 32 if isinstance(t, int) else 3)
        changed = command.from_frame(frame.ForwardFrame(24, v_di), dev_inst_map=grow)
        if describe(changed)["itype"] != ((t + 1) % 32 if isinstance(t, int) else 3):
            out.append(("C12:map-growth-ignored", "%s: after the entry was replaced the frame still decodes as %r" % (where, describe(changed))))
        # a map object of the program's own: a DeviceInstanceTypeMapper subclass that answers get_type() by rule
        # (every instance of this device has type t) instead of from recorded entries
        from dali import address as _address

        class ByRule(DeviceInstanceTypeMapper):
            def get_type(self, *, short_address, instance_number):
                sa = short_address.address if isinstance(short_address, _address.DeviceShort) else short_address
                return t if sa == short else None
        ruled = command.from_frame(frame.ForwardFrame(24, v_di), dev_inst_map=ByRule())
        if describe(ruled) != describe(via_map):
            out.append(("C12:map-object-not-asked-through-get_type", "%s: a mapper subclass whose get_type() says %r gives %r, "
                        "expected %r" % (where, t, describe(ruled), describe(via_map))))
        rr = amb.retry_decode(ByRule())
        if rr is None or describe(rr) != describe(via_map):
            out.append(("C12:map-object-not-asked-through-get_type", "%s: retry_decode with such a mapper gives %r" % (where, rr and describe(rr))))
        # the devicetype argument belongs to 16-bit frames: "ignored for all other frame lengths"
        for dt in (1, 6, 8, 255):
            w = command.from_frame(frame.ForwardFrame(24, v_di), devicetype=dt, dev_inst_map=m)
            if describe(w) != describe(via_map):
                out.append(("C12:devicetype-argument-changes-24-bit-decode", "%s: with devicetype=%d decoded %r, with 0 %r"
                            % (where, dt, describe(w), describe(via_map))))
                break
        # the ambiguous event is parked while other traffic is decoded (other unresolved events, events of
        # unimplemented types): it must still be the event it was when it is retried
        v_o1 = (((short + 5) % 64) << 17) | 0x8000 | (((inum + 3) % 32) << 10) | ((data + 77) % 1024)
        v_o2 = (((short + 9) % 64) << 17) | (7 << 10) | ((data + 301) % 1024)
        parked = [command.from_frame(frame.ForwardFrame(24, v_o1)), command.from_frame(frame.ForwardFrame(24, v_o2))]
        if amb.frame.as_integer != v_di or describe(amb)["data"] != data:
            out.append(("C12:parked-event-changed-by-later-decode", "%s: after decoding %#08x and %#08x the parked ambiguous "
                        "event holds frame %#08x / %r" % (where, v_o1, v_o2, amb.frame.as_integer, describe(amb))))
        if parked[0].frame.as_integer != v_o1 or parked[1].frame.as_integer != v_o2:
            out.append(("C12:parked-event-changed-by-later-decode", "%s: events decoded from %#08x / %#08x hold %#08x / %#08x"
                        % (where, v_o1, v_o2, parked[0].frame.as_integer, parked[1].frame.as_integer)))
        r = amb.retry_decode(m)
        if r is None or describe(r) != describe(via_map) or r.frame.as_integer != v_di:
            out.append(("C12:retry-differs", "%s: retry gave %r, direct decode %r" % (where, r and describe(r), describe(via_map))))
        r2 = amb.retry_decode(other)
        if r2 is not None:
            out.append(("C12:retry-without-entry", "%s: retry with an entry-less map gave %r" % (where, r2)))
        r3 = amb.retry_decode(DeviceInstanceTypeMapper())
        if r3 is not None:
            out.append(("C12:retry-without-entry", "%s: retry with an empty map gave %r" % (where, r3)))
        # two buses, two maps: the event was decoded against map A (no entry then), A has learnt the type since;
        # a retry with ANOTHER map that is empty (fresh or cleared) answers for that map, not for A
        map_a = DeviceInstanceTypeMapper()
        amb_a = command.from_frame(frame.ForwardFrame(24, v_di), dev_inst_map=map_a)
        map_a.add_type(short_address=short, instance_number=inum, instance_type=t)
        cleared = DeviceInstanceTypeMapper()
        cleared.add_type(short_address=short, instance_number=inum, instance_type=t)
        cleared.clear()
        for label, mb in (("a fresh empty map", DeviceInstanceTypeMapper()), ("a cleared map", cleared)):
            rb = amb_a.retry_decode(mb)
            if rb is not None:
                out.append(("C12:retry-answers-for-another-map", "%s: decoded against map A (no entry then, entry now), retried "
                            "with %s: gave %r instead of None" % (where, label, describe(rb))))
        ra = amb_a.retry_decode(map_a)
        if ra is None or describe(ra) != describe(via_map):
            out.append(("C12:retry-after-map-growth", "%s: retry with map A after it learnt the type gave %r" % (where, ra and describe(ra))))
        # the frame is what is re-decoded: an ambiguous event whose address OBJECT has since been renumbered by the
        # program (a scratch DeviceShort reused while rebuilding a backlog, a receiver editing the event it was handed)
        # retries exactly like its frame decodes with that map
        sa = _address.DeviceShort(short)
        for label, ev in (("built with the public constructor from an address object the program renumbered afterwards",
                           dg.AmbiguousInstanceType(short_address=sa, instance_number=inum, data=data)),
                          ("decoded, then its .short_address renumbered by the receiver", command.from_frame(frame.ForwardFrame(24, v_di)))):
            try:
                (sa if ev.short_address is sa else ev.short_address).address = (short + 7) % 64
                sa.address = (short + 7) % 64
            except Exception:  # noqa - read-only would be fine too
                pass
            fv = ev.frame.as_integer
            for ml, mm in (("the map that knows the frame's instance", m), ("a map without that entry", other)):
                want = command.from_frame(frame.ForwardFrame(24, fv), dev_inst_map=mm)
                want = None if type(want).__name__ == "AmbiguousInstanceType" else describe(want)
                got = ev.retry_decode(mm)
                got = None if got is None else describe(got)
                if got != want:
                    out.append(("C12:retry-follows-the-address-object-not-the-frame", "%s: ambiguous event %s (frame now %#08x), "
                                "retried with %s: %r; decoding that frame with the same map: %r" % (where, label, fv, ml, got, want)))
        # the receiver of an event edits it (renumbers the source when merging two buses): later decodes are unaffected
        ref_desc = describe(via_map)
        try:
            via_map.short_address.address = (short + 32) % 64
            via_map.frame[0] = not via_map.frame[0]
        except Exception:  # noqa - read-only would be fine too
            pass
        again = command.from_frame(frame.ForwardFrame(24, v_di), dev_inst_map=m)
        if describe(again) != ref_desc or again.frame.as_integer != v_di:
            out.append(("C12:decode-result-shared-with-caller", "%s: after the caller edited a decoded event, the same frame decodes "
                        "as %r (frame %#x), expected %r" % (where, describe(again), again.frame.as_integer, ref_desc)))
        via_map = again
    except Exception as e:  # noqa
        if library_frame(e.__traceback__) is None:
            raise
        out.append(("C12:metamorphic-raised:%s@%s" % (type(e).__name__, library_frame(e.__traceback__)), "%s: %r" % (where, e)))
    return out


def check_map_construction(entries):
    """entries: list of [short, inum, type(1|3|4 or other int)] - four ways of building the same map."""
    from dali.device.helpers import DeviceInstanceTypeMapper
    from dali import address
    from dali.device import pushbutton, occupancy, light
    mods = {1: pushbutton, 3: occupancy, 4: light}
    out = []
    try:
        a = DeviceInstanceTypeMapper()
        b = DeviceInstanceTypeMapper()
        c = DeviceInstanceTypeMapper()
        ref = {}
        for s, i, t in entries:
            a.add_type(short_address=s, instance_number=i, instance_type=t)
            b.add_type(short_address=address.DeviceShort(s), instance_number=address.InstanceNumber(i), instance_type=t)
            c.add_type(short_address=s, instance_number=address.InstanceNumber(i), instance_type=mods.get(t, t))
            ref[(s, i)] = t
        d = DeviceInstanceTypeMapper(initial=dict(ref))
        # the table handed over as initial= may be any mapping a program keeps: dictionaries with a default hook
        # (collections.defaultdict / Counter, a dict subclass with __missing__).  Pairs never added stay unknown
        import collections

        class Hooked(dict):
            def __missing__(self, key):
                return 4
        e1 = DeviceInstanceTypeMapper(initial=collections.defaultdict(int, ref))
        e2 = DeviceInstanceTypeMapper(initial=collections.Counter(ref))
        e3 = DeviceInstanceTypeMapper(initial=Hooked(ref))
        from dali import command as _c3, frame as _f3
        for name, m in (("initial=defaultdict", e1), ("initial=Counter", e2), ("initial=dict subclass with __missing__", e3)):
            for sx, ix in ((63 - entries[0][0], 31 - entries[0][1]), (entries[-1][0] ^ 1, entries[-1][1])):
                if (sx, ix) in ref:
                    continue
                q = m.get_type(short_address=sx, instance_number=ix)
                ev = _c3.from_frame(_f3.ForwardFrame(24, (sx << 17) | 0x8000 | (ix << 10) | 5), dev_inst_map=m)
                if q is not None or type(ev).__name__ != "AmbiguousInstanceType" or dict(m.mapping) != ref:
                    out.append(("C12:map-answers-for-a-pair-never-added", "map built with %s: get_type(%d,%d) = %r, the frame of "
                                "that pair decodes as %s, the table now has %d entries (%d were given)"
                                % (name, sx, ix, q, type(ev).__name__, len(m.mapping), len(ref))))
                    break
        for name, m in (("ints", a), ("address objects", b), ("module objects", c), ("initial=", d),
                        ("initial=defaultdict", e1), ("initial=dict subclass with __missing__", e3)):
            if dict(m.mapping) != ref:
                out.append(("C12:map-construction", "map built from %s is %r, expected %r" % (name, m.mapping, ref)))
            for (s, i), t in ref.items():
                for q in (m.get_type(short_address=s, instance_number=i),
                          m.get_type(short_address=address.DeviceShort(s), instance_number=address.InstanceNumber(i))):
                    if q != t:
                        out.append(("C12:map-lookup", "map built from %s: get_type(%d,%d) = %r expected %r" % (name, s, i, q, t)))
            if m.get_type(short_address=63 - entries[0][0] if (63 - entries[0][0], entries[0][1]) not in ref else 0,
                          instance_number=entries[0][1]) not in (None, ref.get((0, entries[0][1]))):
                out.append(("C12:map-lookup", "map built from %s answers for a source never added" % name))
        # an entry named again replaces the earlier one (unit replaced / instance re-commissioned / one bus-wide
        # map kept up to date); entries supplied through initial= can be updated too
        s0, i0, t0 = entries[0]
        for name, m in (("ints", a), ("initial=", d)):
            for t_new in ((t0 + 1) % 32, 0, 31, t0):
                m.add_type(short_address=s0, instance_number=i0, instance_type=t_new)
                q = m.get_type(short_address=s0, instance_number=i0)
                if q != t_new:
                    out.append(("C12:map-update-ignored", "map built from %s: (%d,%d) was %r, add_type(...%r) again leaves "
                                "get_type = %r" % (name, s0, i0, t0, t_new, q)))
                    break
        # what get_type() says and what .mapping shows are the same information at every moment: the same pair is
        # looked up, the entry is changed through the live .mapping dict (or through the dict given as initial=),
        # and looked up again with nothing in between
        s9, i9, t9 = entries[-1]
        live = DeviceInstanceTypeMapper(initial={(s9, i9): t9, (63 - s9, 31 - i9): 2})
        for step, new_t in enumerate([(t9 + 5) % 32, None, (t9 + 9) % 32]):
            before_q = live.get_type(short_address=s9, instance_number=i9)
            try:
                if new_t is None:
                    live.mapping.pop((s9, i9), None)
                else:
                    live.mapping[(s9, i9)] = new_t
            except (TypeError, AttributeError):
                break          # .mapping is a read-only view in this version: nothing to edit through it
            q = live.get_type(short_address=s9, instance_number=i9)
            if q != live.mapping.get((s9, i9)) or q != new_t:
                out.append(("C12:get_type-disagrees-with-mapping", "after .mapping[(%d,%d)] was set to %r (lookup just before: %r) "
                            "get_type gives %r while .mapping shows %r" % (s9, i9, new_t, before_q, q, live.mapping.get((s9, i9)))))
                break
            from dali import command as _c2, frame as _f2
            ev = _c2.from_frame(_f2.ForwardFrame(24, (s9 << 17) | 0x8000 | (i9 << 10) | 3), dev_inst_map=live)
            want_cls = "AmbiguousInstanceType" if new_t is None else ref_decode((s9 << 17) | 0x8000 | (i9 << 10) | 3, new_t)["cls"]
            if type(ev).__name__ != want_cls:
                out.append(("C12:get_type-disagrees-with-mapping", "after .mapping[(%d,%d)] was set to %r the frame decodes as %s, "
                            "expected %s" % (s9, i9, new_t, type(ev).__name__, want_cls)))
                break
        # two DALI lines, two driver objects made without a table of their own: what one line learns does not name
        # types on the other
        try:
            from harness import stubs
            stubs.install()
            import dali.driver.serial as _ser
            import dali.driver.hid as _hid
            pairs = [(cls(uri), cls(uri2)) for cls, uri, uri2 in (
                (_ser.DriverLubaRs232, "luba232:/dev/verif-line-a", "luba232:/dev/verif-line-b"),
                (_ser.DriverSCIRS232, "scirs232:/dev/verif-line-a", "scirs232:/dev/verif-line-b"))]
        except Exception:  # noqa - drivers not constructible here: nothing to compare
            pairs = []
        for da, db in pairs:
            ma, mb = getattr(da, "dev_inst_map", None), getattr(db, "dev_inst_map", None)
            if ma is None or mb is None:
                continue
            s1, i1, t1 = entries[0]
            ma.add_type(short_address=s1, instance_number=i1, instance_type=t1)
            q = mb.get_type(short_address=s1, instance_number=i1)
            ev = _c3.from_frame(_f3.ForwardFrame(24, (s1 << 17) | 0x8000 | (i1 << 10) | 5), dev_inst_map=mb)
            if q is not None or type(ev).__name__ != "AmbiguousInstanceType":
                out.append(("C12:drivers-share-one-table", "two %s objects made without dev_inst_map: after add_type(%d,%d,%r) on the "
                            "first one's table the second one's answers %r and decodes the pair's frame as %s"
                            % (type(da).__name__, s1, i1, t1, q, type(ev).__name__)))
            ma.clear()
        # two mappers preset from ONE dict of the caller's; clearing one concerns neither the other nor the dict
        shared = dict(ref)
        m1 = DeviceInstanceTypeMapper(initial=shared)
        m2 = DeviceInstanceTypeMapper(initial=shared)
        m1.clear()
        if shared != ref:
            out.append(("C12:map-clear-reaches-callers-dict", "clear() on a mapper built with initial= changed the caller's dict to %r" % (shared,)))
        for (s, i), t in ref.items():
            if m2.get_type(short_address=s, instance_number=i) != t:
                out.append(("C12:map-clear-reaches-other-mapper", "after clear() on a sibling mapper, get_type(%d,%d) = %r expected %r"
                            % (s, i, m2.get_type(short_address=s, instance_number=i), t)))
                break
        # a re-scan: clear(), then some pairs are recorded again (possibly with another type), others are gone
        from dali import command as _command, frame as _frame
        before = dict(a.mapping)
        a.clear()
        if a.mapping != {}:
            out.append(("C12:map-clear", "clear() left %r" % (a.mapping,)))
        now = {}
        for k, ((s, i), t) in enumerate(sorted(before.items())):
            if k % 2 == 0:
                t2 = (t + 1 + k) % 32 if k % 4 == 0 else t
                a.add_type(short_address=s, instance_number=i, instance_type=t2)
                now[(s, i)] = t2
        if dict(a.mapping) != now:
            out.append(("C12:map-after-clear", "after clear() and %d new entries .mapping is %r, expected %r" % (len(now), dict(a.mapping), now)))
        for (s, i), t in before.items():
            q = a.get_type(short_address=s, instance_number=i)
            if q != now.get((s, i)):
                out.append(("C12:map-after-clear", "after clear() and a re-scan get_type(%d,%d) = %r, expected %r (before the clear: %r)"
                            % (s, i, q, now.get((s, i)), t)))
                break
            v = (s << 17) | 0x8000 | (i << 10) | 5
            c = _command.from_frame(_frame.ForwardFrame(24, v), dev_inst_map=a)
            want = ref_decode(v, now[(s, i)])["cls"] if (s, i) in now else "AmbiguousInstanceType"
            if type(c).__name__ != want:
                out.append(("C12:decode-after-map-clear", "after clear() and a re-scan, frame %#08x decodes as %s, expected %s "
                            "(pair recorded as %r before the clear, %r now)" % (v, type(c).__name__, want, t, now.get((s, i)))))
                break
    except Exception as e:  # noqa
        if library_frame(e.__traceback__) is None:
            raise
        out.append(("C12:map-raised:%s" % type(e).__name__, "entries %r: %r" % (entries, e)))
    return out


def run_case(case):
    _load()
    if case.get("op") == "appsub":
        # (a replay runs in a process of its own, which is the fresh interpreter the shard needs)
        r = _app_subclass_shard((0, case["which"]))
        return [(sig, v["msg"]) for sig, v in r.violations.items()]
    k = case["kind"]
    if k == "decode":
        return check_decode(case["v"], case["maptype"], case["use_map"])
    if k == "meta":
        return check_metamorphic(case["short"], case["inum"], case["t"], case["data"])
    if k == "mapctor":
        return check_map_construction(case["entries"])
    raise ValueError(k)


def _shard(arg):
    kind = arg[0]
    res = Result()
    n = nt = 0
    import collections
    hist = collections.Counter()
    if kind == "nomap":
        _, lo, hi, stride = arg
        for u in range(lo, hi, stride):
            v = ((u >> 16) << 17) | (u & 0xFFFF)
            vs = check_decode(v, "nomap", False)
            n += 1
            e = ref_decode(v)
            if e is not None:
                nt += 1
                hist[e["cls"]] += 1
            else:
                hist["reserved-scheme"] += 1
            for sig, msg in vs:
                res.violation(sig, {"kind": "decode", "v": v, "maptype": "nomap", "use_map": False}, msg)
        res.sample({"kind": "decode", "v": ((lo >> 16) << 17) | 0x0409, "maptype": "nomap", "use_map": False}, cls="no map")
    elif kind == "withmap":
        _, t, lo, hi, stride = arg
        for u in range(lo, hi, stride):
            v = ((u >> 15) << 17) | 0x8000 | (u & 0x7FFF)
            vs = check_decode(v, t, True)
            n += 1
            nt += 1
            hist["map:%s->%s" % (t, ref_decode(v, t)["cls"])] += 1
            for sig, msg in vs:
                res.violation(sig, {"kind": "decode", "v": v, "maptype": t, "use_map": True}, msg)
        res.sample({"kind": "decode", "v": 0x8000 | (7 << 17) | (2 << 10) | 5, "maptype": t, "use_map": True}, cls="with map")
    elif kind == "meta":
        _, sources, types, datas = arg
        for (s, i) in sources:
            for t in types:
                for d in datas:
                    case = {"kind": "meta", "short": s, "inum": i, "t": t, "data": d}
                    n += 1
                    nt += 1
                    for sig, msg in check_metamorphic(s, i, t, d):
                        res.violation(sig, case, msg)
        hist["metamorphic+retry"] += n
        res.sample({"kind": "meta", "short": sources[0][0], "inum": sources[0][1], "t": types[0], "data": datas[-1]}, cls="metamorphic")
    elif kind == "mapctor":
        _, seed, count = arg
        x = seed * 2654435761 % (1 << 32) or 1
        for k in range(count):
            entries = []
            for j in range(1 + k % 6):
                x = (x * 1103515245 + 12345) & 0x7FFFFFFF
                entries.append([x % 64, (x >> 8) % 32, [1, 3, 4, 0, 2, 31, 9][(x >> 16) % 7]])
            case = {"kind": "mapctor", "entries": entries}
            n += 1
            nt += 1
            for sig, msg in check_map_construction(entries):
                res.violation(sig, case, msg)
        hist["map-construction"] += n
        res.sample(case, cls="map construction")
    res.count(n)
    res.nontrivial(n=nt)
    for k, c in hist.items():
        res.label(k, c)
    return res


def _app_subclass_shard(arg):
    """Fresh interpreter.  The application derives its own classes from the public event classes (to add behaviour);
    afterwards every event frame still decodes to an object of the same stock class with the same fields - with no
    map, an empty map, a map that knows the instance and a map that does not."""
    seed, which = arg
    res = Result()
    command, frame = _load()
    import dali.device.general as dg
    import dali.device.pushbutton as pb
    import dali.device.occupancy as oc
    import dali.device.light as li
    from dali.device.helpers import DeviceInstanceTypeMapper
    stock = []
    for mod in (dg, pb, oc, li):
        for n, c in sorted(vars(mod).items()):
            if isinstance(c, type) and issubclass(c, dg._Event) and not n.startswith("_") and c.__module__ == mod.__name__:
                stock.append(c)

    def stock_name(c):
        for k in type(c).__mro__:
            if k in stock or k.__module__.startswith("dali."):
                return k.__name__
        return type(c).__name__

    def fp(v, m):
        try:
            c = command.Command.from_frame(frame.ForwardFrame(24, v), dev_inst_map=m)
            d = describe(c)
            d["cls"] = stock_name(c)
            return repr(sorted(d.items(), key=repr))
        except Exception as e:  # noqa
            return "raised %s" % type(e).__name__

    def maps():
        known = DeviceInstanceTypeMapper()
        for a in range(0, 64, 5):
            for i in range(0, 32, 3):
                known.add_type(short_address=a, instance_number=i, instance_type=[1, 3, 4, 0, 7][(a + i) % 5])
        return {"none": None, "empty": DeviceInstanceTypeMapper(), "known": known}
    frames = []
    for a in (0, 5, 10, 63, 0x40, 0x43, 0x5F, 0x60, 0x63, 0x7F):   # bits 23..17: short address / device group / instance group / instance
        for i in (0x00, 0x01, 0x03, 0x04, 0x1F, 0x20, 0x21, 0x23, 0x3F):   # bits 15..10: instance type / instance number
            for data in (0, 1, 2, 5, 0x0F, 0x155, 0x3FF):
                frames.append((a << 17) | (i << 10) | data)
    frames = sorted(set(frames))
    ms = maps()
    base = {(v, k): fp(v, m) for v in frames for k, m in ms.items()}
    picked = stock if which == "all" else [c for c in stock if c.__name__ == which]
    made = []
    for c in picked:
        try:
            made.append(type("App" + c.__name__, (c,), {"note": "application subclass"}))
        except Exception:  # noqa - some event classes refuse to be derived from (deliberately): nothing to compare then
            res.excluded["event class refuses subclasses: " + c.__name__] += 1
    ms = maps()
    for v in frames:
        for k, m in ms.items():
            res.count()
            res.nontrivial()
            got = fp(v, m)
            if got != base[(v, k)]:
                res.violation("C12:decode-changed-by-application-subclass:%s" % which, {"op": "appsub", "which": which, "v": v, "map": k},
                              "after the application derived its own classes from %s, frame %#08x (map: %s) decodes as %s; before: %s"
                              % (which if which != "all" else "every public event class", v, k, got, base[(v, k)]))
                break
    res.label("application-subclasses-of:" + which, 1)
    return res


def run(ctx):
    q, s = ctx.quick, ctx.seed
    shards = []
    st = 13 if q else 1
    for k in range(64):
        lo = k << 17
        shards.append(("nomap", lo + s % st, lo + (1 << 17), st))
    stm = 11 if q else 1
    for t in (1, 3, 4, 0, "nomap"):
        for k in range(8):
            lo = k << 18
            shards.append(("withmap", t, lo + s % stm, lo + (1 << 18), stm))
    # every type 0..31 (plus out-of-range) on sampled sources, with retry
    srcs = [((7 * k + s) % 64, (5 * k + 3 * s) % 32) for k in range(8 if q else 64)]
    datas = [0, 1, 2, 5, 9, 15, 16, 511, 1023] if q else list(range(0, 1024, 7)) + [1023]
    per = 4 if q else 1
    for k in range(0, len(srcs), per):
        shards.append(("meta", srcs[k:k + per], list(range(32)) + [32, 77, 255], datas))
    shards.append(("mapctor", s + 1, 300 if q else 5000))
    ctx.pmap(_shard, shards)
    ctx.pmap(_app_subclass_shard, [(s, w) for w in ("all", "UnknownEvent", "AmbiguousInstanceType", "ButtonPressed", "OccupancyEvent",
                                                    "LightEvent")], fresh=True)
    ctx.result.exhaustive = not q
    ctx.result.extra["strides"] = {"event_space_no_map": st, "device_instance_x_map": stm}
