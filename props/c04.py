"""C04 - address and instance bytes: exact, local, mutually exclusive codec.

Oracle: the address-byte partitions of IEC 62386-102 7.2 / -103 7.2 written out
here as arithmetic on integers (no library code):
  16 bit, bits 15..9:  0AAAAAA short | 100GGGG group | 1111110 unaddressed | 1111111 broadcast | else none
  24 bit, bit 16 = 1, bits 23..17: 0AAAAAA short | 10GGGGG group | 1111110 | 1111111 | else none
  24 bit, bit 16 = 0: event frame, carries no destination address
  instance byte (bits 15..8): 000n number | 100n group | 110n type | 001n/101n/011n feature variants |
                              FC feature-device FD feature-broadcast FE device FF broadcast | else reserved
"""
from harness.runner import Result

ID = "C04"
OPTIMIZED_PASS = True      # the whole search runs once more under python -OO (harness/runner.py)
LEVEL = "exploration"
RULE = ("enumeration: (address/instance object, frame value) pairs for writes - non-trivial when the write "
        "changes at least one bit of the frame (distinct by construction); every frame value for the decode "
        "partition; every (object, wrong size) pair; every ordered pair of address/instance objects for equality")
ASSUMPTIONS = [
    "partition tables transcribed from IEC 62386-102 7.2.2 and -103 7.2.1 by hand",
    "equality with foreign objects (ints, None) is only required not to raise",
    "for instance objects, 'equal' is checked as: same class and same number <=> ==",
]


def _mods():
    from dali import address, frame, exceptions
    return address, frame, exceptions


# ----------------------------------------------------------- reference ----
_CACHE = {}


def _cached(fn):
    def wrapper(address, which=0):
        key = (fn.__name__, which)
        if key not in _CACHE:
            _CACHE[key] = fn(address)
        return _CACHE[key]
    wrapper.__name__ = fn.__name__
    return wrapper


@_cached
def gear_objects(address):
    objs = []
    for a in range(64):
        objs.append(("GearShort", a, a, address.GearShort(a)))
    for g in range(16):
        objs.append(("GearGroup", g, 0x40 | g, address.GearGroup(g)))
    objs.append(("GearBroadcastUnaddressed", None, 0x7E, address.GearBroadcastUnaddressed()))
    objs.append(("GearBroadcast", None, 0x7F, address.GearBroadcast()))
    return objs


@_cached
def device_objects(address):
    objs = []
    for a in range(64):
        objs.append(("DeviceShort", a, a, address.DeviceShort(a)))
    for g in range(32):
        objs.append(("DeviceGroup", g, 0x40 | g, address.DeviceGroup(g)))
    objs.append(("DeviceBroadcastUnaddressed", None, 0x7E, address.DeviceBroadcastUnaddressed()))
    objs.append(("DeviceBroadcast", None, 0x7F, address.DeviceBroadcast()))
    return objs


INSTANCE_FLAGS = {0x00: "InstanceNumber", 0x80: "InstanceGroup", 0xC0: "InstanceType",
                  0x20: "FeatureInstanceNumber", 0xA0: "FeatureInstanceGroup", 0x60: "FeatureInstanceType"}
INSTANCE_SPECIAL = {0xFC: "FeatureDevice", 0xFD: "FeatureInstanceBroadcast", 0xFE: "Device", 0xFF: "InstanceBroadcast"}


def ref_instance(byte):
    """(kind name, number or None) for an instance byte."""
    if byte in INSTANCE_SPECIAL:
        return INSTANCE_SPECIAL[byte], None
    fl = byte & 0xE0
    if fl in INSTANCE_FLAGS:
        return INSTANCE_FLAGS[fl], byte & 0x1F
    return "ReservedInstance", byte


@_cached
def instance_objects(address):
    objs = []
    for byte in range(256):
        kind, num = ref_instance(byte)
        cls = getattr(address, kind)
        if kind == "ReservedInstance":
            o = cls(byte)
        elif num is None:
            o = cls()
        else:
            o = cls(num)
        objs.append((kind, num, byte, o))
    return objs


def ref_gear_addr(field7):
    if field7 < 0x40:
        return "GearShort", field7
    if field7 < 0x50:
        return "GearGroup", field7 & 0x0F
    if field7 == 0x7E:
        return "GearBroadcastUnaddressed", None
    if field7 == 0x7F:
        return "GearBroadcast", None
    return None


def ref_device_addr(v24):
    if not (v24 >> 16) & 1:
        return None
    field7 = v24 >> 17
    if field7 < 0x40:
        return "DeviceShort", field7
    if field7 < 0x60:
        return "DeviceGroup", field7 & 0x1F
    if field7 == 0x7E:
        return "DeviceBroadcastUnaddressed", None
    if field7 == 0x7F:
        return "DeviceBroadcast", None
    return None


def describe(o):
    if o is None:
        return None
    num = getattr(o, "address", getattr(o, "group", None))
    return type(o).__name__, num


def describe_inst(o):
    if o is None:
        return None
    name = type(o).__name__
    if name in INSTANCE_SPECIAL.values():
        return name, None
    return name, o.value


FRAME_FORMS = ["ForwardFrame", "plain Frame", "Frame + Frame", "ForwardFrame from bytes"]


def _build_frame(frame, bits, v, form):
    """The ways the library offers to hold `bits` bits of value `v`: a ForwardFrame (what drivers and commands build),
    the documented base class Frame, the concatenation of two frames (a plain Frame), a ForwardFrame given its bytes.
    Returns (frame, name of the form actually used)."""
    if form == 2 and bits < 2:
        form = 1
    if form == 1:
        return frame.Frame(bits, v), FRAME_FORMS[1]
    if form == 2:
        lo = bits // 2
        return frame.Frame(bits - lo, v >> lo) + frame.Frame(lo, v & ((1 << lo) - 1)), FRAME_FORMS[2]
    if form == 3:
        return frame.ForwardFrame(bits, list(v.to_bytes((bits + 7) // 8, "big"))), FRAME_FORMS[3]
    return frame.ForwardFrame(bits, v), FRAME_FORMS[0]


# --------------------------------------------------------------- cases ----
def _used_before(f, v):
    """What a program may have done with a frame object before an address is written into it: none of these
    read-only uses (each may be refused) changes what the frame is or what can be written into it."""
    for k, use in enumerate((lambda: hash(f), lambda: {f: 1}, lambda: f in {1, 2}, lambda: f in [f], lambda: repr(f),
                             lambda: f.pack, lambda: f == f, lambda: bool(f), lambda: len(f))):
        if (v >> k) & 1:
            try:
                use()
            except Exception:  # noqa - e.g. frames are not hashable
                pass


def case_nokind(case):
    """case: {"op": "nokind", "cls": name, "bits":, "v":, "plain":}: an address object of one of the public kind-less
    classes (no frame is the right size for it) is refused by every frame with IncompatibleFrame, frame unmodified."""
    address, frame, exc = _mods()
    out = []
    bits, v = case["bits"], case["v"]
    where = "%s() into %d-bit %s %#x" % (case["cls"], bits, "Frame" if case["plain"] else "ForwardFrame", v)
    try:
        o = getattr(address, case["cls"])()
    except Exception:  # noqa - not constructible without arguments: not a kind-less address
        return out
    f = (frame.Frame if case["plain"] else frame.ForwardFrame)(bits, v)
    try:
        o.add_to_frame(f)
        out.append(("C04:wrong-size-accepted:no-kind", "%s: no exception" % where))
    except exc.IncompatibleFrame:
        pass
    except Exception as e:  # noqa
        out.append(("C04:wrong-size-exception:no-kind", "%s: raised %r, not IncompatibleFrame" % (where, e)))
    if f.as_integer != v or len(f) != bits:
        out.append(("C04:wrong-size-modified:no-kind", "%s: frame now %#x/%d" % (where, f.as_integer, len(f))))
    return out


LEGACY_NAMES = {"Short": "GearShort", "Group": "GearGroup", "Broadcast": "GearBroadcast",
                "BroadcastUnaddressed": "GearBroadcastUnaddressed"}      # dali/address.py: "alias provided for legacy purposes"


def case_alias(case):
    """case: {"op": "alias", "name": legacy name, "idx": index into gear_objects, "v": 16-bit frame value}: an address
    object made through a legacy name is the control-gear address of that kind: same bits written, same read-back,
    equal to the object made through the Gear* name."""
    address, frame, exc = _mods()
    kind, num, field, ref_obj = gear_objects(address)[case["idx"]]
    ctor = getattr(address, case["name"], None)
    if ctor is None:
        return []
    where = "address.%s(%s) into 16-bit %#x" % (case["name"], "" if num is None else num, case["v"])
    out = []
    try:
        o = ctor() if num is None else ctor(num)
        f = frame.ForwardFrame(16, case["v"])
        o.add_to_frame(f)
        exp = (case["v"] & ~(0x7F << 9)) | (field << 9)
        if f.as_integer != exp:
            out.append(("C04:write-wrong-bits:legacy-name", "%s: got %#x, the %s it stands for gives %#x" % (where, f.as_integer, kind, exp)))
        r = address.from_frame(f)
        if describe(r) != (kind, num):
            out.append(("C04:address-readback:legacy-name", "%s: read back %r, expected %r" % (where, describe(r), (kind, num))))
        if not (o == ref_obj) or not (ref_obj == o) or (o != ref_obj):
            out.append(("C04:equality:legacy-name", "%s: not equal to address.%s(%s)" % (where, kind, "" if num is None else num)))
        # it is a control-gear address: a 24-bit (control device) frame refuses it and stays as it was
        for bits in (24, 8, 25):
            v0 = case["v"] & ((1 << bits) - 1)
            g = frame.ForwardFrame(bits, v0)
            try:
                o.add_to_frame(g)
                out.append(("C04:wrong-size-accepted:legacy-name", "%s: also accepted by a %d-bit frame (now %#x)" % (where, bits, g.as_integer)))
                break
            except exc.IncompatibleFrame:
                pass
            if g.as_integer != v0:
                out.append(("C04:wrong-size-modified:legacy-name", "%s: a %d-bit frame refused it but is now %#x" % (where, bits, g.as_integer)))
                break
    except Exception as e:  # noqa
        out.append(("C04:write-raised:%s:legacy-name" % type(e).__name__, "%s: %r" % (where, e)))
    return out


def case_clone(case):
    """case: {"op": "clone", "i": index into all_objects} or {"op": "clone", "inst": instance byte}: a copy of an address
    or instance object (copy / deepcopy / pickle round trip) is an equal object of the same kind that writes the same
    bits; renumbering the copy leaves the original alone."""
    import copy
    import pickle
    address, frame, exc = _mods()
    out = []
    if "inst" in case:
        kind, num, field, o = instance_objects(address)[case["inst"]]
        bits, shift = 24, 8
    else:
        space, kind, num, field, o = all_objects(address)[case["i"]]
        bits, shift = (16, 9) if space == "gear" else (24, 17)
    where = "%s(%r)" % (kind, num)
    hows = [("copy.copy", copy.copy), ("copy.deepcopy", copy.deepcopy)] + \
           [("pickle protocol %d round trip" % pr, lambda x, pr=pr: pickle.loads(pickle.dumps(x, protocol=pr)))
            for pr in range(pickle.HIGHEST_PROTOCOL + 1)]
    for how, fn in hows:
        try:
            c = fn(o)
            f1, f2 = frame.ForwardFrame(bits, 0), frame.ForwardFrame(bits, 0)
            o.add_to_frame(f1)
            c.add_to_frame(f2)
            if type(c) is not type(o) or not (c == o) or (c != o) or f1.as_integer != f2.as_integer:
                out.append(("C04:clone-differs", "%s: %s gives %r (writes %#x, the original writes %#x, equal: %r)"
                            % (where, how, c, f2.as_integer, f1.as_integer, c == o)))
                break
        except Exception as e:  # noqa
            out.append(("C04:clone-raised:%s" % type(e).__name__, "%s: %s raised %r" % (where, how, e)))
            break
    return out


def nokind_classes(address):
    """Public address classes that can be constructed but are none of the concrete kinds the standard defines."""
    names = []
    concrete = {type(t[-1]) for t in gear_objects(address)} | {type(t[-1]) for t in device_objects(address)}
    for n in sorted(vars(address)):
        c = getattr(address, n)
        if isinstance(c, type) and issubclass(c, address.Address) and not n.startswith("_") and c not in concrete:
            try:
                c()
                names.append(n)
            except Exception:  # noqa
                pass
    return names


def case_write(case):
    """case: {"op": "write", "space": gear|device|instance, "idx": object index, "v": frame value}"""
    address, frame, exc = _mods()
    space, idx, v = case["space"], case["idx"], case["v"]
    out = []
    if space == "gear":
        kind, num, field, o = gear_objects(address)[idx]
        bits, mask, shift = 16, 0x7F << 9, 9
    elif space == "device":
        kind, num, field, o = device_objects(address)[idx]
        bits, mask, shift = 24, 0x7F << 17, 17
    else:
        kind, num, field, o = instance_objects(address)[idx]
        bits, mask, shift = 24, 0xFF << 8, 8
    # address and instance objects are written into "a frame": every form the library offers, not only ForwardFrame
    f, fname = _build_frame(frame, bits, v, case.get("form", (v * 7 + (v >> 9) + idx) % 4))
    where = "%s(%r) into %d-bit %#x (%s)" % (kind, num, bits, v, fname)
    # read the frame BEFORE writing too: reading must be a function of the frame's current bits, not of what the
    # same frame object held when it was last looked at
    try:
        pre_a = address.from_frame(f)
        pre_i = address.instance_from_frame(f)
        exp_a = ref_gear_addr(v >> 9) if bits == 16 else ref_device_addr(v)
        if describe(pre_a) != exp_a:
            out.append(("C04:partition:%d" % bits, "%s: before the write from_frame gave %r, standard says %r"
                        % (where, describe(pre_a), exp_a)))
        if bits == 24 and describe_inst(pre_i) != ref_instance((v >> 8) & 0xFF):
            out.append(("C04:instance-partition", "%s: before the write instance_from_frame gave %r" % (where, describe_inst(pre_i))))
    except Exception as e:  # noqa
        return [("C04:read-raised:%s" % type(e).__name__, "%s: %r" % (where, e))]
    _used_before(f, v)
    try:
        o.add_to_frame(f)
    except Exception as e:  # noqa
        return [("C04:write-raised:%s" % type(e).__name__, "%s: %r" % (where, e))]
    exp = (v & ~mask) | (field << shift)
    got = f.as_integer
    if len(f) != bits:
        out.append(("C04:write-changed-length", where))
    if (got ^ v) & ~mask:
        out.append(("C04:write-not-local:" + space, "%s: bits outside the field changed: %#x -> %#x" % (where, v, got)))
    elif got != exp:
        out.append(("C04:write-wrong-bits:" + space, "%s: got %#x expected %#x" % (where, got, exp)))
    # read back
    try:
        if space == "instance":
            r = address.instance_from_frame(f)
            if describe_inst(r) != (kind, num):
                out.append(("C04:instance-readback", "%s: read back %r" % (where, describe_inst(r))))
            elif not (r == o) or (r != o):
                out.append(("C04:instance-readback-not-equal:" + kind, "%s: read-back object %s does not compare equal" % (where, r)))
        else:
            r = address.from_frame(f)
            if space == "device" and not (got >> 16) & 1:
                if r is not None:
                    out.append(("C04:event-frame-has-address", "%s: bit 16 clear but from_frame gave %r" % (where, describe(r))))
            else:
                if describe(r) != (kind, num):
                    stale = describe(r) == describe(pre_a) and describe(pre_a) != (kind, num)
                    out.append(("C04:address-readback" + (":stale-after-rewrite" if stale else ""),
                                "%s: read back %r%s" % (where, describe(r), " (what the frame held BEFORE the write)" if stale else "")))
                elif not (r == o) or (r != o):
                    out.append(("C04:address-readback-not-equal:" + kind, "%s: read-back object does not compare equal" % where))
    except Exception as e:  # noqa
        out.append(("C04:read-raised:%s" % type(e).__name__, "%s: %r" % (where, e)))
    return out


def case_decode(case):
    """case: {"op": "decode", "bits": 16|24, "v": value} - partition, exclusivity, instance byte."""
    address, frame, exc = _mods()
    bits, v = case["bits"], case["v"]
    out = []
    # the frame may be a ForwardFrame (what drivers and commands build), a plain Frame, or the result of
    # concatenating two frames - "any 16- or 24-bit frame"
    form = case.get("form", (v * 7 + (v >> 9)) % 4)
    if form == 1:
        f = frame.Frame(bits, v)
    elif form == 2:
        f = frame.Frame(8, v >> (bits - 8)) + frame.Frame(bits - 8, v & ((1 << (bits - 8)) - 1))
    elif form == 3:
        f = frame.ForwardFrame(bits, list(v.to_bytes(bits // 8, "big")))
    else:
        f = frame.ForwardFrame(bits, v)
    where = "%d-bit %#x (%s)" % (bits, v, ["ForwardFrame", "plain Frame", "Frame + Frame", "ForwardFrame from bytes"][form])
    try:
        r = address.from_frame(f)
        exp = ref_gear_addr(v >> 9) if bits == 16 else ref_device_addr(v)
        if describe(r) != exp:
            out.append(("C04:partition:%d" % bits, "%s: from_frame gave %r, standard says %r" % (where, describe(r), exp)))
        kinds = []
        for cls in address.Address._addrtypes:
            if cls in (address.GearAddress, address.DeviceAddress):
                continue
            x = cls.from_frame(f)
            if x is not None:
                kinds.append(describe(x))
        if len(kinds) > 1:
            out.append(("C04:two-kinds", "%s: matched %r" % (where, kinds)))
        if exp is not None and kinds != [exp]:
            out.append(("C04:kind-from_frame", "%s: per-kind from_frame gave %r expected %r" % (where, kinds, exp)))
        if exp is None and kinds:
            out.append(("C04:kind-from_frame", "%s: per-kind from_frame gave %r expected none" % (where, kinds)))
        i = address.instance_from_frame(f)
        if bits == 24:
            e = ref_instance((v >> 8) & 0xFF)
            if describe_inst(i) != e:
                out.append(("C04:instance-partition", "%s: instance_from_frame gave %r, standard says %r" % (where, describe_inst(i), e)))
        elif i is not None:
            out.append(("C04:instance-off-24", "%s: instance_from_frame gave %r" % (where, i)))
        if f.as_integer != v or len(f) != bits:
            out.append(("C04:decode-modified-frame", where))
        # the same frame object after single-bit writes (a program toggling the selector or one address bit): reading
        # is a function of the bits it holds NOW
        for i in sorted({bits - 1, bits - 2, bits - 7, (v * 5) % bits, 16 % bits, 8 % bits}):
            f[i] = not f[i]
            v2 = f.as_integer
            r2 = address.from_frame(f)
            exp2 = ref_gear_addr(v2 >> 9) if bits == 16 else ref_device_addr(v2)
            if describe(r2) != exp2:
                out.append(("C04:partition:%d:after-bit-write" % bits, "%s: after f[%d] was flipped (now %#x) from_frame gives %r, "
                            "standard says %r" % (where, i, v2, describe(r2), exp2)))
                break
            if bits == 24:
                i2 = address.instance_from_frame(f)
                if describe_inst(i2) != ref_instance((v2 >> 8) & 0xFF):
                    out.append(("C04:instance-partition:after-bit-write", "%s: after f[%d] was flipped (now %#x) "
                                "instance_from_frame gives %r" % (where, i, v2, describe_inst(i2))))
                    break
    except Exception as e:  # noqa
        out.append(("C04:decode-raised:%s" % type(e).__name__, "%s: %r" % (where, e)))
    return out


def case_wrongsize(case):
    """case: {"op": "wrongsize", "space":, "idx":, "bits":, "v":}"""
    address, frame, exc = _mods()
    space, idx, bits, v = case["space"], case["idx"], case["bits"], case["v"]
    objs = {"gear": gear_objects, "device": device_objects, "instance": instance_objects}[space](address)
    kind, num, field, o = objs[idx]
    f, fname = _build_frame(frame, bits, v, case.get("form", (bits + idx + (v & 3)) % 4))
    where = "%s(%r) into %d-bit frame %#x (%s)" % (kind, num, bits, v, fname)
    out = []
    _used_before(f, v ^ idx)
    try:
        o.add_to_frame(f)
        out.append(("C04:wrong-size-accepted:" + space, "%s: no exception" % where))
    except exc.IncompatibleFrame:
        pass
    except Exception as e:  # noqa
        out.append(("C04:wrong-size-exception:" + space, "%s: raised %r, not IncompatibleFrame" % (where, e)))
    if f.as_integer != v or len(f) != bits:
        out.append(("C04:wrong-size-modified:" + space, "%s: frame now %#x/%d" % (where, f.as_integer, len(f))))
    try:
        if bits not in (16, 24):
            r = address.from_frame(f)
            if r is not None:
                out.append(("C04:wrong-size-decoded", "%s: from_frame gave %r" % (where, describe(r))))
        if bits != 24 and address.instance_from_frame(f) is not None:
            out.append(("C04:instance-off-24", "%s: instance_from_frame not None" % where))
    except Exception as e:  # noqa
        out.append(("C04:decode-raised:%s" % type(e).__name__, "%s: %r" % (where, e)))
    return out


def all_objects(address, which=0):
    key = ("all", which)
    if key not in _CACHE:
        _CACHE[key] = [("gear",) + t for t in gear_objects(address, which)] + \
            [("device",) + t for t in device_objects(address, which)]
    return _CACHE[key]


def case_equality(case):
    """case: {"op": "eq", "i":, "j":} over gear+device address objects, or {"op":"eqinst","i","j"}."""
    address, frame, exc = _mods()
    out = []
    if case["op"] == "eq":
        objs = all_objects(address)
        # second, independently constructed list so identity cannot help
        objs2 = all_objects(address, 1)
        a = objs[case["i"]]
        b = objs2[case["j"]]
        exp = (a[1], a[2]) == (b[1], b[2]) and a[0] == b[0]
    else:
        objs = instance_objects(address)
        objs2 = instance_objects(address, 1)
        a = ("instance",) + objs[case["i"]]
        b = ("instance",) + objs2[case["j"]]
        exp = a[3] == b[3]
    where = "%s(%r) == %s(%r)" % (a[1], a[2], b[1], b[2])
    try:
        # equality is about kind and number only: an attribute an application hangs on one of the objects
        # (a label, a reference to its device record) must not enter
        try:
            b[4].verif_label = "annotated"
        except AttributeError:
            pass
        eq = a[4] == b[4]
        ne = a[4] != b[4]
    except Exception as e:  # noqa
        return [("C04:eq-raised", "%s: %r" % (where, e))]
    if bool(eq) != exp:
        sig = "C04:equality:%s" % ("instance:" + a[1] if a[0] == "instance" else "address")
        out.append((sig, "%s is %r, expected %r" % (where, eq, exp)))
    if bool(ne) == bool(eq):
        out.append(("C04:ne-inconsistent", where))
    return out


def case_foreign(case):
    address, frame, exc = _mods()
    out = []
    for space, kind, num, field, o in all_objects(address) + [("instance",) + t for t in instance_objects(address)][::17]:
        for other in (None, 5, "x", object(), 1.5):
            try:
                o == other
                o != other
                other == o
            except Exception as e:  # noqa
                out.append(("C04:eq-raised", "%s(%r) == %r: %r" % (kind, num, other, e)))
    return out


NUMBERED = [("GearShort", "address", 64, 16, 9, 0x00), ("GearGroup", "group", 16, 16, 9, 0x40),
            ("DeviceShort", "address", 64, 24, 17, 0x00), ("DeviceGroup", "group", 32, 24, 17, 0x40)]


def case_lifetime(case):
    """Address objects are plain values with a public number: what the program does with one object (renumbering
    it before it is written, editing an object a decode handed out) is visible in that object and nowhere else.
    case: {"op": "lifetime", "cls": index into NUMBERED, "n1":, "n2":, "v": frame value}"""
    address, frame, exc = _mods()
    name, attr, top, bits, shift, flag = NUMBERED[case["cls"]]
    cls = getattr(address, name)
    n1, n2, v = case["n1"], case["n2"], case["v"]
    where = "%s: n1=%d n2=%d frame %#x" % (name, n1, n2, v)
    out = []
    try:
        # (a) built with n1, renumbered to n2, then written
        o = cls(n1)
        if n1 % 2:
            # the object has been compared (and, where possible, hashed) before it is renumbered
            _ = (o == cls(n1), o != cls(n2), o == 5, o in [cls(n2), cls(n1)])
            try:
                hash(o)
            except TypeError:
                pass
        setattr(o, attr, n2)
        f = frame.ForwardFrame(bits, v | (1 << 16) if bits == 24 else v)
        o.add_to_frame(f)
        r = address.from_frame(f)
        if not (o == cls(n2)) or (o != cls(n2)) or (o == cls(n1)) or not (cls(n2) == o):
            out.append(("C04:renumbered-object-compares-as-its-old-number:" + name,
                        "%s: after renumbering %d -> %d the object ==%s(%d): %r, ==%s(%d): %r" % (where, n1, n2, name, n2, o == cls(n2), name, n1, o == cls(n1))))
        if describe(r) != (name, n2) or not (r == o):
            out.append(("C04:renumbered-object-written-with-old-number:" + name,
                        "%s: object renumbered %d -> %d writes a field that reads back as %r" % (where, n1, n2, describe(r))))
        # (b) decode, edit the object that was handed out, decode the same bits again
        fv = (v & ~(0x7F << shift)) | ((flag | n1) << shift) | ((1 << 16) if bits == 24 else 0)
        r1 = address.from_frame(frame.ForwardFrame(bits, fv))
        if describe(r1) == (name, n1):
            setattr(r1, attr, n2)
        r2 = address.from_frame(frame.ForwardFrame(bits, fv))
        if describe(r2) != (name, n1):
            out.append(("C04:decode-result-shared-with-caller:" + name,
                        "%s: after the caller edited the object decoded from %#x, decoding the same bits gives %r"
                        % (where, fv, describe(r2))))
        # (c) the number given as another kind of int (an IntEnum member naming the installation's addresses, a bool,
        #     an int subclass): same field on the wire, equal to the plain object and to what is read back
        import enum
        Named = enum.IntEnum("Named", {"A%d" % n1: n1, "B%d" % n2: n2})

        class Tagged(int):
            pass
        for spelled in [Named(n1), Tagged(n1)] + ([bool(n1)] if n1 in (0, 1) else []):
            o3 = cls(spelled)
            f3 = frame.ForwardFrame(bits, (v | (1 << 16)) if bits == 24 else v)
            o3.add_to_frame(f3)
            r3 = address.from_frame(f3)
            plain = cls(n1)
            if describe(r3) != (name, n1) or not (o3 == plain and plain == o3 and r3 == o3 and o3 == r3) or (o3 != plain) or (r3 != o3):
                out.append(("C04:int-like-number-not-equal:" + name, "%s(%r): reads back as %r; ==plain %r, plain== %r, "
                            "==read-back %r, != plain %r" % (name, spelled, describe(r3), o3 == plain, plain == o3, o3 == r3, o3 != plain)))
        # (d) one object written into one frame, the field overwritten by somebody else, the object written again
        o4, other = cls(n1), cls(n2)
        f4 = frame.ForwardFrame(bits, (v | (1 << 16)) if bits == 24 else v)
        o4.add_to_frame(f4)
        other.add_to_frame(f4)
        o4.add_to_frame(f4)
        if describe(address.from_frame(f4)) != (name, n1):
            out.append(("C04:rewrite-into-same-frame-skipped:" + name, "%s: %s(%d) written, overwritten by %s(%d), written again: "
                        "frame reads %r" % (where, name, n1, name, n2, describe(address.from_frame(f4)))))
        f4[shift + 5:shift] = n2 if n2 < 64 else 0
        o4.add_to_frame(f4)
        if describe(address.from_frame(f4)) != (name, n1):
            out.append(("C04:rewrite-into-same-frame-skipped:" + name, "%s: field changed by a slice write, object written again: "
                        "frame reads %r" % (where, describe(address.from_frame(f4)))))
        fresh = cls(n1)
        if describe(fresh) != (name, n1) or not (fresh == r2):
            out.append(("C04:decode-result-shared-with-caller:" + name, "%s: %s(%d) now is %r" % (where, name, n1, describe(fresh))))
    except Exception as e:  # noqa
        out.append(("C04:lifetime-raised:%s" % type(e).__name__, "%s: %r" % (where, e)))
    return out


def case_user_subclass(case):
    """A program may derive its own classes from the public address classes (a label, another way of numbering).
    Objects of such classes are addresses of their base kind, and their existence changes nothing about how the
    library's own classes read frames.  Runs in a process of its own (class definitions stay in the registry).
    case: {"op": "subclass", "variant": "label" | "renumbering"}"""
    address, frame, exc = _mods()
    out = []
    variant = case["variant"]
    numbered = [("GearShort", 64, 16, 9, 0x00), ("GearGroup", 16, 16, 9, 0x40), ("DeviceShort", 64, 24, 17, 0x00),
                ("DeviceGroup", 32, 24, 17, 0x40)]
    fixed = [("GearBroadcast", 16, 9, 0x7F), ("GearBroadcastUnaddressed", 16, 9, 0x7E), ("DeviceBroadcast", 24, 17, 0x7F),
             ("DeviceBroadcastUnaddressed", 24, 17, 0x7E)]
    try:
        subs = {}
        for name, top, bits, shift, flag in numbered:
            base = getattr(address, name)
            if variant == "label":
                subs[name] = type("Labelled" + name, (base,), {"label": "plant room"})
            else:
                # numbered from 1 in the user's world: Zone(n) is group n-1, Panel(n) is short address n-1
                def _init(self, n, _b=base):
                    _b.__init__(self, n - 1)
                subs[name] = type("OneBased" + name, (base,), {"__init__": _init})
        for name, bits, shift, field in fixed:
            subs[name] = type("Labelled" + name, (getattr(address, name),), {"label": "all"})
        # 1. the library's reading of every address byte is what it was
        for bits, shift in ((16, 9), (24, 17)):
            for field in range(128):
                v = (field << shift) | (0x10000 if bits == 24 else 0) | 0x5A
                r = address.from_frame(frame.ForwardFrame(bits, v))
                exp = ref_gear_addr(field) if bits == 16 else ref_device_addr(v)
                if describe(r) != exp:
                    out.append(("C04:partition-changed-by-user-subclass:%s" % variant, "with application subclasses defined (%s), "
                                "%d-bit %#x reads as %r, standard says %r" % (variant, bits, v, describe(r), exp)))
                    break
        # 1b. the same for the instance byte: the program derives classes from the public instance classes too; every
        #     instance byte still reads as an object of exactly the library's class for it
        if variant == "label":
            inst_names = sorted(set(INSTANCE_FLAGS.values()) | set(INSTANCE_SPECIAL.values()) | {"ReservedInstance"})
            for iname in inst_names:
                base = getattr(address, iname, None)
                if base is not None:
                    try:
                        type("Labelled" + iname, (base,), {"label": "door"})
                    except Exception:  # noqa - a class that refuses subclassing: nothing to compare
                        pass
            for byte in range(256):
                r = address.instance_from_frame(frame.ForwardFrame(24, 0x010000 | (byte << 8) | 0x33))
                kind, num = ref_instance(byte)
                if type(r).__name__ != kind or describe_inst(r) != (kind, num):
                    out.append(("C04:instance-partition-changed-by-user-subclass", "with application subclasses of the instance "
                                "classes defined, instance byte %#04x reads as %s %r, standard says %r"
                                % (byte, type(r).__name__, describe_inst(r), (kind, num))))
                    break
        # 2. an object of a subclass is an address of its base kind: writes the same field, equals the plain object
        #    and the object read back, in both operand orders
        for name, top, bits, shift, flag in numbered:
            base = getattr(address, name)
            for n in (0, 1, top // 2, top - 1):
                o = subs[name](n if variant == "label" else n + 1)
                plain = base(n)
                f = frame.ForwardFrame(bits, 0x10000 if bits == 24 else 0)
                o.add_to_frame(f)
                g = frame.ForwardFrame(bits, 0x10000 if bits == 24 else 0)
                plain.add_to_frame(g)
                back = address.from_frame(f)
                if f.as_integer != g.as_integer:
                    out.append(("C04:user-subclass-writes-other-bits:" + name, "%s(%d) writes %#x, %s(%d) writes %#x"
                                % (type(o).__name__, n, f.as_integer, name, n, g.as_integer)))
                elif not (o == plain and plain == o and back == o and o == back) or (o != plain) or (plain != o) or (back != o):
                    out.append(("C04:user-subclass-not-equal:" + name, "%s object for number %d: ==plain %r, plain== %r, "
                                "==read-back %r, read-back== %r, != %r" % (type(o).__name__, n, o == plain, plain == o, o == back,
                                                                          back == o, o != plain)))
        for name, bits, shift, field in fixed:
            o, plain = subs[name](), getattr(address, name)()
            f = frame.ForwardFrame(bits, 0x10000 if bits == 24 else 0)
            o.add_to_frame(f)
            back = address.from_frame(f)
            if not (o == plain and plain == o and back == o and o == back) or (o != plain) or (back != o):
                out.append(("C04:user-subclass-not-equal:" + name, "%s object: ==plain %r, plain== %r, ==read-back %r, read-back== %r"
                            % (type(o).__name__, o == plain, plain == o, o == back, back == o)))
    except Exception as e:  # noqa
        out.append(("C04:user-subclass-raised:%s" % type(e).__name__, "variant %s: %r" % (variant, e)))
    return out


def _short_first_shard(_):
    """Runs in a process of its own: the program has used the frame slice interface on frames of OTHER lengths
    (every bit range, before any address was ever written) - writing and reading addresses is unaffected."""
    address, frame, exc = _mods()
    res = Result()
    for w in (8, 12, 16, 17, 20, 25, 32):
        f = frame.Frame(w, 0)
        g = frame.ForwardFrame(w, (1 << w) - 1)
        for hi in range(w):
            for lo in range(hi + 1):
                f[hi:lo] = (1 << (hi - lo + 1)) - 1
                g[hi:lo] = 0
                _ = f[hi:lo]
    n = 0
    for space, objs in (("gear", gear_objects(address, 1)), ("device", device_objects(address, 1)), ("instance", instance_objects(address, 1))):
        for idx in range(len(objs)):
            for v in ((0xFFFFFF, 0x000000, 0xA5A5A5, 0x5A5A5A) if space != "gear" else (0xFFFF, 0x0000, 0xA5A5)):
                case = {"op": "write", "space": space, "idx": idx, "v": v, "after": "slices-on-other-lengths"}
                n += 1
                for sig, msg in case_write(case):
                    res.violation(sig + ":after-slices-on-other-frame-lengths", case, msg)
    for bits, vals in ((16, range(0, 1 << 16, 257)), (24, range(0, 1 << 24, 65793))):
        for v in vals:
            case = {"op": "decode", "bits": bits, "v": v}
            n += 1
            for sig, msg in case_decode(case):
                res.violation(sig + ":after-slices-on-other-frame-lengths", case, msg)
    res.count(n)
    res.nontrivial(n=n)
    res.label("after-slices-on-other-frame-lengths", n)
    res.sample({"op": "write", "space": "instance", "idx": 3, "v": 0xFFFFFF, "after": "slices-on-other-lengths"}, cls="process history")
    return res


def _subclass_shard(variant):
    res = Result()
    case = {"op": "subclass", "variant": variant}
    res.count(300)
    res.nontrivial(n=300)
    res.label("user-subclasses:" + variant, 300)
    for sig, msg in case_user_subclass(case):
        res.violation(sig, case, msg)
    res.sample(case, cls="user subclass")
    return res


def run_case(case):
    op = case["op"]
    if op == "lifetime":
        return case_lifetime(case)
    if op == "subclass":
        return case_user_subclass(case)
    if op == "write":
        return case_write(case)
    if op == "decode":
        return case_decode(case)
    if op == "wrongsize":
        return case_wrongsize(case)
    if op in ("eq", "eqinst"):
        return case_equality(case)
    if op == "foreign":
        return case_foreign(case)
    if op == "nokind":
        return case_nokind(case)
    if op == "alias":
        return case_alias(case)
    if op == "clone":
        return case_clone(case)
    raise ValueError(op)


# -------------------------------------------------------------- shards ----
def _shard(arg):
    kind = arg[0]
    res = Result()
    address, frame, exc = _mods()
    if kind == "write":
        _, space, idx, start, stride, low_bytes = arg
        objs = {"gear": gear_objects, "device": device_objects, "instance": instance_objects}[space](address)
        knd, num, field, o = objs[idx]
        shift, mask = {"gear": (9, 0x7F << 9), "device": (17, 0x7F << 17), "instance": (8, 0xFF << 8)}[space]
        for u in range(start, 65536, stride):
            if space == "gear":
                vals = (u,)
            elif space == "device":
                vals = tuple((u << 8) | lb for lb in low_bytes)
            else:
                # instance byte is bits 15..8: vary bits 23..16 and 7..0 completely
                vals = tuple(((u >> 8) << 16) | (ib << 8) | (u & 0xFF) for ib in low_bytes)
            for v in vals:
                case = {"op": "write", "space": space, "idx": idx, "v": v}
                res.count()
                if (v & mask) != (field << shift):
                    res.nontrivial()
                for sig, msg in case_write(case):
                    res.violation(sig, case, msg)
        res.label("write:" + space, 1)
        if idx == 70 and start == 0:
            res.sample({"op": "write", "space": space, "idx": idx, "v": vals[0], "object": "%s(%r)" % (knd, num)})
    elif kind == "decode":
        _, bits, lo, hi, stride = arg
        for v in range(lo, hi, stride):
            case = {"op": "decode", "bits": bits, "v": v}
            res.count()
            res.nontrivial()
            for sig, msg in case_decode(case):
                res.violation(sig, case, msg)
        res.label("decode:%d" % bits, 1)
        if lo == 0:
            res.sample({"op": "decode", "bits": bits, "v": lo + stride * 77})
    elif kind == "lifetime":
        _, ci, seed = arg
        name, attr, top, bits, shift, flag = NUMBERED[ci]
        for n1 in range(top):
            for n2 in range(top):
                if n1 == n2:
                    continue
                v = ((n1 * 2654435761 + n2 * 40503 + seed * 97) & ((1 << bits) - 1))
                case = {"op": "lifetime", "cls": ci, "n1": n1, "n2": n2, "v": v}
                res.count()
                res.nontrivial()
                for sig, msg in case_lifetime(case):
                    res.violation(sig, case, msg)
        res.label("lifetime:" + name, 1)
        res.sample({"op": "lifetime", "cls": ci, "n1": 3, "n2": 9, "v": 0x1234})
    elif kind == "wrongsize":
        _, space = arg
        objs = {"gear": gear_objects, "device": device_objects, "instance": instance_objects}[space](address)
        right = 16 if space == "gear" else 24
        for idx in range(len(objs)):
            for bits in range(1, 65):
                if bits == right:
                    continue
                full = (1 << bits) - 1
                for v in {0, full, full // 3, (0xA5A5A5A5A5A5A5A5 & full)}:
                    case = {"op": "wrongsize", "space": space, "idx": idx, "bits": bits, "v": v}
                    res.count()
                    res.nontrivial()
                    for sig, msg in case_wrongsize(case):
                        res.violation(sig, case, msg)
        res.sample({"op": "wrongsize", "space": space, "idx": 3, "bits": 17, "v": 0x1FFFF})
    elif kind == "alias":
        objs = gear_objects(address)
        for name, gkind in sorted(LEGACY_NAMES.items()):
            for idx, (k, num, field, o) in enumerate(objs):
                if k != gkind:
                    continue
                for v in (0x0000, 0xFFFF, 0xA55A, 0x01FF, 0xFE00 ^ (idx << 3)):
                    case = {"op": "alias", "name": name, "idx": idx, "v": v & 0xFFFF}
                    res.count()
                    res.nontrivial()
                    for sig, msg in case_alias(case):
                        res.violation(sig, case, msg)
            res.label("legacy-name:" + name, 1)
    elif kind == "nokind":
        for name in nokind_classes(address):
            for bits in range(1, 65):
                full = (1 << bits) - 1
                for v in sorted({0, full, full // 3, (0xA5A5A5A5A5A5A5A5 & full)}):
                    for plain in (False, True):
                        case = {"op": "nokind", "cls": name, "bits": bits, "v": v, "plain": plain}
                        res.count()
                        res.nontrivial()
                        for sig, msg in case_nokind(case):
                            res.violation(sig, case, msg)
            res.label("kind-less-class:" + name, 1)
    elif kind == "eq":
        n = len(all_objects(address))
        for i in range(n):
            for j in range(n):
                case = {"op": "eq", "i": i, "j": j}
                res.count()
                res.nontrivial()
                for sig, msg in case_equality(case):
                    res.violation(sig, case, msg)
        for i in range(256):
            for j in range(256):
                case = {"op": "eqinst", "i": i, "j": j}
                res.count()
                res.nontrivial()
                for sig, msg in case_equality(case):
                    res.violation(sig, case, msg)
        res.count()
        for sig, msg in case_foreign({"op": "foreign"}):
            res.violation(sig, {"op": "foreign"}, msg)
        for i in range(n):
            case = {"op": "clone", "i": i}
            res.count()
            res.nontrivial()
            for sig, msg in case_clone(case):
                res.violation(sig, case, msg)
        for b in range(256):
            case = {"op": "clone", "inst": b}
            res.count()
            res.nontrivial()
            for sig, msg in case_clone(case):
                res.violation(sig, case, msg)
        res.sample({"op": "eq", "i": 3, "j": 85})
    return res


def run(ctx):
    address, frame, exc = _mods()
    q = ctx.quick
    shards = []
    # writes: thorough = every frame value; quick = seeded stride
    stride = 4 if q else 1
    off = ctx.seed % stride
    for idx in range(82):
        shards.append(("write", "gear", idx, off if q else 0, stride if q else 1, None))
    dstride = 16 if q else 1
    for idx in range(98):
        shards.append(("write", "device", idx, ctx.seed % dstride, dstride, (0x00, 0xFF, 0xA5)))
    istride = 64 if q else 4
    for idx in range(256):
        # the written object is fixed; the pre-existing instance byte varies over a few values
        shards.append(("write", "instance", idx, ctx.seed % istride, istride, (0x00, 0xFF, idx ^ 0xFF)))
    # decode partition
    for lo in range(0, 1 << 16, 1 << 12):
        shards.append(("decode", 16, lo, lo + (1 << 12), 1))
    d24 = 13 if q else 1   # 61 is coprime to 2^24: the strided walk hits every residue pattern of low bits
    for k in range(64):
        lo = k << 18
        shards.append(("decode", 24, lo + (ctx.seed % d24), lo + (1 << 18), d24))
    for space in ("gear", "device", "instance"):
        shards.append(("wrongsize", space))
    shards.append(("eq",))
    shards.append(("nokind",))
    shards.append(("alias",))
    for ci in range(len(NUMBERED)):
        shards.append(("lifetime", ci, ctx.seed))
    ctx.pmap(_shard, shards)
    ctx.pmap(_subclass_shard, ["label", "renumbering"], fresh=True)
    ctx.pmap(_short_first_shard, [None], fresh=True)
    ctx.result.exhaustive = not q
    ctx.result.extra["strides"] = {"gear_write": stride, "device_write": dstride, "instance_write": istride, "decode24": d24}
