"""C13 - control-device sequences move multi-byte settings and scan results intact.

The library's 24-bit sequences (dali/device/sequences.py: query_input_value, SetEventFilters,
QueryEventFilters, SetEventSchemes; dali/device/helpers.py: DeviceInstanceTypeMapper.autodiscover)
are run, through the fake bus, against the frame-level IEC 62386-103 control-device model
(harness/model_device.py).  The oracle reads the model's state, never the library's view of it.

Case kinds (all JSON):
  input        {"res", "value", "pass_res", "filler", "dev", "inst", "as_int", "next", "fault"}
  setfilter    {"enum", "bits", "value", "stale", "mask", "dev", "inst", "as_int", "fault"}
  queryfilter  {"enum", "bits", "unit", "via_module", "dev", "inst", "as_int", "fault"}
  scheme       {"scheme", "as_enum", "initial", "refuse", "dev", "inst", "as_int", "fault"}
  discover     {"devices": [{"short", "status", "inst": [[enabled, type], ...]}], "selector", "fault"}
"fault" = None or [k, "silence"|"garble"]: the answer to the k-th query of the sequence (modulo the
number of queries of the fault-free run) is suppressed / turned into a framing error whose data
bits differ from the true answer.
"""
import itertools

from hypothesis import strategies as st

from harness import hyp
from harness.bus import Bus, Fault, NonTermination
from harness.model_device import DeviceModel, InstanceModel
from harness.runner import Result, library_frame

ID = "C13"
LEVEL = "exploration"
RULE = ("input value: every (resolution, value) up to 12 bits (quick) / 16 bits (thorough) x resolution passed or "
        "queried x filler patterns, boundary and Hypothesis-drawn values up to 32 bits; filters: every flag combination "
        "of the push-button/occupancy/light enums and plain ints 0..255 x stale DTR contents, generated enums of 9..24 "
        "flags x boundary and drawn combinations x stale DTRs x partially implemented filters; schemes: all (initial, "
        "requested) pairs, refused and invalid ones; discovery: fixed and Hypothesis-drawn buses of 0..64 devices; every "
        "sequence also with silence / framing error at each query.  Enumerated cases are distinct by construction, drawn "
        "ones by fingerprint.  Non-trivial = resolution > 8, or filter wider than 8 bits, or a population with an "
        "unhealthy device / disabled instance / duplicate address, or any fault case")
ASSUMPTIONS = [
    "control devices follow harness/model_device.py: an instance stores its event filter at the native width of its type "
    "(8, 16 or 24 bits); the filter type handed to the library matches that width (plain ints: 8 bits)",
    "the unused low bits of the last input-value byte are arbitrary (IEC 62386-103 9.7.2 makes them a repetition of the "
    "value; the model also plays other fillers to show that they are discarded)",
    "a unit may refuse an event scheme or implement only some filter bits; the sequence's return value is then compared "
    "with what the unit holds, not with the request",
    "invalid event schemes (outside 0..4): raising ValueError/TypeError or sending it and reporting the unit's unchanged "
    "scheme are both accepted; only a changed scheme in the unit or a report that differs from the unit is a violation",
    "SetEventSchemes returns the unit's answer as a response object; under a fault an object holding no frame or a "
    "framing-error frame counts as 'None result'",
    "autodiscover(int N): the docstring ('from zero to that value') and the code (0..N-1) differ about address N itself; "
    "both are accepted.  (start, end) is inclusive (the default (0, 63) must reach address 63); start <= end only",
    "healthy = neither 'short address is MASK' nor 'reset state' in the status byte; every other status bit (input device "
    "error, quiescent mode, application controller active/error, power cycle seen) does not disqualify a device "
    "(dali/tests/test_device_sequences.py::test_device_autodiscover_dont_skip_bad states the same)",
    "two devices sharing a short address collide on the first query (framing error) and are expected to be skipped",
    "under a fault in autodiscover the missing entries must belong to the device whose answer was lost; whether the "
    "whole device or only one instance is skipped is not prescribed",
    "two or more simultaneous answers are always seen as a framing error (as the library documents)",
]

# signatures of confirmed defects that a deterministic case reports; Hypothesis searches exclude and count them
# The DTR2 defect found at the pinned commit is repaired in /repo (KNOWN_FINDINGS.txt "fixed:" line): nothing is
# excluded from the Hypothesis searches any more.
DETERMINISTIC_SIGS = ()

# flag positions of the library's filter enums, stated from IEC 62386-301 Table 3, -303 Table 3, -304 Table 2
LIB_ENUMS = {"pushbutton": list(range(8)), "occupancy": list(range(5)), "light": [0]}
LIB_TYPES = {"pushbutton": 1, "occupancy": 3, "light": 4}

_gen_cache = {}
_NO_RAW = object()


def _lib():
    from dali import address, exceptions
    from dali.device import general, helpers, light, occupancy, pushbutton, sequences
    return dict(address=address, exc=exceptions, general=general, helpers=helpers, sequences=sequences,
                pushbutton=pushbutton, occupancy=occupancy, light=light)


def width_of(nflags):
    return 8 if nflags <= 8 else 16 if nflags <= 16 else 24


def enum_of(L, case):
    """(filter class or int, module or None, native width, flag positions)"""
    name = case["enum"]
    if name == "int":
        return int, None, 8, list(range(8))
    if name in LIB_ENUMS:
        mod = L[name]
        return mod.InstanceEventFilter, mod, 8, LIB_ENUMS[name]
    bits = tuple(case["bits"])
    cls = _gen_cache.get(bits)
    if cls is None:
        # the program has other filter enums too and may have asked any of them for its width already:
        # the base class (no flags), the library's 8-bit ones, a narrower relative
        base = L["general"].InstanceEventFilter
        for other in [base] + [L[n].InstanceEventFilter for n in LIB_ENUMS]:
            try:
                other.dali_width()
            except Exception:  # noqa - not what this case judges
                pass
        cls = base("GenFilter%d" % len(bits), {"flag%d" % b: 1 << b for b in bits})
        _gen_cache[bits] = cls
    return cls, None, width_of(len(bits)), list(bits)


def dest_args(L, case):
    a, i = case.get("dev", 5), case.get("inst", 0)
    if case.get("as_int"):
        return a, i
    return L["address"].DeviceShort(a), L["address"].InstanceNumber(i)


# ----------------------------------------------------------------- driving ----
def clean_run(build):
    make_units, make_seq, judge, cap = build
    units = make_units()
    bus = Bus(units, max_commands=cap)
    try:
        bus.run(make_seq(units))
    except Exception as e:  # noqa - only the trace is wanted here
        if library_frame(e.__traceback__) is None and not isinstance(e, NonTermination):
            raise
    if len(bus.trace) != len(bus.commands):
        raise AssertionError("trace/command mismatch (a 16-bit device-type prefix on a 24-bit sequence?)")
    return bus


def drive(build, fault):
    make_units, make_seq, judge, cap = build
    faults, finfo = (), None
    if fault:
        b0 = clean_run(build)
        qsteps = [i for i, c in enumerate(b0.commands) if c.response is not None]
        if qsteps:
            step = qsteps[fault[0] % len(qsteps)]
            true = b0.trace[step][3]
            faults = [Fault(step, fault[1], (true[0] ^ 0xA5) if true else 0x55)]
            finfo = {"step": step, "frame": b0.trace[step][1], "true": true, "kind": fault[1]}
    units = make_units()
    bus = Bus(units, faults=faults, max_commands=cap)
    try:
        out = ("ret", bus.run(make_seq(units)))
    except NonTermination:
        out = ("nonterm", None)
    except Exception as e:  # noqa
        if library_frame(e.__traceback__) is None:
            raise
        out = ("exc", e)
    return judge(units, bus, out, finfo)


def query_steps(case):
    """Number of queries the fault-free run of this case puts on the bus."""
    c = dict(case)
    c["fault"] = None
    b = clean_run(BUILDERS[c["kind"]](c))
    return len([x for x in b.commands if x.response is not None])


def exc_violation(prefix, L, out, finfo, where):
    """Common verdict on a raised exception / non-termination; None if acceptable."""
    if out[0] == "nonterm":
        return [(prefix + "-nontermination", "%s: command cap reached" % where)]
    e = out[1]
    if isinstance(e, L["exc"].DALISequenceError):
        if finfo is not None:
            return []
        return [(prefix + "-spurious-DALISequenceError", "%s raised %r although every answer arrived intact" % (where, e))]
    return [("%s-raised:%s%s" % (prefix, type(e).__name__, ":under-fault" if finfo else ""),
             "%s raised %r (%s)" % (where, e, library_frame(e.__traceback__)))]


def fault_text(finfo):
    if finfo is None:
        return ""
    return " with %s of the answer to frame 0x%06X (query step %d, true answer %s)" % (
        "suppression" if finfo["kind"] == "silence" else "a framing error in place", finfo["frame"], finfo["step"],
        finfo["true"] or "none")


# ------------------------------------------------------------------- input ----
def build_input(case):
    L = _lib()
    res, value = case["res"], case["value"]
    a, i = case.get("dev", 5), case.get("inst", 0)
    filler = case.get("filler", "repeat")
    nxt = case.get("next")

    def make_units():
        insts = []
        for k in range(i):
            insts.append(InstanceModel(type=2, resolution=((res + k) % 32) + 1, value=0))
        insts.append(InstanceModel(type=4, resolution=res, value=value, filler=filler,
                                   next_values=[] if nxt is None else [nxt]))
        if i < 31:
            insts.append(InstanceModel(type=4, resolution=8, value=0x5A))
        other = DeviceModel(short=(a + 1) % 64, instances=[InstanceModel(resolution=24, value=0x123456) for _ in range(i + 1)])
        return [DeviceModel(short=a, instances=insts), other]

    def make_seq(units):
        d, n = dest_args(L, case)
        if case.get("pass_res"):
            return L["sequences"].query_input_value(device=d, instance=n, resolution=res)
        return L["sequences"].query_input_value(d, n)

    def judge(units, bus, out, finfo):
        where = "query_input_value(%s) on a %d-bit instance holding 0x%X (filler %r)%s" % (
            "resolution=%d" % res if case.get("pass_res") else "resolution queried", res, value, filler, fault_text(finfo))
        if out[0] != "ret":
            return exc_violation("C13:input", L, out, finfo, where)
        r = out[1]
        if r is None and finfo is not None:
            return []
        if isinstance(r, bool) or not isinstance(r, int) or r != value:
            if finfo is not None:
                return [("C13:input-wrong-value-under-fault", "%s returned %r" % (where, r))]
            return [("C13:input-value-wrong:" + ("multi-byte" if res > 8 else "single-byte"), "%s returned %r" % (where, r))]
        return []
    return make_units, make_seq, judge, 64


# ------------------------------------------------------------ filter (set) ----
def loads_before_set(trace):
    """Which DTRs were loaded before the first SET EVENT FILTER frame (model-side decode)."""
    loaded = set()
    for bits, v, twice, ans in trace:
        if bits != 24:
            continue
        ab, ib, op = v >> 16, (v >> 8) & 0xFF, v & 0xFF
        if ab == 0xC1 and ib in (0x30, 0x31, 0x32):
            loaded.add(ib - 0x30)
        elif ab == 0xC7:
            loaded |= {0, 1}
        elif ab == 0xC9:
            loaded |= {1, 2}
        elif ab & 1 and ab & 0xE0 != 0xC0 and ib != 0xFE and op == 0x68:
            break
    return loaded


def build_setfilter(case):
    L = _lib()
    cls, mod, width, positions = enum_of(L, case)
    value = case["value"]
    a, i = case.get("dev", 5), case.get("inst", 0)
    stale = tuple(case.get("stale", (0, 0, 0)))
    mask = case.get("mask")
    wmask = (1 << width) - 1
    itype = LIB_TYPES.get(case["enum"], 9)

    def make_units():
        insts = [InstanceModel(type=2, filter_width=24, filter=0x010203) for _ in range(i)]
        insts.append(InstanceModel(type=itype, filter_width=width, filter=~value & wmask, filter_mask=mask))
        if i < 31:
            insts.append(InstanceModel(type=itype, filter_width=width, filter=0x5A))
        other = DeviceModel(short=(a + 1) % 64, dtr=stale,
                            instances=[InstanceModel(filter_width=24, filter=0x0A0B0C) for _ in range(i + 1)])
        return [DeviceModel(short=a, instances=insts, dtr=stale), other]

    def make_seq(units):
        d, n = dest_args(L, case)
        return L["sequences"].SetEventFilters(device=d, instance=n, filter_value=value if cls is int else cls(value))

    def judge(units, bus, out, finfo):
        unit = units[0].instances[i]
        exp = value & wmask if mask is None else value & wmask & mask
        where = "SetEventFilters(%s 0x%06X) on a %d-bit-filter instance%s, DTR0/1/2 holding %s beforehand%s" % (
            "int" if cls is int else "%s[%d flags]" % (case["enum"], len(positions)), value, width,
            "" if mask is None else " implementing bits 0x%06X" % mask, "%02X/%02X/%02X" % stale, fault_text(finfo))
        if out[0] != "ret":
            return exc_violation("C13:set-filter", L, out, finfo, where)
        r = out[1]
        vs = []
        if unit.filter != exp:
            diff = unit.filter ^ exp
            loaded = loads_before_set(bus.trace)
            if unit.set_filter_count == 0:
                sig = "C13:set-filter-not-executed"
            elif diff & 0xFF0000 and not diff & 0x00FFFF and 2 not in loaded:
                sig = "C13:event-filter-dtr2-not-loaded"
            elif diff & 0x00FF00 and not diff & 0xFF00FF and 1 not in loaded:
                sig = "C13:event-filter-dtr1-not-loaded"
            else:
                sig = "C13:set-filter-wrong-state"
            vs.append((sig, "%s left the instance with filter 0x%06X, expected 0x%06X (DTRs loaded before SET EVENT FILTER: %s)"
                       % (where, unit.filter, exp, sorted(loaded))))
        if r is None:
            if finfo is None:
                vs.append(("C13:set-filter-returned-none", "%s returned None although every answer arrived" % where))
        elif isinstance(r, bool) or not isinstance(r, int) or int(r) != unit.filter:
            vs.append(("C13:set-filter-return-differs-from-unit" + (":under-fault" if finfo else ""),
                       "%s returned %r (0x%X) but the instance reports 0x%06X"
                       % (where, r, int(r) if isinstance(r, int) else -1, unit.filter)))
        return vs
    return make_units, make_seq, judge, 64


# ---------------------------------------------------------- filter (query) ----
def build_queryfilter(case):
    L = _lib()
    cls, mod, width, positions = enum_of(L, case)
    f = case["unit"] & ((1 << width) - 1)
    a, i = case.get("dev", 5), case.get("inst", 0)
    itype = LIB_TYPES.get(case["enum"], 9)

    def make_units():
        insts = [InstanceModel(type=2, filter_width=24, filter=0x010203) for _ in range(i)]
        insts.append(InstanceModel(type=itype, filter_width=width, filter=f))
        if i < 31:
            insts.append(InstanceModel(type=itype, filter_width=width, filter=~f & 0xFF))
        other = DeviceModel(short=(a + 1) % 64, instances=[InstanceModel(filter_width=24, filter=0x0A0B0C) for _ in range(i + 1)])
        return [DeviceModel(short=a, instances=insts, dtr=(0x11, 0x22, 0x33)), other]

    def make_seq(units):
        d, n = dest_args(L, case)
        ft = mod if (case.get("via_module") and mod is not None) else cls
        return L["sequences"].QueryEventFilters(device=d, instance=n, filter_type=ft)

    def judge(units, bus, out, finfo):
        unit = units[0].instances[i]
        where = "QueryEventFilters(%s[%d flags]%s) on a %d-bit-filter instance holding 0x%06X%s" % (
            case["enum"], len(positions), " via module" if case.get("via_module") else "", width, f, fault_text(finfo))
        if out[0] != "ret":
            return exc_violation("C13:query-filter", L, out, finfo, where)
        r = out[1]
        if unit.filter != f:
            return [("C13:query-filter-changed-unit", "%s changed the filter to 0x%06X" % (where, unit.filter))]
        if r is None:
            return [] if finfo is not None else [("C13:query-filter-returned-none", "%s returned None" % where)]
        if isinstance(r, bool) or not isinstance(r, int) or int(r) != f:
            return [("C13:query-filter-wrong" + (":under-fault" if finfo else ""), "%s returned %r" % (where, r))]
        return []
    return make_units, make_seq, judge, 64


# ------------------------------------------------------------------ scheme ----
def build_scheme(case):
    L = _lib()
    s, initial = case["scheme"], case["initial"]
    refuse = list(case.get("refuse", ()))
    a, i = case.get("dev", 5), case.get("inst", 0)
    valid = 0 <= s <= 4

    def make_units():
        insts = [InstanceModel(type=1, scheme=(initial + 1) % 5) for _ in range(i)]
        insts.append(InstanceModel(type=1, scheme=initial, refuse_schemes=refuse))
        if i < 31:
            insts.append(InstanceModel(type=1, scheme=(initial + 2) % 5))
        other = DeviceModel(short=(a + 1) % 64, instances=[InstanceModel(scheme=(initial + 3) % 5) for _ in range(i + 1)])
        return [DeviceModel(short=a, instances=insts, dtr=(case.get("stale0", 0), 0, 0)), other]

    def make_seq(units):
        d, n = dest_args(L, case)
        arg = L["general"].EventScheme(s) if (case.get("as_enum") and valid) else s
        return L["sequences"].SetEventSchemes(device=d, instance=n, scheme=arg)

    def judge(units, bus, out, finfo):
        unit = units[0].instances[i]
        where = "SetEventSchemes(%r%s) on an instance in scheme %d%s%s" % (
            s, " as enum" if case.get("as_enum") and valid else "", initial,
            " that refuses %r" % refuse if refuse else "", fault_text(finfo))
        if out[0] == "exc" and isinstance(out[1], (ValueError, TypeError)) and not valid:
            if unit.scheme != initial:
                return [("C13:scheme-invalid-stored", "%s was rejected with %r but the unit now holds %d" % (where, out[1], unit.scheme))]
            return []
        if out[0] != "ret":
            return exc_violation("C13:scheme", L, out, finfo, where)
        r = out[1]
        exp = s if (valid and s not in refuse) else initial
        vs = []
        if unit.scheme != exp:
            sig = "C13:scheme-invalid-stored" if not valid else \
                "C13:scheme-not-executed" if unit.set_scheme_count == 0 else "C13:scheme-wrong-state"
            vs.append((sig, "%s left the instance in scheme %d, expected %d" % (where, unit.scheme, exp)))
        raw = None if r is None else getattr(r, "raw_value", _NO_RAW)
        if raw is _NO_RAW:
            # a bare value instead of a response object: compare it directly
            if r != unit.scheme:
                vs.append(("C13:scheme-return-differs-from-unit", "%s returned %r, the unit reports %d" % (where, r, unit.scheme)))
        elif raw is None or raw.error:
            if finfo is None:
                vs.append(("C13:scheme-returned-none", "%s returned %r (frame %r) although every answer arrived" % (where, r, raw)))
        else:
            got = raw.as_integer
            try:
                val = r.value
            except Exception as e:  # noqa
                val = e
            if got != unit.scheme or val != unit.scheme:
                vs.append(("C13:scheme-return-differs-from-unit" + (":under-fault" if finfo else ""),
                           "%s returned a response of %r / value %r, the unit reports %d" % (where, got, val, unit.scheme)))
        return vs
    return make_units, make_seq, judge, 64


# ---------------------------------------------------------------- discover ----
UNHEALTHY = 0x44      # short address is MASK | reset state


def selected_addresses(sel):
    """(must-scan addresses, may-scan addresses) as sets."""
    k = sel[0]
    if k == "default":
        return set(range(64)), set(range(64))
    if k == "int":
        lo = set(range(0, sel[1]))
        return lo, (lo | {sel[1]}) if sel[1] <= 63 else lo
    if k == "pair":
        s = set(range(sel[1], sel[2] + 1))
        return s, s
    s = set(sel[1])
    return s, s


def selector_arg(sel):
    k = sel[0]
    if k == "int":
        return sel[1]
    if k == "pair":
        return (sel[1], sel[2])
    if k == "list":
        return list(sel[1])
    if k == "tuple":
        if len(sel[1]) == 2:
            raise ValueError("a 2-tuple is a (start, end) pair")
        return tuple(sel[1])
    if k == "gen":
        return (x for x in sel[1])
    raise ValueError(sel)


def expected_mapping(devices, addrs):
    by = {}
    for d in devices:
        if d["short"] is not None:
            by.setdefault(d["short"], []).append(d)
    exp = {}
    for a in addrs:
        ds = by.get(a, [])
        if len(ds) != 1 or ds[0]["status"] & UNHEALTHY:
            continue
        for n, (en, t) in enumerate(ds[0]["inst"]):
            if en:
                exp[(a, n)] = t
    return exp


def build_discover(case):
    L = _lib()
    devices = case["devices"]
    sel = case["selector"]
    holder = {}
    costs = [2 + 2 * len(d["inst"]) for d in devices]
    ncmd = 300 + sum(costs)
    if sel[0] in ("list", "tuple", "gen"):
        ncmd += len(sel[1]) * (1 + max(costs + [0]))

    def make_units():
        return [DeviceModel(short=d["short"], force_status=d["status"], name="d%d" % k,
                            instances=[InstanceModel(type=t, enabled=en) for (en, t) in d["inst"]])
                for k, d in enumerate(devices)]

    def make_seq(units):
        m = L["helpers"].DeviceInstanceTypeMapper()
        holder["m"] = m
        # A bus-wide mapper is scanned again and again: instances it already knows - with a type that is no longer
        # true, e.g. a unit was replaced - must end up with the type the unit reports NOW.  (Only fault-free cases and
        # only addresses that are certainly scanned, so that nothing stale may legitimately survive.)
        if case.get("preload", len(devices) % 2 == 1) and not case.get("fault"):
            must_addrs, _ = selected_addresses(sel)
            for (a, n), t in sorted(expected_mapping(devices, must_addrs).items()):
                m.add_type(short_address=a, instance_number=n, instance_type=(t + 1 + n % 3) % 32)
        if sel[0] == "default":
            return m.autodiscover()
        return m.autodiscover(selector_arg(sel))

    def judge(units, bus, out, finfo):
        where = "autodiscover(%s) on %d devices%s" % (
            "" if sel[0] == "default" else "%s %r" % (sel[0], sel[1:] if sel[0] in ("int", "pair") else sel[1]),
            len(devices), fault_text(finfo))
        if out[0] != "ret":
            return exc_violation("C13:discover", L, out, finfo, where)
        suffix = ":under-fault" if finfo else ""
        mapping = dict(holder["m"].mapping)
        must, may = selected_addresses(sel)
        exp_lo, exp_hi = expected_mapping(devices, must), expected_mapping(devices, may)
        vs = []
        # 1. nothing recorded that the bus does not hold
        by = {}
        for d in devices:
            if d["short"] is not None:
                by.setdefault(d["short"], []).append(d)
        for key in sorted(mapping, key=repr):
            if key in exp_hi and mapping[key] == exp_hi[key]:
                continue
            if not (isinstance(key, tuple) and len(key) == 2):
                vs.append(("C13:discover-bad-key" + suffix, "%s recorded key %r" % (where, key)))
                break
            a, n = key
            ds = by.get(a, [])
            if a not in may:
                sig = "C13:discover-address-outside-selection"
            elif len(ds) != 1:
                sig = "C13:discover-recorded-absent-or-colliding-device"
            elif ds[0]["status"] & UNHEALTHY:
                sig = "C13:discover-recorded-unhealthy-device"
            elif not (isinstance(n, int) and 0 <= n < len(ds[0]["inst"])):
                sig = "C13:discover-recorded-nonexistent-instance"
            elif not ds[0]["inst"][n][0]:
                sig = "C13:discover-recorded-disabled-instance"
            else:
                sig = "C13:discover-wrong-type"
            vs.append((sig + suffix, "%s recorded %r -> %r; the bus holds %s" % (where, key, mapping[key], exp_hi.get(key, "no such entry"))))
            break
        # 2. nothing missing (fault-free), or only entries of the device whose answer was lost
        missing = sorted(k for k in exp_lo if k not in mapping)
        if sel[0] == "int" and any(k[0] == sel[1] for k in mapping) and not vs:
            missing = sorted(k for k in exp_hi if k not in mapping)      # address N was scanned: then completely
        if missing:
            if finfo is None:
                vs.append(("C13:discover-missed-instance", "%s did not record %r (type %r); recorded %d of %d"
                           % (where, missing[0], exp_hi[missing[0]], len(mapping), len(exp_lo))))
            else:
                fa = (finfo["frame"] >> 17) & 0x3F
                stray = [k for k in missing if k[0] != fa]
                if stray:
                    vs.append(("C13:discover-fault-skipped-unrelated-device", "%s did not record %r, which belongs to a device whose "
                               "answers all arrived" % (where, stray[0])))
        # 3. the scan is bracketed in quiescent mode
        t = bus.trace
        if len(t) < 2 or t[0][:3] != (24, 0xFFFE1D, True) or t[-1][:3] != (24, 0xFFFE1E, True):
            vs.append(("C13:discover-quiescent-bracket" + suffix, "%s: first frame %s, last frame %s (expected START/STOP QUIESCENT "
                       "MODE broadcast 0xFFFE1D/0xFFFE1E, each sent twice)" % (
                           where, t and "0x%06X twice=%s" % (t[0][1], t[0][2]), t and "0x%06X twice=%s" % (t[-1][1], t[-1][2]))))
        else:
            loose = [u.name for u in units if u.quiescent or u.queries_while_not_quiescent]
            if loose:
                vs.append(("C13:discover-quiescent-bracket" + suffix, "%s: units %r were queried outside quiescent mode or left in it"
                           % (where, loose[:5])))
        return vs
    return make_units, make_seq, judge, ncmd


BUILDERS = {"input": build_input, "setfilter": build_setfilter, "queryfilter": build_queryfilter, "scheme": build_scheme,
            "discover": build_discover}


def run_case(case):
    return drive(BUILDERS[case["kind"]](case), case.get("fault"))


# ------------------------------------------------------------ classification ----
def population_features(case):
    f = []
    devs = case["devices"]
    shorts = [d["short"] for d in devs if d["short"] is not None]
    if any(d["status"] & UNHEALTHY for d in devs):
        f.append("unhealthy-device")
    if any(not en for d in devs for (en, t) in d["inst"]):
        f.append("disabled-instance")
    if len(set(shorts)) < len(shorts):
        f.append("duplicate-address")
    if any(d["short"] is None for d in devs):
        f.append("unaddressed-device")
    if any(len(d["inst"]) == 0 for d in devs):
        f.append("device-without-instances")
    if any(len(d["inst"]) == 32 for d in devs):
        f.append("32-instances")
    must, may = selected_addresses(case["selector"])
    if any(s not in may for s in shorts):
        f.append("device-outside-selection")
    return f


def nontrivial(case):
    if case.get("fault"):
        return True
    k = case["kind"]
    if k == "input":
        return case["res"] > 8
    if k in ("setfilter", "queryfilter"):
        return case["enum"] == "gen" and len(case["bits"]) > 8
    if k == "discover":
        return any(x in ("unhealthy-device", "disabled-instance", "duplicate-address") for x in population_features(case))
    return False


def classify(case):
    k = case["kind"]
    labs = []
    if k == "input":
        labs.append("input:%d-byte" % ((case["res"] + 7) // 8))
    elif k in ("setfilter", "queryfilter"):
        w = width_of(len(case["bits"])) if case["enum"] == "gen" else 8
        labs.append("%s:%s:%d-bit" % (k, case["enum"], w))
    elif k == "scheme":
        labs.append("scheme:" + ("valid" if 0 <= case["scheme"] <= 4 else "invalid"))
    else:
        n = len(case["devices"])
        labs.append("discover:%s-devices" % ("0" if n == 0 else "1-4" if n <= 4 else "5-16" if n <= 16 else "17-64"))
        labs.append("discover:selector-" + case["selector"][0])
        labs += ["discover:" + x for x in population_features(case)]
    if case.get("fault"):
        labs.append("%s:fault-%s" % (k, case["fault"][1]))
    return labs


# ------------------------------------------------------------------ strategies ----
def fault_st(p=4):
    return st.one_of(*([st.none()] * p + [st.tuples(st.integers(0, 400), st.sampled_from(["silence", "garble"])).map(list)]))


@st.composite
def input_st(draw):
    res = draw(st.one_of(st.integers(1, 32), st.integers(9, 32), st.integers(13, 32)))
    top = (1 << res) - 1
    value = draw(st.one_of(st.integers(0, top), st.sampled_from([0, 1, top, top >> 1, (top >> 1) + 1, 0x55555555 & top,
                                                                 0xAAAAAAAA & top, 0x01020304 & top, 0x80808080 & top])))
    filler = draw(st.one_of(st.just("repeat"), st.integers(0, 0xFF), st.sampled_from([0, 0xFF, 0x55, 0xAA])))
    return {"kind": "input", "res": res, "value": value, "pass_res": draw(st.booleans()), "filler": filler,
            "dev": draw(st.integers(0, 63)), "inst": draw(st.sampled_from([0, 0, 1, 5, 30])), "as_int": draw(st.booleans()),
            "next": draw(st.one_of(st.none(), st.integers(0, top))), "fault": draw(fault_st())}


@st.composite
def gen_bits_st(draw):
    n = draw(st.one_of(st.integers(9, 16), st.integers(17, 24), st.integers(1, 8)))
    w = width_of(n)
    if draw(st.booleans()):
        return list(range(n))
    return sorted(draw(st.permutations(list(range(w))))[:n])


@st.composite
def filter_st(draw):
    which = draw(st.sampled_from(["gen", "gen", "gen", "pushbutton", "occupancy", "light", "int"]))
    case = {"enum": which, "dev": draw(st.integers(0, 63)), "inst": draw(st.sampled_from([0, 0, 2, 31])),
            "as_int": draw(st.booleans()), "fault": draw(fault_st())}
    if which == "gen":
        case["bits"] = draw(gen_bits_st())
        positions = case["bits"]
        width = width_of(len(positions))
    else:
        positions = list(range(8)) if which == "int" else LIB_ENUMS[which]
        width = 8
    sub = draw(st.lists(st.sampled_from(positions), unique=True, max_size=len(positions)))
    value = sum(1 << b for b in sub)
    if which == "int" or draw(st.booleans()):
        # setting (a plain int has no filter type to query with)
        case["kind"] = "setfilter"
        case["value"] = value
        hi, md, lo = (value >> 16) & 0xFF, (value >> 8) & 0xFF, value & 0xFF
        case["stale"] = [draw(st.sampled_from([0, 0xFF, lo, lo ^ 0xFF])), draw(st.sampled_from([0, 0xFF, md, md ^ 0xFF, 0x5A])),
                         draw(st.sampled_from([0, 0xFF, hi, hi, hi ^ 0xFF, 0xC3]))]
        case["mask"] = draw(st.one_of(st.none(), st.none(), st.integers(0, (1 << width) - 1)))
    else:
        case["kind"] = "queryfilter"
        case["unit"] = draw(st.one_of(st.integers(0, (1 << width) - 1), st.just(value)))
        case["via_module"] = draw(st.booleans())
    return case


@st.composite
def scheme_st(draw):
    s = draw(st.one_of(st.integers(0, 4), st.integers(0, 4), st.integers(5, 255), st.sampled_from([-1, 256, 257, 1000, -128])))
    return {"kind": "scheme", "scheme": s, "as_enum": draw(st.booleans()), "initial": draw(st.integers(0, 4)),
            "refuse": draw(st.lists(st.integers(0, 4), unique=True, max_size=2)), "stale0": draw(st.sampled_from([0, 3, 0xFF])),
            "dev": draw(st.integers(0, 63)), "inst": draw(st.sampled_from([0, 0, 3, 31])), "as_int": draw(st.booleans()),
            "fault": draw(fault_st())}


STATUS_HEALTHY = [0x00, 0x00, 0x01, 0x02, 0x08, 0x10, 0x20, 0x3B, 0x29]
STATUS_BAD = [0x04, 0x40, 0x44, 0x45, 0x7F, 0x60]


@st.composite
def population_st(draw):
    n = draw(st.one_of(st.integers(0, 3), st.integers(0, 3), st.integers(0, 8), st.integers(0, 20), st.integers(40, 64)))
    big = n > 20
    addrs = draw(st.permutations(list(range(64))))[:n]
    devs = []
    for k in range(n):
        short = addrs[k]
        tweak = draw(st.integers(0, 19))
        if tweak == 0:
            short = None
        elif tweak == 1 and k:
            short = devs[draw(st.integers(0, k - 1))]["short"]
        status = draw(st.sampled_from(STATUS_HEALTHY)) if draw(st.integers(0, 3)) else draw(st.sampled_from(STATUS_BAD))
        ni = draw(st.one_of(st.integers(0, 2), st.integers(0, 5)) if big else
                  st.one_of(st.integers(0, 4), st.integers(0, 4), st.integers(0, 32), st.just(32)))
        inst = [[draw(st.integers(0, 4)) != 0, draw(st.one_of(st.integers(0, 31), st.sampled_from([0, 1, 3, 4, 31])))]
                for _ in range(ni)]
        devs.append({"short": short, "status": status, "inst": inst})
    k = draw(st.sampled_from(["default", "int", "pair", "list", "gen", "tuple"]))
    if k == "default":
        sel = ["default"]
    elif k == "int":
        sel = ["int", draw(st.one_of(st.integers(0, 64), st.sampled_from([0, 1, 63, 64])))]
    elif k == "pair":
        s = draw(st.integers(0, 63))
        sel = ["pair", s, draw(st.integers(s, 63))]
    else:
        lst = draw(st.lists(st.integers(0, 63), max_size=12 if not big else 64))
        if n and draw(st.booleans()):
            lst = lst + [d["short"] for d in devs[:8] if d["short"] is not None]
        if k == "tuple" and len(lst) == 2:
            lst = lst + [lst[0]]
        sel = [k, lst]
    return {"kind": "discover", "devices": devs, "selector": sel, "fault": draw(fault_st(2))}


def discover_reducer(case):
    """Smaller variants of a discovery case, most aggressive first (see harness.hyp.greedy_reduce)."""
    import copy
    n = len(case["devices"])
    if n > 1:
        for i in range(n):
            c = copy.deepcopy(case)
            c["devices"] = [c["devices"][i]]
            yield c
        for i in range(n - 1, -1, -1):
            c = copy.deepcopy(case)
            del c["devices"][i]
            yield c
    for i in range(n):
        k = len(case["devices"][i]["inst"])
        for keep in sorted({k // 2, k - 1}):
            if 0 <= keep < k:
                c = copy.deepcopy(case)
                c["devices"][i]["inst"] = c["devices"][i]["inst"][:keep]
                yield c
    if case["selector"][0] in ("list", "gen", "tuple") and case["selector"][1]:
        c = copy.deepcopy(case)
        c["selector"][1] = c["selector"][1][:-1]
        if not (c["selector"][0] == "tuple" and len(c["selector"][1]) == 2):
            yield c
    for i in range(n):
        if case["devices"][i]["status"] not in (0, 0x04, 0x40):
            c = copy.deepcopy(case)
            c["devices"][i]["status"] &= 0x44
            yield c


# ---------------------------------------------------------------------- shards ----
FILLERS = ["repeat", 0, 0xFF, 0xA5]
STALES = [[0, 0, 0], [0xFF, 0xFF, 0xFF], [0xA5, 0x5A, 0x3C]]
GEN_BITS = [list(range(9)), list(range(12)), list(range(16)), [0, 1, 2, 3, 5, 8, 9, 13, 15],
            list(range(17)), list(range(20)), list(range(24)), [0, 1, 2, 3, 4, 5, 6, 7, 8, 9, 10, 11, 12, 13, 14, 18, 23]]

FIXED_POPULATIONS = [
    [],
    [{"short": 0, "status": 0, "inst": [[True, 1]]}],
    [{"short": 63, "status": 0x01, "inst": [[True, 1], [False, 3], [True, 4], [True, 31]]},
     {"short": 7, "status": 0x04, "inst": [[True, 1], [True, 2]]},
     {"short": 8, "status": 0x40, "inst": [[True, 5]]},
     {"short": 9, "status": 0x3B, "inst": []},
     {"short": 10, "status": 0x00, "inst": [[False, 6], [False, 7]]},
     {"short": None, "status": 0x00, "inst": [[True, 8]]},
     {"short": 12, "status": 0x00, "inst": [[True, 9]]},
     {"short": 12, "status": 0x00, "inst": [[True, 10]]}],
    [{"short": 3, "status": 0x20, "inst": [[k % 3 != 0, k] for k in range(32)]}],
    [{"short": a, "status": [0, 0x01, 0x04, 0x10, 0x40, 0x08][a % 6], "inst": [[a % 5 != 0, a % 32], [a % 7 != 0, (a * 3) % 32]]}
     for a in range(64)],
]
FIXED_SELECTORS = [["default"], ["int", 0], ["int", 13], ["int", 64], ["pair", 0, 63], ["pair", 7, 12], ["pair", 63, 63],
                   ["list", [63, 12, 3, 7, 8, 9, 10]], ["gen", [0, 3, 63]], ["tuple", [12, 10, 63]], ["list", []]]


def boundary_values(res):
    top = (1 << res) - 1
    vals = {0, 1, top, top >> 1, (top >> 1) + 1, 0x55555555 & top, 0xAAAAAAAA & top, 0x01020304 & top, 0xFEFDFCFB & top,
            0x80402010 & top}
    for b in range(res):
        vals.add(1 << b)
        vals.add(top ^ (1 << b))
    return sorted(vals)


def _shard(arg):
    kind = arg[0]
    res = Result()

    def run(case, label=None):
        res.count()
        if nontrivial(case):
            res.nontrivial()
        for lab in ([label] if label else classify(case)):
            res.label(lab)
        for sig, msg in run_case(case):
            res.violation(sig, case, msg)

    def with_faults(case):
        """The case itself plus silence / framing error at each of its queries."""
        run(case)
        for k in range(query_steps(case)):
            for fk in ("silence", "garble"):
                c = dict(case)
                c["fault"] = [k, fk]
                run(c)

    if kind == "input-enum":
        _, r, lo, hi, fillers = arg
        for v in range(lo, hi):
            for pr in (True, False):
                for fl in fillers:
                    run({"kind": "input", "res": r, "value": v, "pass_res": pr, "filler": fl, "dev": (v + r) % 64,
                         "inst": v % 3, "as_int": bool(v & 1), "next": None, "fault": None}, label="input:%d-byte" % ((r + 7) // 8))
        res.sample({"kind": "input", "res": r, "value": lo, "pass_res": True, "filler": "repeat"}, cls="input value (enumerated)")
    elif kind == "input-boundary":
        _, rs = arg
        for r in rs:
            for v in boundary_values(r):
                for pr in (True, False):
                    for fl in FILLERS:
                        run({"kind": "input", "res": r, "value": v, "pass_res": pr, "filler": fl, "dev": r, "inst": r % 4,
                             "as_int": bool(r & 1), "next": (v * 7 + 3) & ((1 << r) - 1), "fault": None})
        res.sample({"kind": "input", "res": 27, "value": 0x5555555 & ((1 << 27) - 1), "pass_res": False, "filler": 0xA5},
                   cls="input value (boundary)")
    elif kind == "input-faults":
        for r in (1, 7, 8, 9, 16, 17, 24, 25, 31, 32):
            for pr in (True, False):
                c = {"kind": "input", "res": r, "value": 0x9C3A6E51 & ((1 << r) - 1), "pass_res": pr, "filler": "repeat", "dev": 9,
                     "inst": 1, "as_int": False, "next": None, "fault": None}
                with_faults(c)
        res.sample({"kind": "input", "res": 17, "value": 0x9C3A6E51 & 0x1FFFF, "pass_res": False, "fault": [2, "garble"]},
                   cls="input value under fault")
    elif kind == "setfilter-lib":
        _, name = arg
        positions = list(range(8)) if name == "int" else LIB_ENUMS[name]
        for sub in range(1 << len(positions)):
            value = sum(1 << positions[k] for k in range(len(positions)) if (sub >> k) & 1)
            for si, stale in enumerate(STALES):
                for mask in (None, 0xB6):
                    run({"kind": "setfilter", "enum": name, "value": value, "stale": stale, "mask": mask, "dev": (value + si) % 64,
                         "inst": value % 5, "as_int": bool((value + si) & 1), "fault": None})
        res.sample({"kind": "setfilter", "enum": name, "value": 0x81 if name in ("int", "pushbutton") else 1,
                    "stale": STALES[2], "mask": None}, cls="set filter (8-bit)")
    elif kind == "setfilter-gen":
        _, bits, with_mask = arg
        w = width_of(len(bits))
        allv = sum(1 << b for b in bits)
        vals = {0, allv, allv & 0xFF, allv & 0xFF00, allv & 0xFF0000, allv & 0x555555, allv & 0xAAAAAA, allv & 0x0F0FF0}
        for b in bits:
            vals.add(1 << b)
            vals.add(allv ^ (1 << b))
        for value in sorted(vals):
            lo, md, hi = value & 0xFF, (value >> 8) & 0xFF, (value >> 16) & 0xFF
            for stale in STALES + [[lo ^ 0xFF, md ^ 0xFF, hi], [lo, md, hi ^ 0x01]]:
                for mask in ((None, 0x00F0F3 | (1 << (w - 1))) if with_mask else (None,)):
                    run({"kind": "setfilter", "enum": "gen", "bits": bits, "value": value, "stale": stale, "mask": mask,
                         "dev": value % 64, "inst": len(bits), "as_int": bool(value & 2), "fault": None})
        res.sample({"kind": "setfilter", "enum": "gen", "bits": bits, "value": allv & 0xAAAAAA, "stale": STALES[2], "mask": None},
                   cls="set filter (%d-bit generated enum)" % w)
    elif kind == "filter-faults":
        for name, bits, value in (("pushbutton", None, 0x96), ("int", None, 0x4D), ("gen", list(range(12)), 0xA5C),
                                  ("gen", list(range(24)), 0xC35A96), ("gen", list(range(17)), 0x10001)):
            hi = (value >> 16) & 0xFF
            c = {"kind": "setfilter", "enum": name, "value": value, "stale": [0x11, 0x22, hi], "mask": None, "dev": 20, "inst": 2,
                 "as_int": False, "fault": None}
            q = {"kind": "queryfilter", "enum": name, "unit": value ^ 0x030303, "via_module": name == "pushbutton", "dev": 20,
                 "inst": 2, "as_int": True, "fault": None}
            if bits is not None:
                c["bits"] = bits
                q["bits"] = bits
            with_faults(c)
            if name != "int":
                with_faults(q)
        res.sample({"kind": "setfilter", "enum": "gen", "bits": list(range(24)), "value": 0xC35A96, "stale": [0x11, 0x22, 0xC3],
                    "fault": [1, "garble"]}, cls="set filter under fault")
    elif kind == "queryfilter-lib":
        _, name = arg
        for f in range(256):
            for via in (True, False):
                run({"kind": "queryfilter", "enum": name, "unit": f, "via_module": via, "dev": f % 64, "inst": f % 7,
                     "as_int": bool(f & 1), "fault": None})
        res.sample({"kind": "queryfilter", "enum": name, "unit": 0xE7, "via_module": True}, cls="query filter (8-bit)")
    elif kind == "queryfilter-gen":
        _, bits = arg
        w = width_of(len(bits))
        top = (1 << w) - 1
        vals = {0, top, 0xFF, 0xFF00 & top, 0xFF0000 & top, 0x123456 & top, 0x654321 & top, 0x800001 & top, 0x008100 & top}
        for b in range(w):
            vals.add(1 << b)
            vals.add(top ^ (1 << b))
        for f in sorted(vals):
            run({"kind": "queryfilter", "enum": "gen", "bits": bits, "unit": f, "via_module": False, "dev": f % 64, "inst": 4,
                 "as_int": bool(f & 1), "fault": None})
        res.sample({"kind": "queryfilter", "enum": "gen", "bits": bits, "unit": 0x123456 & top}, cls="query filter (%d-bit)" % w)
    elif kind == "scheme":
        for initial in range(5):
            for s in range(5):
                for as_enum in (True, False):
                    for refuse in ([], [s], [(s + 1) % 5]):
                        run({"kind": "scheme", "scheme": s, "as_enum": as_enum, "initial": initial, "refuse": refuse, "stale0": 0xFF,
                             "dev": 11 * s + initial, "inst": s + initial, "as_int": not as_enum, "fault": None})
            for s in (5, 6, 7, 8, 100, 254, 255, 256, 1000, -1, -251):
                run({"kind": "scheme", "scheme": s, "as_enum": False, "initial": initial, "refuse": [], "stale0": (initial + 1) % 5,
                     "dev": 4, "inst": 0, "as_int": True, "fault": None})
        for s in range(5):
            with_faults({"kind": "scheme", "scheme": s, "as_enum": True, "initial": (s + 2) % 5, "refuse": [], "stale0": 0,
                         "dev": 30, "inst": 3, "as_int": False, "fault": None})
        res.sample({"kind": "scheme", "scheme": 3, "as_enum": True, "initial": 0, "refuse": [3]}, cls="event scheme")
    elif kind == "discover-fixed":
        _, pi = arg
        pop = FIXED_POPULATIONS[pi]
        for sel in FIXED_SELECTORS:
            run({"kind": "discover", "devices": pop, "selector": sel, "fault": None})
        if pi == 2:
            with_faults({"kind": "discover", "devices": pop, "selector": ["default"], "fault": None})
            res.sample({"kind": "discover", "devices": pop, "selector": ["default"], "fault": [5, "garble"]}, cls="discovery under fault")
        if pi == 3:
            with_faults({"kind": "discover", "devices": pop, "selector": ["pair", 3, 3], "fault": None})
    elif kind == "hyp":
        _, seed, n = arg

        def guarded(case):
            out = []
            for v in run_case(case):
                if v[0] in DETERMINISTIC_SIGS:
                    res.excluded[v[0]] += 1
                else:
                    out.append(v)
            return out
        hyp.search(input_st(), guarded, res, n, seed, ID, nontrivial=nontrivial, classify=classify)
        hyp.search(filter_st(), guarded, res, n, seed + 1, ID, nontrivial=nontrivial, classify=classify)
        hyp.search(scheme_st(), guarded, res, max(20, n // 4), seed + 2, ID, nontrivial=nontrivial, classify=classify)
    elif kind == "hyp-discover":
        _, seed, n = arg
        found = hyp.search(population_st(), run_case, res, n, seed, ID, nontrivial=nontrivial, classify=classify,
                           shrink=False, reducer=discover_reducer)
        # the reducer keeps the message of the unreduced case: refresh it from the case that is reported
        for sig in found:
            v = res.violations.get(sig)
            if v is not None:
                for s2, m2 in run_case(v["case"]):
                    if s2 == sig:
                        v["msg"] = m2
    return res


def run(ctx):
    q, s = ctx.quick, ctx.seed
    shards = []
    complete = 12 if q else 16
    fillers_q = ["repeat", [0, 0xFF, 0xA5][s % 3], [0xFF, 0xA5, 0][s % 3]]
    for r in range(1, complete + 1):
        size = 1 << r
        step = 2048 if q else 4096
        for lo in range(0, size, step):
            shards.append(("input-enum", r, lo, min(size, lo + step), fillers_q if q else FILLERS))
    rest = list(range(complete + 1, 33))
    for k in range(0, len(rest), 4):
        shards.append(("input-boundary", rest[k:k + 4]))
    shards.append(("input-faults",))
    for name in ("pushbutton", "occupancy", "light", "int"):
        shards.append(("setfilter-lib", name))
    for name in ("pushbutton", "occupancy", "light"):
        shards.append(("queryfilter-lib", name))
    for bits in GEN_BITS:
        shards.append(("setfilter-gen", bits, not q))
        shards.append(("queryfilter-gen", bits))
    shards.append(("filter-faults",))
    shards.append(("scheme",))
    for pi in range(len(FIXED_POPULATIONS)):
        shards.append(("discover-fixed", pi))
    for k in range(16):
        shards.append(("hyp", s * 1000 + k, 500 if q else 6000))
        shards.append(("hyp-discover", s * 1000 + 500 + k, 120 if q else 2000))
    # longest first
    order = {"hyp-discover": 0, "hyp": 1, "discover-fixed": 2, "input-enum": 3}
    shards.sort(key=lambda a: order.get(a[0], 4))
    ctx.pmap(_shard, shards)
    ctx.result.exhaustive = False
    ctx.result.extra["input_values_complete_up_to_bits"] = complete
    ctx.result.extra["generated_filter_enums"] = len(GEN_BITS)
