"""C13 - control-device sequences move multi-byte settings and scan results intact.

The library's 24-bit sequences (dali/device/sequences.py: query_input_value, SetEventFilters,
QueryEventFilters, SetEventSchemes; dali/device/helpers.py: DeviceInstanceTypeMapper.autodiscover)
are run, through the fake bus, against the frame-level IEC 62386-103 control-device model
(harness/model_device.py).  The oracle reads the model's state, never the library's view of it.

Case kinds (all JSON):
  input        {"res", "value", "pass_res", "filler", "dev", "inst", "as_int", "next", "fault"}
  setfilter    {"enum", "bits", "value", "stale", "mask", "dev", "inst", "as_int", "fault"[, "force", "keeps", "prev"]}
               the unit implements only the bits "mask", keeps the events "force" enabled whatever is written, or
               ("keeps") does not take the new filter over at all; "prev" is the filter it held before (default: the
               complement of the request)
  queryfilter  {"enum", "bits", "unit", "via_module", "dev", "inst", "as_int", "fault"}
  scheme       {"scheme", "as_enum", "initial", "refuse", "dev", "inst", "as_int", "fault"}
               setfilter / queryfilter with "names": [member names of a library enum]: the filter is composed BY NAME
               (Filter.short_press | Filter.long_press_stop) and "value" / "unit" hold the standard's bits for them
  enumtable    {"enum"}: the member names and values of a library filter enum against the standard's table
  discover     {"devices": [{"short", "status", "inst": [[enabled, type], ...]}], "selector", "fault",
                "before": None or {"how": "fresh"|"initial"|"add_type"|"scan", "devices", "selector", "clear": bool,
                                   "abandon": None or [[how, n], ...]}}
                selector = ["default"] | ["int", N] | ["pair", lo, hi] | [form, [addresses]] with form one of
                list / tuple / gen / iter / map / filter / range (contiguous) - the iterables a caller may pass;
                "before": the SAME mapper object was used before this scan - filled through initial= / add_type() /
                an earlier scan of another population -, then had scans of that population started on it that were
                not run to their end ("abandon": after n commands the driver closed the sequence ["close", n], threw
                an exception into it ["throw", n] or just dropped it ["drop", n]; or the address list held an invalid
                address at position n ["bad-address", n]), and was (normally) clear()ed
"fault" = None or [k, "silence"|"garble"]: the answer to the k-th query of the sequence (modulo the
number of queries of the fault-free run) is suppressed / turned into a framing error whose data
bits differ from the true answer.
"""
import itertools

from hypothesis import strategies as st

from harness import hyp
from harness.bus import Bus, Fault, NonTermination, run_interleaved
from harness.model_device import DeviceModel, InstanceModel
from harness.runner import Result, library_frame

ID = "C13"
LEVEL = "exploration"
RULE = ("input value: every (resolution, value) up to 12 bits (quick) / 16 bits (thorough) x resolution passed or "
        "queried x filler patterns, boundary and Hypothesis-drawn values up to 32 bits; filters: every flag combination "
        "of the push-button/occupancy/light enums and plain ints 0..255 x stale DTR contents, generated enums of 9..24 "
        "flags x boundary and drawn combinations x stale DTRs x partially implemented filters; the library enums' member "
        "tables against the standard and every combination of their members composed by name, set and queried; schemes: all (initial, "
        "requested) pairs, refused and invalid ones; discovery: fixed and Hypothesis-drawn buses of 0..64 devices, the "
        "addresses given as default / int / (start, end) / list / tuple / range / iterator / generator / map / filter, the "
        "mapper fresh or used before (filled through initial= / add_type() / a scan of another population, earlier scans "
        "on it abandoned after n commands - closed, exception thrown in, dropped, invalid address -, then clear()ed "
        "or not) and read back through .mapping, get_type() and event decoding; every "
        "sequence also with silence / framing error at each query.  Enumerated cases are distinct by construction, drawn "
        "ones by fingerprint.  Non-trivial = resolution > 8, or filter wider than 8 bits, or a population with an "
        "unhealthy device / disabled instance / duplicate address, or any fault case; several sequences in flight: (2 or 3 "
        "cases of any of the kinds above, advance order) - every ordered pair of a palette of cases (same device and instance "
        "address on separate buses; different values, filter widths 8/16/24, input widths 1..4 bytes, stale DTRs, "
        "populations; some with a fault; part of it seed-derived) x a list of advance orders (round-robin, reversed, blocks "
        "of 2 and 3, head starts, one sequence completely inside the other, strictly sequential), every order of the first "
        "eight advances for some pairs, triples, plus Hypothesis-generated tuples; non-trivial = at least two of the "
        "sequences overlap in time (neither finished before the other started) and the cases are not all identical")
ASSUMPTIONS = [
    "the filter bits of the library's push-button / occupancy / light filter enums are those of IEC 62386-301 Table 3 "
    "(button released 1, button pressed 2, short press 4, double press 8, long press start 16, long press repeat 32, long "
    "press stop 64, button stuck/free 128), -303 Table 3 (occupied 1, vacant 2, repeat 4, movement 8, no movement 16) and "
    "-304 Table 2 (illuminance level 1), transcribed into FILTER_TABLE under the library's member names; each enum has "
    "exactly these members",
    "control devices follow harness/model_device.py: an instance stores its event filter at the native width of its type "
    "(8, 16 or 24 bits); the filter type handed to the library matches that width (plain ints: 8 bits)",
    "the unused low bits of the last input-value byte are arbitrary (IEC 62386-103 9.7.2 makes them a repetition of the "
    "value; the model also plays other fillers to show that they are discarded)",
    "a unit may refuse an event scheme, implement only some filter bits, keep some events permanently enabled or not take "
    "a new filter over at all; the sequence's return value is then compared with what the unit holds (all of it, also bits "
    "that were not requested), not with the request",
    "a scan that was started on a mapper and not run to its end (the driver closed or dropped the sequence after a "
    "transport error / cancellation, or the scan itself raised on an invalid address) says nothing about later scans on "
    "that mapper: they are judged like any other scan; entries the abandoned scan may have recorded count as 'earlier "
    "use' of the mapper",
    "invalid event schemes (outside 0..4): raising ValueError/TypeError or sending it and reporting the unit's unchanged "
    "scheme are both accepted; only a changed scheme in the unit or a report that differs from the unit is a violation",
    "SetEventSchemes returns the unit's answer as a response object; under a fault an object holding no frame or a "
    "framing-error frame counts as 'None result'",
    "autodiscover(int N): the docstring ('from zero to that value') and the code (0..N-1) differ about address N itself; "
    "both are accepted.  (start, end) is inclusive (the default (0, 63) must reach address 63); start <= end only",
    "healthy = neither 'short address is MASK' nor 'reset state' in the status byte; every other status bit (input device "
    "error, quiescent mode, application controller active/error, power cycle seen) does not disqualify a device "
    "(dali/tests/test_device_sequences.py::test_device_autodiscover_dont_skip_bad states the same)",
    "two devices sharing a short address collide on the first query (framing error) and are expected to be skipped",
    "under a fault in autodiscover the missing entries must belong to the device whose answer was lost; whether the "
    "whole device or only one instance is skipped is not prescribed",
    "two or more simultaneous answers are always seen as a framing error (as the library documents)",
    "'records' is judged through every documented way of reading the mapper: the .mapping property (dict(), len, items, "
    "==), get_type() and decoding a device/instance event with the mapper must all show the same entries; a mapper that "
    "was clear()ed before the scan must show exactly this scan; one that was not cleared may also keep entries of its "
    "earlier use for instances this scan did not look at",
    "sequences in flight at the same time on separate buses (one driver per DALI line in one process; one "
    "DeviceInstanceTypeMapper per line) are independent: each must put on its bus, do to its units, record and return "
    "(or raise) exactly what it does when it runs alone on a fresh identical bus",
]

# signatures of confirmed defects that a deterministic case reports; Hypothesis searches exclude and count them
# The DTR2 defect found at the pinned commit is repaired in /repo (KNOWN_FINDINGS.txt "fixed:" line): nothing is
# excluded from the Hypothesis searches any more.
DETERMINISTIC_SIGS = ()

# flag positions of the library's filter enums, stated from IEC 62386-301 Table 3, -303 Table 3, -304 Table 2
LIB_ENUMS = {"pushbutton": list(range(8)), "occupancy": list(range(5)), "light": [0]}
LIB_TYPES = {"pushbutton": 1, "occupancy": 3, "light": 4}
# member name -> filter bit of the library's filter enums, transcribed from IEC 62386-301 Table 3, -303 Table 3 and
# -304 Table 2 (the names are the library's spelling of the standard's event names)
FILTER_TABLE = {
    "pushbutton": {"button_released": 1, "button_pressed": 2, "short_press": 4, "double_press": 8, "long_press_start": 16,
                   "long_press_repeat": 32, "long_press_stop": 64, "button_stuck_free": 128},
    "occupancy": {"occupied": 1, "vacant": 2, "repeat": 4, "movement": 8, "no_movement": 16},
    "light": {"illuminance_level": 1},
}

_gen_cache = {}
_NO_RAW = object()


def _lib():
    from dali import address, exceptions
    from dali.device import general, helpers, light, occupancy, pushbutton, sequences
    return dict(address=address, exc=exceptions, general=general, helpers=helpers, sequences=sequences,
                pushbutton=pushbutton, occupancy=occupancy, light=light)


def width_of(nflags):
    return 8 if nflags <= 8 else 16 if nflags <= 16 else 24


def enum_of(L, case):
    """(filter class or int, module or None, native width, flag positions)"""
    name = case["enum"]
    if name == "int":
        return int, None, 8, list(range(8))
    if name in LIB_ENUMS:
        mod = L[name]
        return mod.InstanceEventFilter, mod, 8, LIB_ENUMS[name]
    bits = tuple(case["bits"])
    cls = _gen_cache.get(bits)
    if cls is None:
        # the program has other filter enums too and may have asked any of them for its width already:
        # the base class (no flags), the library's 8-bit ones, a narrower relative
        base = L["general"].InstanceEventFilter
        for other in [base] + [L[n].InstanceEventFilter for n in LIB_ENUMS]:
            try:
                other.dali_width()
            except Exception:  # noqa - not what this case judges
                pass
        cls = base("GenFilter%d" % len(bits), {"flag%d" % b: 1 << b for b in bits})
        _gen_cache[bits] = cls
    return cls, None, width_of(len(bits)), list(bits)


def dest_args(L, case):
    a, i = case.get("dev", 5), case.get("inst", 0)
    form = case.get("as_int")
    if form == "dev":            # mixed forms: one of the two as a plain int, the other as an address object
        return a, L["address"].InstanceNumber(i)
    if form == "inst":
        return L["address"].DeviceShort(a), i
    if form:
        return a, i
    return L["address"].DeviceShort(a), L["address"].InstanceNumber(i)


# ----------------------------------------------------------------- driving ----
def clean_run(build):
    make_units, make_seq, judge, cap = build
    units = make_units()
    bus = Bus(units, max_commands=cap)
    try:
        bus.run(make_seq(units))
    except Exception as e:  # noqa - only the trace is wanted here
        if library_frame(e.__traceback__) is None and not isinstance(e, NonTermination):
            raise
    if len(bus.trace) != len(bus.commands):
        raise AssertionError("trace/command mismatch (a 16-bit device-type prefix on a 24-bit sequence?)")
    return bus


def fault_lookup(build, fault):
    """(faults for the Bus, description for the judge) of a case's "fault" entry."""
    faults, finfo = (), None
    if fault:
        b0 = clean_run(build)
        qsteps = [i for i, c in enumerate(b0.commands) if c.response is not None]
        if qsteps:
            step = qsteps[fault[0] % len(qsteps)]
            true = b0.trace[step][3]
            faults = [Fault(step, fault[1], (true[0] ^ 0xA5) if true else 0x55)]
            finfo = {"step": step, "frame": b0.trace[step][1], "true": true, "kind": fault[1]}
    return faults, finfo


def drive(build, fault):
    make_units, make_seq, judge, cap = build
    faults, finfo = fault_lookup(build, fault)
    units = make_units()
    bus = Bus(units, faults=faults, max_commands=cap)
    try:
        out = ("ret", bus.run(make_seq(units)))
    except NonTermination:
        out = ("nonterm", None)
    except Exception as e:  # noqa
        if library_frame(e.__traceback__) is None:
            raise
        out = ("exc", e)
    return judge(units, bus, out, finfo)


def query_steps(case):
    """Number of queries the fault-free run of this case puts on the bus."""
    c = dict(case)
    c["fault"] = None
    b = clean_run(BUILDERS[c["kind"]](c))
    return len([x for x in b.commands if x.response is not None])


def exc_violation(prefix, L, out, finfo, where):
    """Common verdict on a raised exception / non-termination; None if acceptable."""
    if out[0] == "nonterm":
        return [(prefix + "-nontermination", "%s: command cap reached" % where)]
    e = out[1]
    if isinstance(e, L["exc"].DALISequenceError):
        if finfo is not None:
            return []
        return [(prefix + "-spurious-DALISequenceError", "%s raised %r although every answer arrived intact" % (where, e))]
    return [("%s-raised:%s%s" % (prefix, type(e).__name__, ":under-fault" if finfo else ""),
             "%s raised %r (%s)" % (where, e, library_frame(e.__traceback__)))]


def fault_text(finfo):
    if finfo is None:
        return ""
    return " with %s of the answer to frame 0x%06X (query step %d, true answer %s)" % (
        "suppression" if finfo["kind"] == "silence" else "a framing error in place", finfo["frame"], finfo["step"],
        finfo["true"] or "none")


# ------------------------------------------------------------------- input ----
def build_input(case):
    L = _lib()
    res, value = case["res"], case["value"]
    a, i = case.get("dev", 5), case.get("inst", 0)
    filler = case.get("filler", "repeat")
    nxt = case.get("next")

    def make_units():
        insts = []
        for k in range(i):
            insts.append(InstanceModel(type=2, resolution=((res + k) % 32) + 1, value=0))
        insts.append(InstanceModel(type=4, resolution=res, value=value, filler=filler,
                                   next_values=[] if nxt is None else [nxt]))
        if i < 31:
            insts.append(InstanceModel(type=4, resolution=8, value=0x5A))
        other = DeviceModel(short=(a + 1) % 64, instances=[InstanceModel(resolution=24, value=0x123456) for _ in range(i + 1)])
        return [DeviceModel(short=a, instances=insts), other]

    def make_seq(units):
        d, n = dest_args(L, case)
        if case.get("pass_res"):
            return L["sequences"].query_input_value(device=d, instance=n, resolution=res)
        return L["sequences"].query_input_value(d, n)

    def judge(units, bus, out, finfo):
        where = "query_input_value(%s) on a %d-bit instance holding 0x%X (filler %r)%s" % (
            "resolution=%d" % res if case.get("pass_res") else "resolution queried", res, value, filler, fault_text(finfo))
        if out[0] != "ret":
            return exc_violation("C13:input", L, out, finfo, where)
        r = out[1]
        if r is None and finfo is not None:
            return []
        if isinstance(r, bool) or not isinstance(r, int) or r != value:
            if finfo is not None:
                return [("C13:input-wrong-value-under-fault", "%s returned %r" % (where, r))]
            return [("C13:input-value-wrong:" + ("multi-byte" if res > 8 else "single-byte"), "%s returned %r" % (where, r))]
        return []
    return make_units, make_seq, judge, 64


# ------------------------------------------------------------ filter (set) ----
def loads_before_set(trace):
    """Which DTRs were loaded before the first SET EVENT FILTER frame (model-side decode)."""
    loaded = set()
    for bits, v, twice, ans in trace:
        if bits != 24:
            continue
        ab, ib, op = v >> 16, (v >> 8) & 0xFF, v & 0xFF
        if ab == 0xC1 and ib in (0x30, 0x31, 0x32):
            loaded.add(ib - 0x30)
        elif ab == 0xC7:
            loaded |= {0, 1}
        elif ab == 0xC9:
            loaded |= {1, 2}
        elif ab & 1 and ab & 0xE0 != 0xC0 and ib != 0xFE and op == 0x68:
            break
    return loaded


def build_setfilter(case):
    L = _lib()
    cls, mod, width, positions = enum_of(L, case)
    value = case["value"]
    a, i = case.get("dev", 5), case.get("inst", 0)
    stale = tuple(case.get("stale", (0, 0, 0)))
    mask = case.get("mask")
    wmask = (1 << width) - 1
    force = (case.get("force") or 0) & wmask
    keeps = bool(case.get("keeps"))
    prev = (~value if case.get("prev") is None else case["prev"]) & wmask
    itype = LIB_TYPES.get(case["enum"], 9)

    def make_units():
        insts = [InstanceModel(type=2, filter_width=24, filter=0x010203) for _ in range(i)]
        insts.append(InstanceModel(type=itype, filter_width=width, filter=prev, filter_mask=mask, filter_force=force,
                                   ignore_set_filter=keeps))
        if i < 31:
            insts.append(InstanceModel(type=itype, filter_width=width, filter=0x5A))
        other = DeviceModel(short=(a + 1) % 64, dtr=stale,
                            instances=[InstanceModel(filter_width=24, filter=0x0A0B0C) for _ in range(i + 1)])
        return [DeviceModel(short=a, instances=insts, dtr=stale), other]

    names = case.get("names")

    def make_seq(units):
        d, n = dest_args(L, case)
        if names is not None:
            fv = cls(0)
            for nm in names:
                fv = fv | cls.__members__[nm]          # composed by name, the way a caller writes it
            return L["sequences"].SetEventFilters(device=d, instance=n, filter_value=fv)
        return L["sequences"].SetEventFilters(device=d, instance=n, filter_value=value if cls is int else cls(value))

    def judge(units, bus, out, finfo):
        unit = units[0].instances[i]
        exp = prev if keeps else ((value & wmask if mask is None else value & wmask & mask) | force)
        where = "SetEventFilters(%s 0x%06X) on a %d-bit-filter instance%s%s%s, DTR0/1/2 holding %s beforehand%s" % (
            "int" if cls is int else "%s[%d flags]" % (case["enum"], len(positions)), value, width,
            "" if mask is None else " implementing bits 0x%06X" % mask,
            "" if not force else " that keeps bits 0x%06X enabled" % force,
            "" if not keeps else " that does not take the filter over (holds 0x%06X)" % prev,
            "%02X/%02X/%02X" % stale, fault_text(finfo))
        if out[0] != "ret":
            return exc_violation("C13:set-filter", L, out, finfo, where)
        r = out[1]
        vs = []
        if unit.filter != exp:
            diff = unit.filter ^ exp
            loaded = loads_before_set(bus.trace)
            if unit.set_filter_count == 0:
                sig = "C13:set-filter-not-executed"
            elif names is not None:
                sig = "C13:filter-enum-member-value:" + case["enum"]
                where = "%s composed by name from %s" % (where, " | ".join(names) or "no member")
            elif diff & 0xFF0000 and not diff & 0x00FFFF and 2 not in loaded:
                sig = "C13:event-filter-dtr2-not-loaded"
            elif diff & 0x00FF00 and not diff & 0xFF00FF and 1 not in loaded:
                sig = "C13:event-filter-dtr1-not-loaded"
            else:
                sig = "C13:set-filter-wrong-state"
            vs.append((sig, "%s left the instance with filter 0x%06X, expected 0x%06X (DTRs loaded before SET EVENT FILTER: %s)"
                       % (where, unit.filter, exp, sorted(loaded))))
        if r is None:
            if finfo is None:
                vs.append(("C13:set-filter-returned-none", "%s returned None although every answer arrived" % where))
        elif isinstance(r, bool) or not isinstance(r, int) or int(r) != unit.filter:
            vs.append(("C13:set-filter-return-differs-from-unit" + (":under-fault" if finfo else ""),
                       "%s returned %r (0x%X) but the instance reports 0x%06X"
                       % (where, r, int(r) if isinstance(r, int) else -1, unit.filter)))
        return vs
    return make_units, make_seq, judge, 64


# ---------------------------------------------------------- filter (query) ----
def build_queryfilter(case):
    L = _lib()
    cls, mod, width, positions = enum_of(L, case)
    f = case["unit"] & ((1 << width) - 1)
    a, i = case.get("dev", 5), case.get("inst", 0)
    itype = LIB_TYPES.get(case["enum"], 9)

    def make_units():
        insts = [InstanceModel(type=2, filter_width=24, filter=0x010203) for _ in range(i)]
        insts.append(InstanceModel(type=itype, filter_width=width, filter=f))
        if i < 31:
            insts.append(InstanceModel(type=itype, filter_width=width, filter=~f & 0xFF))
        other = DeviceModel(short=(a + 1) % 64, instances=[InstanceModel(filter_width=24, filter=0x0A0B0C) for _ in range(i + 1)])
        return [DeviceModel(short=a, instances=insts, dtr=(0x11, 0x22, 0x33)), other]

    def make_seq(units):
        d, n = dest_args(L, case)
        ft = mod if (case.get("via_module") and mod is not None) else cls
        return L["sequences"].QueryEventFilters(device=d, instance=n, filter_type=ft)

    def judge(units, bus, out, finfo):
        unit = units[0].instances[i]
        where = "QueryEventFilters(%s[%d flags]%s) on a %d-bit-filter instance holding 0x%06X%s" % (
            case["enum"], len(positions), " via module" if case.get("via_module") else "", width, f, fault_text(finfo))
        if out[0] != "ret":
            return exc_violation("C13:query-filter", L, out, finfo, where)
        r = out[1]
        if unit.filter != f:
            return [("C13:query-filter-changed-unit", "%s changed the filter to 0x%06X" % (where, unit.filter))]
        if r is None:
            return [] if finfo is not None else [("C13:query-filter-returned-none", "%s returned None" % where)]
        if isinstance(r, bool) or not isinstance(r, int) or int(r) != f:
            return [("C13:query-filter-wrong" + (":under-fault" if finfo else ""), "%s returned %r" % (where, r))]
        if case.get("names") is not None:
            # the caller asks the result by name: exactly the members the standard assigns to the unit's bits
            got = sorted(nm for nm, mem in cls.__members__.items() if int(mem) and int(r) & int(mem) == int(mem))
            if got != sorted(case["names"]) or any((getattr(cls, nm) in r) != (nm in case["names"]) for nm in cls.__members__):
                return [("C13:filter-enum-member-value:" + case["enum"], "%s: the result names %r, the unit's bits mean %r"
                         % (where, got, sorted(case["names"])))]
        return []
    return make_units, make_seq, judge, 64


# ------------------------------------------------------------------ scheme ----
def build_scheme(case):
    L = _lib()
    s, initial = case["scheme"], case["initial"]
    refuse = list(case.get("refuse", ()))
    a, i = case.get("dev", 5), case.get("inst", 0)
    valid = 0 <= s <= 4

    def make_units():
        insts = [InstanceModel(type=1, scheme=(initial + 1) % 5) for _ in range(i)]
        insts.append(InstanceModel(type=1, scheme=initial, refuse_schemes=refuse))
        if i < 31:
            insts.append(InstanceModel(type=1, scheme=(initial + 2) % 5))
        other = DeviceModel(short=(a + 1) % 64, instances=[InstanceModel(scheme=(initial + 3) % 5) for _ in range(i + 1)])
        return [DeviceModel(short=a, instances=insts, dtr=(case.get("stale0", 0), 0, 0)), other]

    def make_seq(units):
        d, n = dest_args(L, case)
        arg = L["general"].EventScheme(s) if (case.get("as_enum") and valid) else s
        return L["sequences"].SetEventSchemes(device=d, instance=n, scheme=arg)

    def judge(units, bus, out, finfo):
        unit = units[0].instances[i]
        where = "SetEventSchemes(%r%s) on an instance in scheme %d%s%s" % (
            s, " as enum" if case.get("as_enum") and valid else "", initial,
            " that refuses %r" % refuse if refuse else "", fault_text(finfo))
        if out[0] == "exc" and isinstance(out[1], (ValueError, TypeError)) and not valid:
            if unit.scheme != initial:
                return [("C13:scheme-invalid-stored", "%s was rejected with %r but the unit now holds %d" % (where, out[1], unit.scheme))]
            return []
        if out[0] != "ret":
            return exc_violation("C13:scheme", L, out, finfo, where)
        r = out[1]
        exp = s if (valid and s not in refuse) else initial
        vs = []
        if unit.scheme != exp:
            sig = "C13:scheme-invalid-stored" if not valid else \
                "C13:scheme-not-executed" if unit.set_scheme_count == 0 else "C13:scheme-wrong-state"
            vs.append((sig, "%s left the instance in scheme %d, expected %d" % (where, unit.scheme, exp)))
        raw = None if r is None else getattr(r, "raw_value", _NO_RAW)
        if raw is _NO_RAW:
            # a bare value instead of a response object: compare it directly
            if r != unit.scheme:
                vs.append(("C13:scheme-return-differs-from-unit", "%s returned %r, the unit reports %d" % (where, r, unit.scheme)))
        elif raw is None or raw.error:
            if finfo is None:
                vs.append(("C13:scheme-returned-none", "%s returned %r (frame %r) although every answer arrived" % (where, r, raw)))
        else:
            got = raw.as_integer
            try:
                val = r.value
            except Exception as e:  # noqa
                val = e
            if got != unit.scheme or val != unit.scheme:
                vs.append(("C13:scheme-return-differs-from-unit" + (":under-fault" if finfo else ""),
                           "%s returned a response of %r / value %r, the unit reports %d" % (where, got, val, unit.scheme)))
        return vs
    return make_units, make_seq, judge, 64


# ---------------------------------------------------------------- discover ----
UNHEALTHY = 0x44      # short address is MASK | reset state


def selected_addresses(sel):
    """(must-scan addresses, may-scan addresses) as sets."""
    k = sel[0]
    if k == "default":
        return set(range(64)), set(range(64))
    if k == "int":
        lo = set(range(0, sel[1]))
        return lo, (lo | {sel[1]}) if sel[1] <= 63 else lo
    if k == "pair":
        s = set(range(sel[1], sel[2] + 1))
        return s, s
    s = set(sel[1])
    return s, s


def selector_arg(sel):
    k = sel[0]
    if k == "int":
        return sel[1]
    if k == "pair":
        return (sel[1], sel[2])
    if k == "list":
        return list(sel[1])
    if k == "tuple":
        if len(sel[1]) == 2:
            raise ValueError("a 2-tuple is a (start, end) pair")
        return tuple(sel[1])
    if k == "gen":
        return (x for x in sel[1])
    if k == "iter":
        return iter(list(sel[1]))
    if k == "map":
        return map(int, list(sel[1]))
    if k == "filter":
        return filter(lambda x: True, list(sel[1]))
    if k == "range":
        lst = list(sel[1])
        if lst != list(range(lst[0], lst[0] + len(lst))) if lst else False:
            raise ValueError("a range selector needs contiguous addresses")
        return range(lst[0], lst[0] + len(lst)) if lst else range(0)
    raise ValueError(sel)


ITERABLE_FORMS = ("list", "tuple", "gen", "iter", "map", "filter", "range")


def expected_mapping(devices, addrs):
    by = {}
    for d in devices:
        if d["short"] is not None:
            by.setdefault(d["short"], []).append(d)
    exp = {}
    for a in addrs:
        ds = by.get(a, [])
        if len(ds) != 1 or ds[0]["status"] & UNHEALTHY:
            continue
        for n, (en, t) in enumerate(ds[0]["inst"]):
            if en:
                exp[(a, n)] = t
    return exp


class Abandoned(Exception):
    """What the driver of an earlier scan raised into the sequence (lost connection, cancellation)."""


INVALID_ADDRESSES = [64, -1, 255, 1000]
ABANDON_KINDS = ["close", "throw", "drop", "bad-address"]


def earlier_bus(before, sel):
    units = [DeviceModel(short=d["short"], force_status=d["status"], name="e%d" % k,
                         instances=[InstanceModel(type=t, enabled=en) for (en, t) in d["inst"]])
             for k, d in enumerate(before["devices"])]
    return Bus(units, max_commands=400 + sum(2 + 2 * len(d["inst"]) for d in before["devices"]) * (
        1 + (len(sel[1]) if sel[0] in ITERABLE_FORMS else 0)))


def abandoned_scan(m, before, spec):
    """An autodiscover() on mapper m over the earlier population that is not run to its end.  [how, n]: after n
    commands were put on the bus (the answer to the n-th never reaches the sequence) the driver closes the sequence
    ("close" - what every driver's run_sequence does when sending fails or its task is cancelled), throws its exception
    into it ("throw"), or just lets go of it ("drop"); "bad-address": the caller's address list holds an invalid
    address at position n, on which the scan itself raises.  n = 0: the sequence was created and never started.  A
    scan that is over before n commands simply was a complete one."""
    from dali import command
    how, n = spec
    sel = before.get("selector", ["default"])
    if how == "bad-address":
        addrs = sorted(selected_addresses(sel)[0])
        k = n % (len(addrs) + 1)
        seq = m.autodiscover(addrs[:k] + [INVALID_ADDRESSES[n % len(INVALID_ADDRESSES)]] + addrs[k:])
        bus = earlier_bus(before, ["list", addrs + [0]])
        n = bus.max_commands
    else:
        seq = m.autodiscover() if sel[0] == "default" else m.autodiscover(selector_arg(sel))
        bus = earlier_bus(before, sel)
    resp, sent = None, 0
    try:
        while sent < n:
            item = seq.send(resp)
            resp = None
            if isinstance(item, command.Command):
                resp = bus.transact(item)
                sent += 1
    except StopIteration:
        return
    except Exception as e:  # noqa - the earlier scan is not what this case judges; it only has to be over
        if library_frame(e.__traceback__) is None and not isinstance(e, NonTermination):
            raise
        return
    if how == "close":
        seq.close()
    elif how == "throw":
        try:
            seq.throw(Abandoned("the driver lost its connection"))
        except (Abandoned, StopIteration):
            pass
    del seq


def used_mapper(L, before):
    """A mapper object that has been in use: filled through initial=, add_type() or a scan of an earlier population;
    scans started on it and abandoned."""
    m = filled_mapper(L, before)
    for spec in before.get("abandon") or ():
        abandoned_scan(m, before, spec)
        len(m.mapping)
    return m


def filled_mapper(L, before):
    how = before["how"]
    sel = before.get("selector", ["default"])
    Mapper = L["helpers"].DeviceInstanceTypeMapper
    if how == "fresh":
        m = Mapper()
    elif how == "scan":
        m = Mapper()
        earlier_bus(before, sel).run(m.autodiscover() if sel[0] == "default" else m.autodiscover(selector_arg(sel)))
    else:
        first = expected_mapping(before["devices"], selected_addresses(sel)[0])
        if how == "initial":
            m = Mapper(initial=dict(first))
        else:
            m = Mapper()
            for (a, n), t in sorted(first.items()):
                m.add_type(short_address=a if n % 2 else L["address"].DeviceShort(a),
                           instance_number=L["address"].InstanceNumber(n) if a % 2 else n, instance_type=t)
    len(m.mapping)                     # the caller has looked at it
    return m


def mapper_views(L, m, mapping, keys, where, suffix):
    """.mapping (len / items / ==), get_type() and decoding an event with the mapper must agree with dict(.mapping)."""
    from dali import command, frame
    mp = m.mapping
    if len(mp) != len(mapping) or dict(mp.items()) != mapping or not (mp == mapping) or sorted(mp, key=repr) != sorted(mapping, key=repr):
        return [("C13:mapper-views-disagree" + suffix, "%s: .mapping read as dict() has %d entries, len() says %d, == says %s"
                 % (where, len(mapping), len(mp), mp == mapping))]
    probes = sorted(k for k in set(mapping) | set(keys) | {(0, 0), (63, 31)}
                    if isinstance(k, tuple) and len(k) == 2 and all(isinstance(x, int) and not isinstance(x, bool) for x in k)
                    and 0 <= k[0] <= 63 and 0 <= k[1] <= 31)
    for a, n in probes:
        want = mapping.get((a, n))
        t = m.get_type(short_address=a if (a + n) % 2 else L["address"].DeviceShort(a),
                       instance_number=n if n % 3 else L["address"].InstanceNumber(n))
        if t != want:
            return [("C13:mapper-get_type-differs-from-mapping" + suffix, "%s: get_type(%d, %d) = %r but .mapping says %r"
                     % (where, a, n, t, want))]
    step = max(1, len(probes) // 12)
    for a, n in probes[::step][:16]:
        want = mapping.get((a, n))
        v = (a << 17) | 0x8000 | (n << 10) | ((a * 37 + n) & 0x3FF)
        c = command.from_frame(frame.ForwardFrame(24, v), dev_inst_map=m)
        amb = type(c).__name__ == "AmbiguousInstanceType"
        if (want is None) != amb or (want is not None and getattr(c, "instance_type", None) != want):
            return [("C13:mapper-decode-differs-from-mapping" + suffix, "%s: the device/instance event 0x%06X (device %d, instance %d) "
                     "decodes as %s (instance type %r) but .mapping says %r"
                     % (where, v, a, n, type(c).__name__, getattr(c, "instance_type", None), want))]
    return []


def build_discover(case):
    L = _lib()
    devices = case["devices"]
    sel = case["selector"]
    holder = {}
    costs = [2 + 2 * len(d["inst"]) for d in devices]
    ncmd = 300 + sum(costs)
    if sel[0] in ITERABLE_FORMS:
        ncmd += len(sel[1]) * (1 + max(costs + [0]))
    before = case.get("before")
    # (under a fault a stale entry could legitimately survive for the instance whose answer was lost: always cleared then)
    cleared = bool(before) and (before.get("clear", True) or bool(case.get("fault")))
    first_hi = {}
    if before:
        # what the mapper may hold from its earlier use (read from the case, not from the library)
        if before["how"] != "fresh" or before.get("abandon"):
            first_hi = expected_mapping(before["devices"], selected_addresses(before.get("selector", ["default"]))[
                1 if before["how"] == "scan" or before.get("abandon") else 0])

    def make_units():
        return [DeviceModel(short=d["short"], force_status=d["status"], name="d%d" % k,
                            instances=[InstanceModel(type=t, enabled=en) for (en, t) in d["inst"]])
                for k, d in enumerate(devices)]

    def make_seq(units):
        if before:
            m = used_mapper(L, before)
            if cleared:
                m.clear()
        else:
            m = L["helpers"].DeviceInstanceTypeMapper()
        holder["m"] = m
        # A bus-wide mapper is scanned again and again: instances it already knows - with a type that is no longer
        # true, e.g. a unit was replaced - must end up with the type the unit reports NOW.  (Only fault-free cases and
        # only addresses that are certainly scanned, so that nothing stale may legitimately survive.)
        if not before and case.get("preload", len(devices) % 2 == 1) and not case.get("fault"):
            must_addrs, _ = selected_addresses(sel)
            for (a, n), t in sorted(expected_mapping(devices, must_addrs).items()):
                m.add_type(short_address=a, instance_number=n, instance_type=(t + 1 + n % 3) % 32)
        seq = m.autodiscover() if sel[0] == "default" else m.autodiscover(selector_arg(sel))
        if case.get("clear_when") == "start" and not before:
            # the application empties the table when it sees the scan start (first thing the scan puts on the bus):
            # nothing has been discovered yet, so the finished scan holds all it found
            return _clear_at_start(seq, m)
        return seq

    def judge(units, bus, out, finfo):
        where = "autodiscover(%s) on %d devices%s%s" % (
            "" if sel[0] == "default" else "%s %r" % (sel[0], sel[1:] if sel[0] in ("int", "pair") else sel[1]),
            len(devices), fault_text(finfo),
            "" if not before else " with a mapper that was filled before (%s, %d entries)%s and %s" % (
                before["how"], len(first_hi),
                "" if not before.get("abandon") else ", on which earlier scans were abandoned (%s)" % ", ".join(
                    "%s after %d commands" % (h, k) if h != "bad-address" else "invalid address at position %d" % k
                    for h, k in before["abandon"]), "clear()ed" if cleared else "not cleared"))
        if out[0] != "ret":
            return exc_violation("C13:discover", L, out, finfo, where)
        suffix = ":under-fault" if finfo else ""
        mapping = dict(holder["m"].mapping)
        must, may = selected_addresses(sel)
        exp_lo, exp_hi = expected_mapping(devices, must), expected_mapping(devices, may)
        vs = []
        # 1. nothing recorded that the bus does not hold
        by = {}
        for d in devices:
            if d["short"] is not None:
                by.setdefault(d["short"], []).append(d)
        for key in sorted(mapping, key=repr):
            if key in exp_hi and mapping[key] == exp_hi[key]:
                continue
            if before and not cleared and key in first_hi and mapping[key] == first_hi[key] and key not in exp_lo:
                continue                       # known from the earlier use of this mapper and not scanned now
            if not (isinstance(key, tuple) and len(key) == 2):
                vs.append(("C13:discover-bad-key" + suffix, "%s recorded key %r" % (where, key)))
                break
            a, n = key
            ds = by.get(a, [])
            if a not in may:
                sig = "C13:discover-address-outside-selection"
            elif cleared and key in first_hi and mapping[key] == first_hi[key]:
                sig = "C13:discover-mapping-keeps-cleared-entry"
            elif len(ds) != 1:
                sig = "C13:discover-recorded-absent-or-colliding-device"
            elif ds[0]["status"] & UNHEALTHY:
                sig = "C13:discover-recorded-unhealthy-device"
            elif not (isinstance(n, int) and 0 <= n < len(ds[0]["inst"])):
                sig = "C13:discover-recorded-nonexistent-instance"
            elif not ds[0]["inst"][n][0]:
                sig = "C13:discover-recorded-disabled-instance"
            else:
                sig = "C13:discover-wrong-type"
            vs.append((sig + suffix, "%s recorded %r -> %r; the bus holds %s" % (where, key, mapping[key], exp_hi.get(key, "no such entry"))))
            break
        # 2. nothing missing (fault-free), or only entries of the device whose answer was lost
        missing = sorted(k for k in exp_lo if k not in mapping)
        if sel[0] == "int" and any(k[0] == sel[1] for k in mapping) and not vs and not (before and not cleared):
            missing = sorted(k for k in exp_hi if k not in mapping)      # address N was scanned: then completely
        if missing:
            if finfo is None:
                vs.append(("C13:discover-missed-instance", "%s did not record %r (type %r); recorded %d of %d"
                           % (where, missing[0], exp_hi[missing[0]], len(mapping), len(exp_lo))))
            else:
                fa = (finfo["frame"] >> 17) & 0x3F
                stray = [k for k in missing if k[0] != fa]
                if stray:
                    vs.append(("C13:discover-fault-skipped-unrelated-device", "%s did not record %r, which belongs to a device whose "
                               "answers all arrived" % (where, stray[0])))
        # 3. the scan is bracketed in quiescent mode
        t = bus.trace
        if len(t) < 2 or t[0][:3] != (24, 0xFFFE1D, True) or t[-1][:3] != (24, 0xFFFE1E, True):
            vs.append(("C13:discover-quiescent-bracket" + suffix, "%s: first frame %s, last frame %s (expected START/STOP QUIESCENT "
                       "MODE broadcast 0xFFFE1D/0xFFFE1E, each sent twice)" % (
                           where, t and "0x%06X twice=%s" % (t[0][1], t[0][2]), t and "0x%06X twice=%s" % (t[-1][1], t[-1][2]))))
        else:
            loose = [u.name for u in units if u.quiescent or u.queries_while_not_quiescent]
            if loose:
                vs.append(("C13:discover-quiescent-bracket" + suffix, "%s: units %r were queried outside quiescent mode or left in it"
                           % (where, loose[:5])))
        # 4. every way of reading the mapper tells the same story as .mapping
        vs += mapper_views(L, holder["m"], mapping, set(exp_hi) | set(first_hi), where, suffix)
        return vs
    judge.recorded = lambda: sorted((repr(k), repr(v)) for k, v in holder["m"].mapping.items())
    return make_units, make_seq, judge, ncmd


def _clear_at_start(inner, m):
    answer = None
    first = True
    while True:
        try:
            item = next(inner) if first else inner.send(answer)
        except StopIteration as e:
            return e.value
        if first:
            m.clear()
            first = False
        answer = yield item


BUILDERS = {"input": build_input, "setfilter": build_setfilter, "queryfilter": build_queryfilter, "scheme": build_scheme,
            "discover": build_discover}


# --------------------------------------------------- several sequences in flight ----
LAST_INTER = [None]     # (id(case), did the sequences really overlap in time) of the most recent interleaved case


def _snap(o):
    """Plain-data copy of a model object (every attribute, recursively)."""
    if o is None or isinstance(o, (bool, int, float, str)):
        return o
    if isinstance(o, (list, tuple)):
        return [_snap(x) for x in o]
    if isinstance(o, (set, frozenset)):
        return sorted((_snap(x) for x in o), key=repr)
    if isinstance(o, dict):
        return [[repr(k), _snap(v)] for k, v in sorted(o.items(), key=lambda kv: repr(kv[0]))]
    if hasattr(o, "__dict__"):
        return [[k, _snap(v)] for k, v in sorted(vars(o).items()) if not callable(v)]
    return repr(o)


class Flight:
    """One case prepared for running: its own builder (closure state), units and bus."""

    def __init__(self, case, faults_from=None):
        self.case = case
        self.build = BUILDERS[case["kind"]](case)
        self.make_units, self.make_seq, self.judge, self.cap = self.build
        # the position of a fault is found by a fault-free run of the same case on a bus of its own
        self.faults, self.finfo = fault_lookup(self.build, case.get("fault")) if faults_from is None else \
            (faults_from.faults, faults_from.finfo)
        self.units = self.make_units()
        self.bus = Bus(self.units, faults=self.faults, max_commands=self.cap)
        self.out = None

    def seq(self):
        return self.make_seq(self.units)

    def finish(self, oc):
        """("returned", v) | ("raised", e)  ->  the verdict of the single-sequence oracle"""
        if oc[0] == "returned":
            self.out = ("ret", oc[1])
        elif isinstance(oc[1], NonTermination):
            self.out = ("nonterm", None)
        else:
            if library_frame(oc[1].__traceback__) is None:
                raise oc[1]
            self.out = ("exc", oc[1])
        return self.judge(self.units, self.bus, self.out, self.finfo)

    def run_alone(self):
        try:
            oc = ("returned", self.bus.run(self.seq()))
        except Exception as e:  # noqa: classified by finish
            oc = ("raised", e)
        return self.finish(oc)

    def result(self):
        out = self.out
        if out[0] == "nonterm":
            return ("command cap reached",)
        if out[0] == "exc":
            return ("raised", type(out[1]).__name__, str(out[1]))
        r = out[1]
        raw = getattr(r, "raw_value", _NO_RAW)
        if raw is not _NO_RAW:
            return ("returned", type(r).__name__, None if raw is None else (raw.as_integer, bool(raw.error)))
        if isinstance(r, int):
            return ("returned", type(r).__name__, int(r))
        return ("returned", type(r).__name__, repr(r))

    def end_state(self):
        """Everything the bus carried, everything its units hold and everything recorded when the sequence is over."""
        st = [("frames and answers", [list(t) for t in self.bus.trace])]
        for k, u in enumerate(self.units):
            for name, v in _snap(u):
                st.append(("unit #%d %s" % (k, name), v))
        if hasattr(self.judge, "recorded"):
            st.append(("recorded mapping", self.judge.recorded()))
        return st

    def where(self):
        c = self.case
        return "%s %s" % (c["kind"], {k: v for k, v in sorted(c.items()) if k != "kind" and v is not None and
                                       (k != "devices" or len(v) <= 4)})


def overlapping(order, n):
    """Do at least two of the n sequences overlap in time (neither finished before the other started)?"""
    first, last = {}, {}
    for pos, i in enumerate(order):
        first.setdefault(i, pos)
        last[i] = pos
    return any(first[i] < last[j] and first[j] < last[i] for i in first for j in first if i < j)


def case_interleaved(case):
    """{"kind": "interleaved", "jobs": [case, ...], "schedule": [...], "cycle": [...]}: several sequences in flight at
    once, each on its own bus against its own units, advanced command by command in the order case['schedule'] (then
    case['cycle'] repeatedly).  Each must satisfy the single-sequence oracle, return / raise what it returns / raises
    alone, and its bus must have carried, and its units must hold, exactly what they do when the sequence runs alone."""
    subs = case["jobs"]
    refs = [Flight(c) for c in subs]
    jobs = [Flight(c, faults_from=r) for c, r in zip(subs, refs)]
    order = []
    ocs = run_interleaved([(j.bus, j.seq) for j in jobs], case.get("schedule") or (), case.get("cycle") or None, order=order)
    LAST_INTER[0] = (id(case), overlapping(order, len(jobs)))
    out, seen = [], set()

    def add(sig, msg):
        if sig not in seen:
            seen.add(sig)
            out.append((sig, msg))

    for i, (job, oc, ref) in enumerate(zip(jobs, ocs, refs)):
        vs = job.finish(oc)
        rvs = ref.run_alone()
        for sig, msg in rvs:                  # not a matter of interleaving: the sequence fails on its own
            add(sig, msg)
        alone = set(sig for sig, _ in rvs)
        why = None
        if job.result() != ref.result():
            why = "outcome %r, alone %r" % (job.result(), ref.result())
        else:
            for (name, a), (rname, r) in zip(job.end_state(), ref.end_state()):
                if name != rname or a != r:
                    why = "%s: %r, alone %r" % (name, a, r)
                    break
        if why is None and [v for v in vs if v[0] not in alone]:
            why = "%s: %s" % [v for v in vs if v[0] not in alone][0]
        if why:
            add("C13:interleaved-sequences-interfere:" + subs[i]["kind"],
                "sequence #%d of %d in flight at the same time on separate buses (advance order %s; the others: %s): %s: %s"
                % (i, len(jobs), order[:60], "; ".join(j.where() for k, j in enumerate(jobs) if k != i), job.where(), why))
    return out


def case_enumtable(case):
    """The members of a library filter enum are exactly the standard's events, each with the standard's bit."""
    L = _lib()
    name = case["enum"]
    cls = L[name].InstanceEventFilter
    have = {nm: int(mem) for nm, mem in cls.__members__.items()}
    want = FILTER_TABLE[name]
    bad = ["%s = %d (standard: %d)" % (nm, have[nm], want[nm]) for nm in sorted(want) if nm in have and have[nm] != want[nm]]
    missing = sorted(nm for nm in want if nm not in have)
    extra = sorted(nm for nm in have if nm not in want)
    out = []
    if bad:
        out.append(("C13:filter-enum-member-value:" + name, "dali.device.%s.InstanceEventFilter: %s" % (name, "; ".join(bad))))
    if missing or extra:
        out.append(("C13:filter-enum-members:" + name, "dali.device.%s.InstanceEventFilter: missing members %r, members the "
                    "standard does not have %r" % (name, missing, extra)))
    return out


def run_case(case):
    if case["kind"] == "connect-scan":
        return case_scan_on_connect(case)
    if case["kind"] == "interleaved":
        return case_interleaved(case)
    if case["kind"] == "enumtable":
        return case_enumtable(case)
    if case.get("names") is not None:
        cls = _lib()[case["enum"]].InstanceEventFilter
        gone = [nm for nm in case["names"] if nm not in cls.__members__]
        if gone:
            return [("C13:filter-enum-members:" + case["enum"], "dali.device.%s.InstanceEventFilter has no member %r"
                     % (case["enum"], gone))]
    return drive(BUILDERS[case["kind"]](case), case.get("fault"))


# ------------------------------------------------------------ classification ----
def population_features(case):
    f = []
    devs = case["devices"]
    shorts = [d["short"] for d in devs if d["short"] is not None]
    if any(d["status"] & UNHEALTHY for d in devs):
        f.append("unhealthy-device")
    if any(not en for d in devs for (en, t) in d["inst"]):
        f.append("disabled-instance")
    if len(set(shorts)) < len(shorts):
        f.append("duplicate-address")
    if any(d["short"] is None for d in devs):
        f.append("unaddressed-device")
    if any(len(d["inst"]) == 0 for d in devs):
        f.append("device-without-instances")
    if any(len(d["inst"]) == 32 for d in devs):
        f.append("32-instances")
    must, may = selected_addresses(case["selector"])
    if any(s not in may for s in shorts):
        f.append("device-outside-selection")
    return f


def nontrivial(case):
    if case.get("fault"):
        return True
    k = case["kind"]
    if k == "input":
        return case["res"] > 8
    if k in ("setfilter", "queryfilter"):
        return bool(case.get("names")) or (case["enum"] == "gen" and len(case["bits"]) > 8)
    if k == "enumtable":
        return True
    if k == "discover":
        return bool(case.get("before")) or any(x in ("unhealthy-device", "disabled-instance", "duplicate-address")
                                               for x in population_features(case))
    return False


def classify(case):
    k = case["kind"]
    labs = []
    if k == "input":
        labs.append("input:%d-byte" % ((case["res"] + 7) // 8))
    elif k in ("setfilter", "queryfilter"):
        w = width_of(len(case["bits"])) if case["enum"] == "gen" else 8
        labs.append("%s:%s:%d-bit%s" % (k, case["enum"], w, ":by-name" if case.get("names") is not None else ""))
    elif k == "enumtable":
        labs.append("filter-enum-table:" + case["enum"])
    elif k == "scheme":
        labs.append("scheme:" + ("valid" if 0 <= case["scheme"] <= 4 else "invalid"))
    else:
        n = len(case["devices"])
        labs.append("discover:%s-devices" % ("0" if n == 0 else "1-4" if n <= 4 else "5-16" if n <= 16 else "17-64"))
        labs.append("discover:selector-" + case["selector"][0])
        labs += ["discover:" + x for x in population_features(case)]
        if case.get("clear_when") and not case.get("before"):
            labs.append("discover:table-cleared-as-the-scan-starts")
        if case.get("before"):
            labs.append("discover:mapper-used-before:%s:%s" % (case["before"]["how"], "cleared" if case["before"].get("clear", True) else "kept"))
            for h, k in case["before"].get("abandon") or ():
                labs.append("discover:earlier-scan-abandoned:%s:%s" % (h, "not-started" if k == 0 and h != "bad-address" else "started"))
    if case.get("fault"):
        labs.append("%s:fault-%s" % (k, case["fault"][1]))
    return labs


# ------------------------------------------------------------------ strategies ----
def fault_st(p=4):
    return st.one_of(*([st.none()] * p + [st.tuples(st.integers(0, 400), st.sampled_from(["silence", "garble"])).map(list)]))


@st.composite
def input_st(draw):
    res = draw(st.one_of(st.integers(1, 32), st.integers(9, 32), st.integers(13, 32)))
    top = (1 << res) - 1
    value = draw(st.one_of(st.integers(0, top), st.sampled_from([0, 1, top, top >> 1, (top >> 1) + 1, 0x55555555 & top,
                                                                 0xAAAAAAAA & top, 0x01020304 & top, 0x80808080 & top])))
    filler = draw(st.one_of(st.just("repeat"), st.integers(0, 0xFF), st.sampled_from([0, 0xFF, 0x55, 0xAA])))
    return {"kind": "input", "res": res, "value": value, "pass_res": draw(st.booleans()), "filler": filler,
            "dev": draw(st.integers(0, 63)), "inst": draw(st.sampled_from([0, 0, 1, 5, 30])), "as_int": draw(st.sampled_from([False, True, "dev", "inst"])),
            "next": draw(st.one_of(st.none(), st.integers(0, top))), "fault": draw(fault_st())}


@st.composite
def gen_bits_st(draw):
    n = draw(st.one_of(st.integers(9, 16), st.integers(17, 24), st.integers(1, 8)))
    w = width_of(n)
    if draw(st.booleans()):
        return list(range(n))
    return sorted(draw(st.permutations(list(range(w))))[:n])


@st.composite
def filter_st(draw):
    which = draw(st.sampled_from(["gen", "gen", "gen", "pushbutton", "occupancy", "light", "int"]))
    case = {"enum": which, "dev": draw(st.integers(0, 63)), "inst": draw(st.sampled_from([0, 0, 2, 31])),
            "as_int": draw(st.sampled_from([False, True, "dev", "inst"])), "fault": draw(fault_st())}
    if which == "gen":
        case["bits"] = draw(gen_bits_st())
        positions = case["bits"]
        width = width_of(len(positions))
    else:
        positions = list(range(8)) if which == "int" else LIB_ENUMS[which]
        width = 8
    sub = draw(st.lists(st.sampled_from(positions), unique=True, max_size=len(positions)))
    value = sum(1 << b for b in sub)
    if which == "int" or draw(st.booleans()):
        # setting (a plain int has no filter type to query with)
        case["kind"] = "setfilter"
        case["value"] = value
        hi, md, lo = (value >> 16) & 0xFF, (value >> 8) & 0xFF, value & 0xFF
        case["stale"] = [draw(st.sampled_from([0, 0xFF, lo, lo ^ 0xFF])), draw(st.sampled_from([0, 0xFF, md, md ^ 0xFF, 0x5A])),
                         draw(st.sampled_from([0, 0xFF, hi, hi, hi ^ 0xFF, 0xC3]))]
        case["mask"] = draw(st.one_of(st.none(), st.none(), st.integers(0, (1 << width) - 1)))
        # what the unit reports may differ from the request in both directions
        beh = draw(st.one_of(st.none(), st.tuples(st.sampled_from(["force", "force", "force-bit", "keeps", "prev"]),
                                                  st.integers(0, (1 << width) - 1))))
        if beh is not None:
            if beh[0] in ("force", "force-bit"):
                case["force"] = beh[1] if beh[0] == "force" else 1 << positions[beh[1] % len(positions)]
            else:
                case["keeps"] = beh[0] == "keeps"
                case["prev"] = beh[1]
    else:
        case["kind"] = "queryfilter"
        case["unit"] = draw(st.one_of(st.integers(0, (1 << width) - 1), st.just(value)))
        case["via_module"] = draw(st.booleans())
    return case


@st.composite
def scheme_st(draw):
    s = draw(st.one_of(st.integers(0, 4), st.integers(0, 4), st.integers(5, 255), st.sampled_from([-1, 256, 257, 1000, -128])))
    return {"kind": "scheme", "scheme": s, "as_enum": draw(st.booleans()), "initial": draw(st.integers(0, 4)),
            "refuse": draw(st.lists(st.integers(0, 4), unique=True, max_size=2)), "stale0": draw(st.sampled_from([0, 3, 0xFF])),
            "dev": draw(st.integers(0, 63)), "inst": draw(st.sampled_from([0, 0, 3, 31])), "as_int": draw(st.sampled_from([False, True, "dev", "inst"])),
            "fault": draw(fault_st())}


STATUS_HEALTHY = [0x00, 0x00, 0x01, 0x02, 0x08, 0x10, 0x20, 0x3B, 0x29]
STATUS_BAD = [0x04, 0x40, 0x44, 0x45, 0x7F, 0x60]


@st.composite
def population_st(draw):
    n = draw(st.one_of(st.integers(0, 3), st.integers(0, 3), st.integers(0, 8), st.integers(0, 20), st.integers(40, 64)))
    big = n > 20
    addrs = draw(st.permutations(list(range(64))))[:n]
    devs = []
    for k in range(n):
        short = addrs[k]
        tweak = draw(st.integers(0, 19))
        if tweak == 0:
            short = None
        elif tweak == 1 and k:
            short = devs[draw(st.integers(0, k - 1))]["short"]
        status = draw(st.sampled_from(STATUS_HEALTHY)) if draw(st.integers(0, 3)) else draw(st.sampled_from(STATUS_BAD))
        ni = draw(st.one_of(st.integers(0, 2), st.integers(0, 5)) if big else
                  st.one_of(st.integers(0, 4), st.integers(0, 4), st.integers(0, 32), st.just(32)))
        inst = [[draw(st.integers(0, 4)) != 0, draw(st.one_of(st.integers(0, 31), st.sampled_from([0, 1, 3, 4, 31])))]
                for _ in range(ni)]
        devs.append({"short": short, "status": status, "inst": inst})
    k = draw(st.sampled_from(["default", "int", "pair", "list", "gen", "tuple"]))
    if k == "default":
        sel = ["default"]
    elif k == "int":
        sel = ["int", draw(st.one_of(st.integers(0, 64), st.sampled_from([0, 1, 63, 64])))]
    elif k == "pair":
        s = draw(st.integers(0, 63))
        sel = ["pair", s, draw(st.integers(s, 63))]
    else:
        lst = draw(st.lists(st.integers(0, 63), max_size=12 if not big else 64))
        if n and draw(st.booleans()):
            lst = lst + [d["short"] for d in devs[:8] if d["short"] is not None]
        if k == "tuple" and len(lst) == 2:
            lst = lst + [lst[0]]
        sel = [k, lst]
    case = {"kind": "discover", "devices": devs, "selector": sel, "fault": draw(fault_st(2))}
    # the other iterables a caller may pass for "an iterable of ints"
    if sel[0] in ("list", "gen"):
        form = draw(st.sampled_from(["same", "same", "iter", "map", "filter", "range"]))
        if form == "range":
            lo = draw(st.integers(0, 63))
            sel[0], sel[1] = "range", list(range(lo, draw(st.integers(lo, min(63, lo + 12))) + 1))
        elif form != "same":
            sel[0] = form
    if draw(st.integers(0, 4)) == 0:
        case["clear_when"] = "start"
    # the mapper object was in use before: another population (overlapping addresses, other types), then clear()
    if draw(st.integers(0, 3)) == 0:
        earlier = []
        for d in devs[:6]:
            what = draw(st.integers(0, 3))
            if what == 0:
                continue
            e = {"short": d["short"], "status": 0 if what == 1 else d["status"],
                 "inst": [[True, (t + what) % 32] for (en, t) in d["inst"]][:6] + ([[True, 7]] if what == 3 else [])}
            earlier.append(e)
        if draw(st.booleans()):
            earlier.append({"short": draw(st.integers(0, 63)), "status": 0, "inst": [[True, draw(st.integers(0, 31))]]})
        shorts = [e["short"] for e in earlier if e["short"] is not None]
        case["before"] = {"how": draw(st.sampled_from(["initial", "add_type", "scan", "fresh"])), "devices": earlier,
                          "selector": ["list", shorts] if shorts and draw(st.booleans()) else ["default"],
                          "clear": draw(st.sampled_from([True, True, True, False]))}
        if draw(st.booleans()):
            # scans that were started on this mapper and never finished
            case["before"]["abandon"] = draw(st.lists(
                st.tuples(st.sampled_from(ABANDON_KINDS), st.one_of(st.integers(0, 6), st.integers(0, 80))).map(list),
                min_size=1, max_size=2))
    return case


def discover_reducer(case):
    """Smaller variants of a discovery case, most aggressive first (see harness.hyp.greedy_reduce)."""
    import copy
    n = len(case["devices"])
    if n > 1:
        for i in range(n):
            c = copy.deepcopy(case)
            c["devices"] = [c["devices"][i]]
            yield c
        for i in range(n - 1, -1, -1):
            c = copy.deepcopy(case)
            del c["devices"][i]
            yield c
    for i in range(n):
        k = len(case["devices"][i]["inst"])
        for keep in sorted({k // 2, k - 1}):
            if 0 <= keep < k:
                c = copy.deepcopy(case)
                c["devices"][i]["inst"] = c["devices"][i]["inst"][:keep]
                yield c
    if case["selector"][0] in ITERABLE_FORMS and case["selector"][1]:
        c = copy.deepcopy(case)
        c["selector"][1] = c["selector"][1][:-1]
        if not (c["selector"][0] == "tuple" and len(c["selector"][1]) == 2):
            yield c
    for i in range(n):
        if case["devices"][i]["status"] not in (0, 0x04, 0x40):
            c = copy.deepcopy(case)
            c["devices"][i]["status"] &= 0x44
            yield c


# ---------------------------------------------------------------------- shards ----
FILLERS = ["repeat", 0, 0xFF, 0xA5]
STALES = [[0, 0, 0], [0xFF, 0xFF, 0xFF], [0xA5, 0x5A, 0x3C]]
GEN_BITS = [list(range(9)), list(range(12)), list(range(16)), [0, 1, 2, 3, 5, 8, 9, 13, 15],
            list(range(17)), list(range(20)), list(range(24)), [0, 1, 2, 3, 4, 5, 6, 7, 8, 9, 10, 11, 12, 13, 14, 18, 23]]

FIXED_POPULATIONS = [
    [],
    [{"short": 0, "status": 0, "inst": [[True, 1]]}],
    [{"short": 63, "status": 0x01, "inst": [[True, 1], [False, 3], [True, 4], [True, 31]]},
     {"short": 7, "status": 0x04, "inst": [[True, 1], [True, 2]]},
     {"short": 8, "status": 0x40, "inst": [[True, 5]]},
     {"short": 9, "status": 0x3B, "inst": []},
     {"short": 10, "status": 0x00, "inst": [[False, 6], [False, 7]]},
     {"short": None, "status": 0x00, "inst": [[True, 8]]},
     {"short": 12, "status": 0x00, "inst": [[True, 9]]},
     {"short": 12, "status": 0x00, "inst": [[True, 10]]}],
    [{"short": 3, "status": 0x20, "inst": [[k % 3 != 0, k] for k in range(32)]}],
    [{"short": a, "status": [0, 0x01, 0x04, 0x10, 0x40, 0x08][a % 6], "inst": [[a % 5 != 0, a % 32], [a % 7 != 0, (a * 3) % 32]]}
     for a in range(64)],
]
FIXED_SELECTORS = [["default"], ["int", 0], ["int", 13], ["int", 64], ["pair", 0, 63], ["pair", 7, 12], ["pair", 63, 63],
                   ["list", [63, 12, 3, 7, 8, 9, 10]], ["gen", [0, 3, 63]], ["tuple", [12, 10, 63]], ["list", []],
                   ["iter", [63, 12, 3, 0]], ["map", [7, 8, 63, 3]], ["filter", [0, 3, 12, 63]], ["range", list(range(3, 13))],
                   ["range", [63]], ["gen", []], ["iter", [10, 10, 63]]]


# --------------------------------------------------- several sequences in flight ----
def _inter(jobs, schedule, cycle=None):
    return {"kind": "interleaved", "jobs": jobs, "schedule": list(schedule), "cycle": list(cycle or [])}


# (schedule, cycle) for two sequences: the schedule is used first, then the cycle repeatedly; a cycle naming only a
# finished sequence falls back to round-robin (so ([0, 0], [1]) = #0 advances twice, then #1 runs from start to end
# inside #0, then #0 finishes, and ([], [0]) = strictly one after the other)
PAIR_ORDERS = [
    ([], [0, 1]), ([], [1, 0]),                                                 # round-robin, reversed
    ([], [0, 0, 1, 1]), ([], [1, 1, 0, 0]), ([], [0, 0, 0, 1, 1, 1]), ([], [1, 1, 1, 0, 0, 0]),    # blocks of 2 / 3
    ([], [0, 1, 1]), ([], [0, 0, 1]), ([], [0, 1, 1, 1]),                         # uneven speeds
    ([0], [1, 0]), ([0, 0], [1, 0]), ([0, 0, 0], [1, 0]), ([1], [0, 1]), ([1, 1, 1], [0, 1]),      # head starts
    ([0], [1]), ([0, 0], [1]), ([0, 0, 0], [1]), ([0] * 5, [1]),                  # #1 completely inside #0
    ([1], [0]), ([1, 1], [0]), ([1, 1, 1], [0]), ([1] * 5, [0]),                  # #0 completely inside #1
    ([], [0]), ([], [1]),                                                       # strictly sequential
]
TRIPLE_ORDERS = [([], [0, 1, 2]), ([], [2, 1, 0]), ([], [1, 2, 0]), ([0], [2, 1, 0]), ([0, 0], [1, 2, 0]), ([0, 1], [2, 0, 1]),
                 ([], [0, 0, 1, 1, 2, 2]), ([0, 1, 1], [2, 0, 1]), ([0, 0, 0, 1], [2, 1, 0]), ([0], [1, 2]), ([0, 1], [2]),
                 ([], [0, 0, 0, 1, 1, 1, 2, 2, 2]), ([], [0])]


def eight_orders():
    """Every order of the first eight advances of two sequences in which each advances four times."""
    out = []
    for ones in itertools.combinations(range(8), 4):
        out.append([1 if i in ones else 0 for i in range(8)])
    return out


POP_A = FIXED_POPULATIONS[2]
# the same addresses as POP_A hold other things on the other line
POP_B = [{"short": 63, "status": 0x00, "inst": [[True, 4], [True, 3], [False, 1]]},
         {"short": 7, "status": 0x00, "inst": [[True, 6]]},
         {"short": 12, "status": 0x08, "inst": [[True, 2], [True, 2]]},
         {"short": 3, "status": 0x40, "inst": [[True, 1]]}]


def palette(seed, extra):
    """Cases that address the same device and instance (5 / 0, the builders' default) on their separate buses but
    carry different values, widths and stale DTR contents; `extra` further seed-derived ones."""
    def m(k):
        return (seed * 40503 + k * 25717 + 0x1234) & 0xFFFFFFFF

    def sf(enum, value, stale, bits=None, mask=None, fault=None, as_int=False):
        c = {"kind": "setfilter", "enum": enum, "value": value, "stale": stale, "mask": mask, "as_int": as_int, "fault": fault}
        if bits is not None:
            c["bits"] = bits
        return c

    def qf(enum, unit, bits=None, via=False, fault=None):
        c = {"kind": "queryfilter", "enum": enum, "unit": unit, "via_module": via, "as_int": bool(unit & 1), "fault": fault}
        if bits is not None:
            c["bits"] = bits
        return c

    def sc(scheme, initial, as_enum=True, refuse=(), stale0=0xFF, fault=None):
        return {"kind": "scheme", "scheme": scheme, "as_enum": as_enum, "initial": initial, "refuse": list(refuse),
                "stale0": stale0, "as_int": not as_enum, "fault": fault}

    def iv(res, value, pass_res, filler="repeat", nxt=None, fault=None):
        return {"kind": "input", "res": res, "value": value, "pass_res": pass_res, "filler": filler, "as_int": bool(res & 1),
                "next": nxt, "fault": fault}

    def dv(devices, selector, fault=None):
        return {"kind": "discover", "devices": devices, "selector": selector, "fault": fault}

    b12, b16, b17, b24 = list(range(12)), list(range(16)), list(range(17)), list(range(24))
    jobs = [
        sf("int", 0x4D, [0xFF, 0xFF, 0xFF], as_int=True), sf("pushbutton", 0x96, [0, 0, 0]), sf("occupancy", 0x1B, [0xA5, 0x5A, 0x3C]),
        sf("gen", 0xA5C, [0x11, 0x22, 0x33], b12), sf("gen", 0x8001, [0xFF, 0xFF, 0xFF], b16), sf("gen", 0xC35A96, [0, 0, 0], b24),
        sf("gen", 0x3CA569, [0xA5, 0x5A, 0x3C], b24, mask=0xFFFF0F), sf("gen", 0x10001, [0x00, 0xFF, 0xFF], b17),
        sf("gen", 0x5A96C3, [0x11, 0x22, 0x5A], b24, fault=[1, "garble"]),
        qf("pushbutton", 0xE7, via=True), qf("light", 0x01), qf("gen", 0x5A3, b12), qf("gen", 0x123456, b24),
        qf("gen", 0xFEDCBA, b24), qf("gen", 0x10203, b17, fault=[1, "silence"]),
        sc(3, 0), sc(1, 4, as_enum=False), sc(2, 0, refuse=[2], stale0=3), sc(7, 2, as_enum=False, stale0=0), sc(0, 3, stale0=3),
        sc(4, 1, fault=[0, "garble"]),
        iv(3, 5, True), iv(8, 0xA7, False), iv(12, 0xABC, False), iv(16, 0x1234, True), iv(20, 0xF0F0F, False, filler=0),
        iv(24, 0x123456, True, filler=0xFF), iv(32, 0xDEADBEEF, False), iv(32, 0x01020304, True), iv(9, 0x155, False, nxt=0x0AA),
        iv(17, 0x9C3A6E51 & 0x1FFFF, False, fault=[2, "garble"]),
        dv(FIXED_POPULATIONS[1], ["pair", 0, 7]), dv(POP_A, ["list", [63, 12, 3, 7, 8, 9, 10]]), dv(POP_B, ["list", [63, 12, 3, 7]]),
        dv(POP_B, ["gen", [7, 63]]), dv(FIXED_POPULATIONS[3], ["int", 5]), dv(POP_A, ["tuple", [12, 10, 63]], fault=[3, "silence"]),
    ]
    for k in range(extra):
        r = m(10 + 3 * k)
        which = k % 4
        if which == 0:
            bits = [b12, b16, b17, b24, list(range(9)), list(range(20))][(r >> 4) % 6]
            allv = (1 << len(bits)) - 1
            jobs.append(sf("gen", r & allv, [(r >> 24) & 0xFF, (r >> 8) & 0xFF, (r >> 16) & 0xFF], bits))
        elif which == 1:
            bits = [b12, b16, b17, b24][(r >> 4) % 4]
            jobs.append(qf("gen", m(11 + 3 * k) & ((1 << width_of(len(bits))) - 1), bits))
        elif which == 2:
            res = 1 + (r >> 5) % 32
            jobs.append(iv(res, m(11 + 3 * k) & ((1 << res) - 1), bool(r & 1), filler=["repeat", 0, 0xFF, 0xA5][(r >> 1) % 4]))
        else:
            jobs.append(sc((r >> 3) % 5, (r >> 7) % 5, as_enum=bool(r & 1), stale0=(r >> 10) & 0xFF))
        if k % 8 >= 4:
            # other lines address other devices and instances
            jobs[-1]["dev"], jobs[-1]["inst"] = (r >> 12) % 64, [1, 2, 5, 31][(r >> 18) % 4]
    return jobs


def _differ(case):
    return any(j != case["jobs"][0] for j in case["jobs"][1:])


def _kinds(case):
    return "+".join(j["kind"] for j in case["jobs"])


def _long(job):
    """Does the sequence put at least four commands on the bus?"""
    k = job["kind"]
    if k == "setfilter":
        return True
    if k == "input":
        return job["res"] > 16 or (job["res"] > 8 and not job.get("pass_res"))
    return k == "discover"


@st.composite
def small_population_st(draw):
    """A discovery case on a small line whose devices sit at a handful of addresses (so that two lines hold different
    things at the same address)."""
    n = draw(st.integers(0, 4))
    devs = []
    for k in range(n):
        short = draw(st.sampled_from([0, 3, 7, 63, 63, None]))
        status = draw(st.sampled_from(STATUS_HEALTHY)) if draw(st.integers(0, 3)) else draw(st.sampled_from(STATUS_BAD))
        inst = [[draw(st.integers(0, 4)) != 0, draw(st.integers(0, 31))] for _ in range(draw(st.integers(0, 4)))]
        devs.append({"short": short, "status": status, "inst": inst})
    sel = draw(st.sampled_from([["list", [63, 3, 0, 7]], ["gen", [0, 3, 7, 63]], ["pair", 0, 7], ["pair", 60, 63], ["int", 8],
                                ["tuple", [7, 3, 0]], ["list", [3, 3, 63]]]))
    return {"kind": "discover", "devices": devs, "selector": sel, "fault": draw(fault_st(4)),
            "preload": draw(st.booleans())}


@st.composite
def inter_st(draw):
    n = draw(st.sampled_from([2, 2, 3]))
    jobs = [dict(draw(st.one_of(input_st(), input_st(), filter_st(), filter_st(), filter_st(), scheme_st(), small_population_st())))
            for _ in range(n)]
    if draw(st.integers(0, 3)):
        # the same device and instance address on every line
        for j in jobs[1:]:
            if "dev" in j and "dev" in jobs[0]:
                j["dev"], j["inst"] = jobs[0]["dev"], jobs[0]["inst"]
    sched = draw(st.lists(st.integers(0, n - 1), max_size=24))
    cycle = draw(st.one_of(st.just([]), st.permutations(list(range(n))), st.lists(st.integers(0, n - 1), min_size=1, max_size=6)))
    return _inter(jobs, sched, list(cycle))


def _shard_inter(arg):
    what = arg[0]
    res = Result()

    def go(case, label):
        res.count()
        vs = run_case(case)
        if LAST_INTER[0][1] and _differ(case):
            res.nontrivial()
        res.label(label)
        for sig, msg in vs:
            res.violation(sig, case, msg)

    if what == "pairs":
        # every case of the palette as #1 against case number `first` as #0, in every listed advance order
        # (quick tier: every ostride-th order, rotating with the pair, so that neighbouring pairs cover all orders)
        _, seed, extra, first, ostride = arg
        pal = palette(seed, extra)
        a = pal[first]
        for bi, b in enumerate(pal):
            for oi, (sched, cyc) in enumerate(PAIR_ORDERS):
                if (oi + bi + first + seed) % ostride:
                    continue
                c = _inter([a, b], sched, cyc)
                go(c, "interleaved:" + _kinds(c))
        if first == 5:
            res.sample(_inter([pal[5], pal[3]], [0], [1, 0]), cls="interleaved pair")
    elif what == "eight":
        _, seed, extra, stride, offset = arg
        long_ = [j for j in palette(seed, extra) if _long(j)]
        k = 0
        for a in long_:
            for b in long_:
                k += 1
                if k % stride != offset:
                    continue
                for order in eight_orders():
                    c = _inter([a, b], order)
                    go(c, "interleaved:first-eight-advances:" + _kinds(c))
    elif what == "triples":
        _, seed, extra, stride, offset = arg
        pal = palette(seed, extra)
        n = len(pal)
        for i in range(offset, n, stride):
            for d1, d2 in ((1, 2), (5, 11), (13, 7), (0, 9)):
                for sched, cyc in TRIPLE_ORDERS:
                    go(_inter([pal[i], pal[(i + d1) % n], pal[(i + d2) % n]], sched, cyc), "interleaved:three")
        if offset == 0:
            res.sample(_inter([pal[5], pal[12], pal[27]], [], [2, 1, 0]), cls="interleaved triple")
    elif what == "hyp":
        _, seed, n = arg
        hyp.search(inter_st(), run_case, res, n, seed, ID,
                   nontrivial=lambda c: LAST_INTER[0] is not None and LAST_INTER[0][0] == id(c) and LAST_INTER[0][1] and _differ(c),
                   classify=lambda c: ["hyp:interleaved:%d" % len(c["jobs"])] + sorted(set("hyp:interleaved:has-" + j["kind"] for j in c["jobs"])),
                   extra_rounds_budget_s=10.0)
    return res


def boundary_values(res):
    top = (1 << res) - 1
    vals = {0, 1, top, top >> 1, (top >> 1) + 1, 0x55555555 & top, 0xAAAAAAAA & top, 0x01020304 & top, 0xFEFDFCFB & top,
            0x80402010 & top}
    for b in range(res):
        vals.add(1 << b)
        vals.add(top ^ (1 << b))
    return sorted(vals)


def _shard(arg):
    kind = arg[0]
    if kind == "inter":
        return _shard_inter(arg[1:])
    res = Result()

    def run(case, label=None):
        res.count()
        if nontrivial(case):
            res.nontrivial()
        for lab in ([label] if label else classify(case)):
            res.label(lab)
        for sig, msg in run_case(case):
            res.violation(sig, case, msg)

    def with_faults(case):
        """The case itself plus silence / framing error at each of its queries."""
        run(case)
        for k in range(query_steps(case)):
            for fk in ("silence", "garble"):
                c = dict(case)
                c["fault"] = [k, fk]
                run(c)

    if kind == "input-enum":
        _, r, lo, hi, fillers = arg
        for v in range(lo, hi):
            for pr in (True, False):
                for fl in fillers:
                    run({"kind": "input", "res": r, "value": v, "pass_res": pr, "filler": fl, "dev": (v + r) % 64,
                         "inst": v % 3, "as_int": bool(v & 1), "next": None, "fault": None}, label="input:%d-byte" % ((r + 7) // 8))
        res.sample({"kind": "input", "res": r, "value": lo, "pass_res": True, "filler": "repeat"}, cls="input value (enumerated)")
    elif kind == "input-boundary":
        _, rs = arg
        for r in rs:
            for v in boundary_values(r):
                for pr in (True, False):
                    for fl in FILLERS:
                        run({"kind": "input", "res": r, "value": v, "pass_res": pr, "filler": fl, "dev": r, "inst": r % 4,
                             "as_int": bool(r & 1), "next": (v * 7 + 3) & ((1 << r) - 1), "fault": None})
        res.sample({"kind": "input", "res": 27, "value": 0x5555555 & ((1 << 27) - 1), "pass_res": False, "filler": 0xA5},
                   cls="input value (boundary)")
    elif kind == "input-faults":
        for r in (1, 7, 8, 9, 16, 17, 24, 25, 31, 32):
            for pr in (True, False):
                c = {"kind": "input", "res": r, "value": 0x9C3A6E51 & ((1 << r) - 1), "pass_res": pr, "filler": "repeat", "dev": 9,
                     "inst": 1, "as_int": False, "next": None, "fault": None}
                with_faults(c)
        res.sample({"kind": "input", "res": 17, "value": 0x9C3A6E51 & 0x1FFFF, "pass_res": False, "fault": [2, "garble"]},
                   cls="input value under fault")
    elif kind == "setfilter-lib":
        _, name = arg
        positions = list(range(8)) if name == "int" else LIB_ENUMS[name]
        for sub in range(1 << len(positions)):
            value = sum(1 << positions[k] for k in range(len(positions)) if (sub >> k) & 1)
            for si, stale in enumerate(STALES):
                for mask in (None, 0xB6):
                    run({"kind": "setfilter", "enum": name, "value": value, "stale": stale, "mask": mask, "dev": (value + si) % 64,
                         "inst": value % 5, "as_int": bool((value + si) & 1), "fault": None})
                # the unit reports more than / something else than was requested: events it keeps enabled, with or
                # without unimplemented ones; a unit that does not take the filter over and reports its previous one
                f1 = 1 << positions[(value + si) % len(positions)]
                for mask, force, keeps, prev in ((None, f1, False, None), (0xB6, 0x41 if si else f1, False, None),
                                                 (None, 0, True, (value * 7 + 0x35 + si) & 0xFF)):
                    run({"kind": "setfilter", "enum": name, "value": value, "stale": stale, "mask": mask, "force": force,
                         "keeps": keeps, "prev": prev, "dev": (value + si) % 64, "inst": value % 5,
                         "as_int": bool((value + si) & 1), "fault": None}, label="setfilter:%s:8-bit:unit-reports-%s" % (
                             name, "previous-filter" if keeps else "forced-bits"))
        res.sample({"kind": "setfilter", "enum": name, "value": 0x81 if name in ("int", "pushbutton") else 1,
                    "stale": STALES[2], "mask": None}, cls="set filter (8-bit)")
    elif kind == "setfilter-gen":
        _, bits, with_mask = arg
        w = width_of(len(bits))
        allv = sum(1 << b for b in bits)
        vals = {0, allv, allv & 0xFF, allv & 0xFF00, allv & 0xFF0000, allv & 0x555555, allv & 0xAAAAAA, allv & 0x0F0FF0}
        for b in bits:
            vals.add(1 << b)
            vals.add(allv ^ (1 << b))
        for value in sorted(vals):
            lo, md, hi = value & 0xFF, (value >> 8) & 0xFF, (value >> 16) & 0xFF
            for stale in STALES + [[lo ^ 0xFF, md ^ 0xFF, hi], [lo, md, hi ^ 0x01]]:
                for mask in ((None, 0x00F0F3 | (1 << (w - 1))) if with_mask else (None,)):
                    run({"kind": "setfilter", "enum": "gen", "bits": bits, "value": value, "stale": stale, "mask": mask,
                         "dev": value % 64, "inst": len(bits), "as_int": bool(value & 2), "fault": None})
            top = (1 << w) - 1
            for vi, (mask, force, keeps, prev) in enumerate(((None, 0x810204 & top | (1 << (w - 1)), False, None),
                                                             (0xFFF0F3 & top, 1 << bits[len(bits) // 2], False, value),
                                                             (None, 0, True, (value ^ 0x5A5A5A) & top), (None, 0, True, 0x030201 & top))):
                run({"kind": "setfilter", "enum": "gen", "bits": bits, "value": value, "stale": STALES[(vi + len(bits)) % 3],
                     "mask": mask, "force": force, "keeps": keeps, "prev": prev, "dev": value % 64, "inst": len(bits),
                     "as_int": bool(value & 2), "fault": None}, label="setfilter:gen:%d-bit:unit-reports-%s" % (
                         w, "previous-filter" if keeps else "forced-bits"))
        res.sample({"kind": "setfilter", "enum": "gen", "bits": bits, "value": allv & 0xAAAAAA, "stale": STALES[2], "mask": None},
                   cls="set filter (%d-bit generated enum)" % w)
    elif kind == "filter-faults":
        for name, bits, value in (("pushbutton", None, 0x96), ("int", None, 0x4D), ("gen", list(range(12)), 0xA5C),
                                  ("gen", list(range(24)), 0xC35A96), ("gen", list(range(17)), 0x10001)):
            hi = (value >> 16) & 0xFF
            c = {"kind": "setfilter", "enum": name, "value": value, "stale": [0x11, 0x22, hi], "mask": None, "dev": 20, "inst": 2,
                 "as_int": False, "fault": None}
            q = {"kind": "queryfilter", "enum": name, "unit": value ^ 0x030303, "via_module": name == "pushbutton", "dev": 20,
                 "inst": 2, "as_int": True, "fault": None}
            if bits is not None:
                c["bits"] = bits
                q["bits"] = bits
            with_faults(c)
            if name != "int":
                with_faults(q)
        res.sample({"kind": "setfilter", "enum": "gen", "bits": list(range(24)), "value": 0xC35A96, "stale": [0x11, 0x22, 0xC3],
                    "fault": [1, "garble"]}, cls="set filter under fault")
    elif kind == "filter-names":
        # the library's enums used the way callers use them: by member name
        _, name = arg
        run({"kind": "enumtable", "enum": name})
        table = sorted(FILTER_TABLE[name].items(), key=lambda kv: kv[1])
        for sub in range(1 << len(table)):
            names = [nm for k, (nm, bit) in enumerate(table) if (sub >> k) & 1]
            bits = sum(bit for k, (nm, bit) in enumerate(table) if (sub >> k) & 1)
            run({"kind": "setfilter", "enum": name, "names": names, "value": bits, "stale": STALES[sub % 3], "mask": None,
                 "dev": sub % 64, "inst": sub % 3, "as_int": bool(sub & 1), "fault": None})
            run({"kind": "queryfilter", "enum": name, "names": names, "unit": bits, "via_module": bool(sub & 2), "dev": sub % 64,
                 "inst": sub % 4, "as_int": bool(sub & 1), "fault": None})
        res.sample({"kind": "setfilter", "enum": name, "names": [table[0][0], table[-1][0]], "value": table[0][1] | table[-1][1],
                    "stale": STALES[2], "mask": None}, cls="set filter composed by member name")
    elif kind == "queryfilter-lib":
        _, name = arg
        for f in range(256):
            for via in (True, False):
                run({"kind": "queryfilter", "enum": name, "unit": f, "via_module": via, "dev": f % 64, "inst": f % 7,
                     "as_int": bool(f & 1), "fault": None})
        res.sample({"kind": "queryfilter", "enum": name, "unit": 0xE7, "via_module": True}, cls="query filter (8-bit)")
    elif kind == "queryfilter-gen":
        _, bits = arg
        w = width_of(len(bits))
        top = (1 << w) - 1
        vals = {0, top, 0xFF, 0xFF00 & top, 0xFF0000 & top, 0x123456 & top, 0x654321 & top, 0x800001 & top, 0x008100 & top}
        for b in range(w):
            vals.add(1 << b)
            vals.add(top ^ (1 << b))
        for f in sorted(vals):
            run({"kind": "queryfilter", "enum": "gen", "bits": bits, "unit": f, "via_module": False, "dev": f % 64, "inst": 4,
                 "as_int": bool(f & 1), "fault": None})
        res.sample({"kind": "queryfilter", "enum": "gen", "bits": bits, "unit": 0x123456 & top}, cls="query filter (%d-bit)" % w)
    elif kind == "connect-scan":
        case = {"kind": "connect-scan", "driver": arg[1], "map": arg[2] if len(arg) > 2 else "default"}
        res.count()
        res.nontrivial()
        res.label("connect-scan:" + arg[1])
        for sig, msg in case_scan_on_connect(case):
            res.violation(sig, case, msg)
        res.sample(case, cls="scan on connect")
    elif kind == "scheme":
        for initial in range(5):
            for s in range(5):
                for as_enum in (True, False):
                    for refuse in ([], [s], [(s + 1) % 5]):
                        run({"kind": "scheme", "scheme": s, "as_enum": as_enum, "initial": initial, "refuse": refuse, "stale0": 0xFF,
                             "dev": 11 * s + initial, "inst": s + initial, "as_int": not as_enum, "fault": None})
            for s in (5, 6, 7, 8, 100, 254, 255, 256, 1000, -1, -251):
                run({"kind": "scheme", "scheme": s, "as_enum": False, "initial": initial, "refuse": [], "stale0": (initial + 1) % 5,
                     "dev": 4, "inst": 0, "as_int": True, "fault": None})
        for s in range(5):
            with_faults({"kind": "scheme", "scheme": s, "as_enum": True, "initial": (s + 2) % 5, "refuse": [], "stale0": 0,
                         "dev": 30, "inst": 3, "as_int": False, "fault": None})
        res.sample({"kind": "scheme", "scheme": 3, "as_enum": True, "initial": 0, "refuse": [3]}, cls="event scheme")
    elif kind == "discover-fixed":
        _, pi = arg
        pop = FIXED_POPULATIONS[pi]
        for sel in FIXED_SELECTORS:
            run({"kind": "discover", "devices": pop, "selector": sel, "fault": None})
        if pi == 2:
            with_faults({"kind": "discover", "devices": pop, "selector": ["default"], "fault": None})
            res.sample({"kind": "discover", "devices": pop, "selector": ["default"], "fault": [5, "garble"]}, cls="discovery under fault")
        if pi == 3:
            with_faults({"kind": "discover", "devices": pop, "selector": ["pair", 3, 3], "fault": None})
    elif kind == "discover-reuse":
        # ONE mapper object over time: filled (initial= / add_type() / a scan of an earlier population), cleared or
        # not, then this scan; afterwards .mapping, get_type() and decoding must all show exactly what the oracle of a
        # single scan demands (not cleared: entries of the earlier use may remain where this scan did not look)
        _, hi = arg
        pops = FIXED_POPULATIONS[:4] + [POP_B, [{"short": 63, "status": 0, "inst": [[True, 9], [True, 9], [True, 9], [True, 9], [True, 9]]},
                                                {"short": 0, "status": 0, "inst": [[True, 2]]}]]
        how = ["initial", "add_type", "scan"][hi]
        for p1, earlier in enumerate(pops):
            for p2, pop in enumerate(pops):
                for si, sel in enumerate((["default"], ["list", [63, 12, 3, 7, 8, 9, 10, 0]], ["iter", [0, 63]], ["pair", 60, 63])):
                    for clear in (True, False):
                        c = {"kind": "discover", "devices": pop, "selector": sel, "fault": None,
                             "before": {"how": how, "devices": earlier, "selector": [["default"], ["gen", [63, 7, 3, 0]]][(p1 + si) % 2],
                                        "clear": clear}}
                        run(c)
        with_faults({"kind": "discover", "devices": POP_A, "selector": ["map", [63, 12, 7]], "fault": None,
                     "before": {"how": how, "devices": POP_B, "selector": ["default"], "clear": True}})
        res.sample({"kind": "discover", "devices": POP_A, "selector": ["default"], "fault": None,
                    "before": {"how": how, "devices": POP_B, "selector": ["default"], "clear": True}}, cls="mapper re-used after clear()")
    elif kind == "discover-abandoned":
        # ONE mapper object over time: a scan started on it was not run to its end (the driver closed / dropped the
        # sequence or threw into it after n commands, the address list was invalid from position n), perhaps clear()ed,
        # then a complete scan that is judged like any other
        _, hi = arg
        how = ["fresh", "initial", "add_type", "scan"][hi]
        p1, p3 = FIXED_POPULATIONS[1], FIXED_POPULATIONS[3]
        combos = [(POP_B, POP_A, ["default"]), (POP_A, POP_B, ["list", [63, 12, 3, 7, 8, 9, 10, 0]]), (p1, p3, ["int", 5]),
                  (p3, p1, ["pair", 0, 7]), (POP_A, POP_A, ["iter", [63, 12, 7]]), ([], POP_B, ["gen", [7, 63]])]
        for ci, (earlier, pop, sel) in enumerate(combos):
            for ak in ABANDON_KINDS:
                for n in (0, 1, 2, 3, 6, 11, 400):
                    for clear in (True, False):
                        c = {"kind": "discover", "devices": pop, "selector": sel, "fault": None,
                             "before": {"how": how, "devices": earlier, "selector": [["default"], ["gen", [63, 7, 3, 0]]][(ci + n) % 2],
                                        "clear": clear, "abandon": [[ak, n]] if n != 11 else [[ak, 2], [ABANDON_KINDS[ci % 4], n]]}}
                        run(c)
        with_faults({"kind": "discover", "devices": POP_A, "selector": ["map", [63, 12, 7]], "fault": None,
                     "before": {"how": how, "devices": POP_B, "selector": ["default"], "clear": True, "abandon": [["close", 5]]}})
        res.sample({"kind": "discover", "devices": POP_A, "selector": ["default"], "fault": None,
                    "before": {"how": how, "devices": POP_B, "selector": ["default"], "clear": True, "abandon": [["close", 5]]}},
                   cls="mapper on which an earlier scan was abandoned")
    elif kind == "hyp":
        _, seed, n = arg

        def guarded(case):
            out = []
            for v in run_case(case):
                if v[0] in DETERMINISTIC_SIGS:
                    res.excluded[v[0]] += 1
                else:
                    out.append(v)
            return out
        hyp.search(input_st(), guarded, res, n, seed, ID, nontrivial=nontrivial, classify=classify)
        hyp.search(filter_st(), guarded, res, n, seed + 1, ID, nontrivial=nontrivial, classify=classify)
        hyp.search(scheme_st(), guarded, res, max(20, n // 4), seed + 2, ID, nontrivial=nontrivial, classify=classify)
    elif kind == "hyp-discover":
        _, seed, n = arg
        found = hyp.search(population_st(), run_case, res, n, seed, ID, nontrivial=nontrivial, classify=classify,
                           shrink=False, reducer=discover_reducer)
        # the reducer keeps the message of the unreduced case: refresh it from the case that is reported
        for sig in found:
            v = res.violations.get(sig)
            if v is not None:
                for s2, m2 in run_case(v["case"]):
                    if s2 == sig:
                        v["msg"] = m2
    return res


def case_scan_on_connect(case):
    """The serial drivers' connect(scan_dev_inst=True) runs the discovery scan itself: every short address 0..63 is
    asked for its status, inside the quiescent-mode bracket.  case: {"kind": "connect-scan", "driver": "luba"|"sci"}"""
    from harness.gateways_serial import SerialSim
    from dali import command as _cmd, frame as _fr
    from dali.device.helpers import DeviceInstanceTypeMapper
    from dali.device import general as _dg
    from dali.address import DeviceShort, InstanceNumber
    drv = case["driver"]
    # whose table: the driver's own default, or one the program hands to the constructor (empty, or already holding
    # an entry of another device) and keeps a reference to - the scan's findings must be readable there
    whose = case.get("map", "default")
    mine = None
    if whose != "default":
        mine = DeviceInstanceTypeMapper()
        if whose == "own-prefilled":
            mine.add_type(short_address=61, instance_number=0, instance_type=1)
    sim = SerialSim(drv, driver_kwargs=None if mine is None else {"dev_inst_map": mine})
    population = {3: [(True, 1), (False, 4), (True, 3)], 40: [(True, 4)], 63: [(True, 1)]}
    for a, insts in population.items():
        sim.expect(_dg.QueryDeviceStatus(device=DeviceShort(a)), ("value", 0))
        sim.expect(_dg.QueryNumberOfInstances(device=DeviceShort(a)), ("value", len(insts)))
        for i, (en, t) in enumerate(insts):
            sim.expect(_dg.QueryInstanceEnabled(device=DeviceShort(a), instance=InstanceNumber(i)), ("value", 0xFF) if en else ("silent",))
            sim.expect(_dg.QueryInstanceType(device=DeviceShort(a), instance=InstanceNumber(i)), ("value", t))
    expected = {(a, i): t for a, insts in population.items() for i, (en, t) in enumerate(insts) if en}
    if whose == "own-prefilled":
        expected[(61, 0)] = 1
    out = []
    try:
        # another part of the program waits for the connection and then sends at once: the scan is a transaction like any
        # other, the frame goes out before or after it, not inside
        from dali.gear import general as _gg
        other_cmd = _gg.DAPC(9, 77)

        async def other():
            await sim.driver.wait_connected()
            return await sim.driver.send(other_cmd)
        t_other = sim.loop.create_task(other())
        sim.tasks.append(t_other)
        task = sim.loop.create_task(sim.driver.connect(scan_dev_inst=True))
        sim.tasks.append(task)
        sim.drain(max_rounds=20000, max_virtual=600.0)
        if not task.done():
            return [("C13:connect-scan-hangs:" + drv, "connect(scan_dev_inst=True) still running after 600 s of virtual time")]
        if task.exception() is not None:
            e = task.exception()
            return [("C13:connect-scan-raised:%s:%s" % (drv, type(e).__name__), "%r (in %s)" % (e, library_frame(e.__traceback__)))]
        names = []
        for w in sim.gw.wire:
            if w.get("kind") != "send":
                continue
            c = _cmd.from_frame(_fr.ForwardFrame(w["bits"], w["value"]))
            names.append((type(c).__name__, getattr(getattr(c, "destination", None), "address", None)))
        asked = [a for (n, a) in names if n == "QueryDeviceStatus"]
        if sorted(set(asked)) != list(range(64)):
            missing = sorted(set(range(64)) - set(asked))
            out.append(("C13:connect-scan-addresses:" + drv, "the scan run by connect(scan_dev_inst=True) asked %d addresses; "
                        "never asked: %r" % (len(set(asked)), missing)))
        kinds = [n for (n, a) in names]
        if "StartQuiescentMode" not in kinds or "StopQuiescentMode" not in kinds or \
                kinds.index("StartQuiescentMode") > kinds.index("QueryDeviceStatus") if "QueryDeviceStatus" in kinds else False:
            out.append(("C13:discover-quiescent-bracket:connect-scan", "frames sent by connect(scan_dev_inst=True): %r" % (kinds[:6],)))
        if not t_other.done() or t_other.exception() is not None:
            out.append(("C13:connect-scan-starves-other-caller:" + drv, "a caller that waited for the connection and sent one "
                        "command: %s" % ("still pending" if not t_other.done() else repr(t_other.exception()))))
        elif "StartQuiescentMode" in kinds and "StopQuiescentMode" in kinds and ("DAPC", 9) in names:
            i_o = names.index(("DAPC", 9))
            i_a, i_b = kinds.index("StartQuiescentMode"), len(kinds) - 1 - kinds[::-1].index("StopQuiescentMode")
            if i_a < i_o < i_b:
                out.append(("C13:frame-of-another-caller-inside-the-scan:" + drv, "a caller that waited for the connection sent DAPC(9): it "
                            "is frame %d on the wire, the scan's frames are %d..%d" % (i_o, i_a, i_b)))
        # what the scan found is in the table the program can see: the one it handed over, and driver.dev_inst_map
        for label, table in (("the table handed to the constructor", mine), ("driver.dev_inst_map", getattr(sim.driver, "dev_inst_map", None))):
            if table is None:
                if label == "driver.dev_inst_map":
                    out.append(("C13:connect-scan-table-missing:" + drv, "driver.dev_inst_map is None after the scan"))
                continue
            got = dict(table.mapping)
            if got != expected:
                out.append(("C13:connect-scan-findings-not-in-the-table:%s:%s" % (drv, whose),
                            "after connect(scan_dev_inst=True) %s (%s) holds %r, the bus holds %r" % (label, whose, got, expected)))
        if mine is not None and getattr(sim.driver, "dev_inst_map", None) is not mine:
            out.append(("C13:connect-scan-table-replaced:%s:%s" % (drv, whose), "driver.dev_inst_map is not the object given as dev_inst_map="))
    finally:
        sim.close()
    return out


def run(ctx):
    q, s = ctx.quick, ctx.seed
    shards = []
    for whose in ("default", "own-empty", "own-prefilled"):
        shards.append(("connect-scan", "luba", whose))
        shards.append(("connect-scan", "sci", whose))
    complete = 12 if q else 16
    fillers_q = ["repeat", [0, 0xFF, 0xA5][s % 3], [0xFF, 0xA5, 0][s % 3]]
    for r in range(1, complete + 1):
        size = 1 << r
        step = 2048 if q else 4096
        for lo in range(0, size, step):
            shards.append(("input-enum", r, lo, min(size, lo + step), fillers_q if q else FILLERS))
    rest = list(range(complete + 1, 33))
    for k in range(0, len(rest), 4):
        shards.append(("input-boundary", rest[k:k + 4]))
    shards.append(("input-faults",))
    for name in ("pushbutton", "occupancy", "light", "int"):
        shards.append(("setfilter-lib", name))
    for name in ("pushbutton", "occupancy", "light"):
        shards.append(("queryfilter-lib", name))
        shards.append(("filter-names", name))
    for bits in GEN_BITS:
        shards.append(("setfilter-gen", bits, not q))
        shards.append(("queryfilter-gen", bits))
    shards.append(("filter-faults",))
    shards.append(("scheme",))
    for pi in range(len(FIXED_POPULATIONS)):
        shards.append(("discover-fixed", pi))
    for hi in range(3):
        shards.append(("discover-reuse", hi))
    for hi in range(4):
        shards.append(("discover-abandoned", hi))
    for k in range(16):
        shards.append(("hyp", s * 1000 + k, 500 if q else 6000))
        shards.append(("hyp-discover", s * 1000 + 500 + k, 120 if q else 2000))
    # several sequences in flight at the same time, each on its own bus
    extra = 8 if q else 40
    npal = len(palette(s, extra))
    for first in range(npal):
        shards.append(("inter", "pairs", s, extra, first, 4 if q else 1))
    for k in range(8):
        if k < 4 or not q:
            shards.append(("inter", "eight", s, extra, 80 if q else 8, (s + k) % 8))
        shards.append(("inter", "triples", s, extra, 8, k))
    for k in range(16):
        shards.append(("inter", "hyp", s * 1000 + 700 + k, 60 if q else 1500))
    # longest first
    order = {"hyp-discover": 0, "hyp": 1, "discover-fixed": 2, "input-enum": 3}
    shards.sort(key=lambda a: order.get(a[0], 4))
    ctx.pmap(_shard, shards)
    ctx.result.extra["sequences_in_flight"] = ("ordered pairs of a %d-case palette x %d advance orders, first-eight-advance orders, "
                                               "triples, Hypothesis sample (not exhaustive)" % (npal, len(PAIR_ORDERS)))
    ctx.result.exhaustive = False
    ctx.result.extra["input_values_complete_up_to_bits"] = complete
    ctx.result.extra["generated_filter_enums"] = len(GEN_BITS)
