"""C18 - bytes exchanged with each gateway follow that gateway's wire format.

Drivers: tridonic-hid, hasseb-hid (dali.driver.hid), luba, sci (dali.driver.serial), daliserver, atx,
legacy-tridonic, legacy-hasseb, unipi.  Nothing talks to hardware: the HID drivers get a fake `os`, the
serial protocols a recording transport whose write() answers at once like the gateway would, daliserver a
fake socket module, the ATX hat a fake `serial.Serial`, the legacy drivers the import stubs of
harness/stubs; construct()/extract() are called directly where they exist.

Parts (all deterministic; VERIF_SEED only moves the strides/offsets of the quick tier):
  encode   every 16-bit frame through Command.from_frame (all 2^16 in thorough, a seed-offset stride in quick),
           application extended opcodes for device types 1..8 and sampled 24-bit frames of every decodable
           class, for every driver: bytes handed to the transport == harness.ref_wire reference, byte for byte
  length   generic commands of 8, 9, 12, 15, 17, 20, 23, 25, 32 bits (and 16, 24): refused unless the
           gateway has an encoding for that length, in which case the bytes must be the reference's
  seq      700 consecutive sends per driver with sequence numbers, from several starting points
  seqmix   histories that interleave send()/construct() with the driver's other packet-producing public operations
           (legacy hasseb sync + async: enableSniffing, disableSniffing, readFirmwareVersion; legacy Tridonic base /
           sync / async: construct and send; Tridonic HID: power_supply): every ordered triple of operations at five
           starting points incl. the wrap, and 700-operation mixtures; every two consecutive packets that carry a
           sequence number carry different, in-range ones
  decode   every status/type code of each gateway's report format x payload values -> what the driver
           reports (backward frame value / no answer / framing error / forward frame) == reference decoder;
           LUBA / SCI: every code once more behind a packet with a damaged checksum
  decode-hist  LUBA / SCI: every status/type code once more, decoded by a CONNECTED driver (connect(), send() on the
           harness's virtual-time loop, harness.gateways_serial) in whose receiver left-over packets of an earlier
           exchange sit when send() starts - extra status / 'DALI NO' / error reports, stale backward frames, observed
           frames, bus errors, device info - after no / an unanswered / an answered earlier exchange; the gateway's
           confirmation and answer arrive with latencies inside the protocol's windows: the command still gets its own
           confirmation and answer
  observe-seq  Tridonic HID watcher: a command that needs a repeat / an answer directly followed by other forward
           frames (no timer involved): every forward frame is reported, a properly repeated configuration command once
  unipi-bus  the UniPi driver on every channel of the unit (constructor option bus=0..3) against a register-level
           model of the gateway: register numbers written (send pair) and read (receive triple, framing-error
           counter) == ref_wire.UNIPI_REGS, and the answer that comes back through them; the 16-bit receive and
           framing-error counters start at 0, 1, 2, 0x7FFF, 0x8000, 65533..65535 (and a seed value) and move by 1, 2,
           0x8000, -1 or exactly to 0 (wrap / channel restart) between the reading before the command and the answer
"""
import asyncio
import logging

from harness import ref_wire as RW
from harness.runner import Result, library_frame

ID = "C18"
LEVEL = "exploration"
RULE = ("one case = (driver, frame bits, frame value, device type) for encode/length, (driver, start) for seq, "
        "(driver, start, word over the driver's packet-producing operations) for seqmix, "
        "(driver, type/status code, payload[, damaged packet in front]) for decode, (driver, code, payload, earlier "
        "exchange, left-over packets, latencies) for decode-hist, (packet sequence) for observe-seq, (UniPi channel, frame, scripted "
        "answer) for unipi-bus; distinct by construction (enumeration); non-trivial = the "
        "driver accepted the command and its bytes were compared, or a gateway report was decoded and compared, or a "
        "refusal was required (lengths the gateway cannot carry)")
ASSUMPTIONS = list(RW.ASSUMPTIONS) + [
    "a driver may refuse any frame length it does not implement (e.g. legacy Tridonic: 24 bit 'not yet'); it must "
    "refuse lengths for which the gateway has no encoding; LUBA = {16, 24}, SCI = {8, 16, 24} (the drivers' own "
    "docstrings), hasseb/daliserver/legacy hasseb = {16}, Tridonic = {8, 16, 17, 24, 25}, ATX = {8, 16, 24, 25}, "
    "UniPi = {16, 24}",
    "'send twice' is signalled by the protocol's flag where one exists, otherwise by writing the packet twice; for "
    "UniPi both the flag and a second register write are accepted (cannot be checked against the firmware)",
    "LUBA priority: 2 for direct arc power and for addressed 16-bit gear commands that are neither answered nor sent "
    "twice, 5 otherwise (the driver's stated rule, re-derived from frame bits and the command's response/sendtwice "
    "flags); for frames that decode to no known command either priority is accepted",
    "receive side: a report the protocol defines as carrying no answer information (idle, bus status other than "
    "framing error, foreign frame kinds, undefined codes) may be ignored or reported as an error, but must never be "
    "reported as a clean backward or forward frame; own-echo forward frames may be ignored; legacy Tridonic: observed "
    "backward frames and 24-bit forward frames may be ignored, type 0x74 is not judged (the two Tridonic drivers of "
    "the library disagree about it)",
    "UniPi channels: the register model delivers the answer into the channel's receive triple when the driver next "
    "sleeps after writing a decodable send pair to the START register of a channel's send pair, and moves the other "
    "channels' receive counters (with other data) at the same moment; registers in the DALI block that belong to "
    "another channel must not be read or written, registers outside it are not judged; a Compare whose only evidence "
    "is the channel's framing-error counter may be reported as YES (0xFF) or as a framing error",
    "UniPi counters: the receive counter and the framing-error counter are single 16-bit Modbus registers, so they "
    "wrap from 65535 to 0, and a channel that is restarted counts from a low value again; a receive triple whose counter "
    "differs IN ANY WAY from the reading taken before the command denotes a new frame (the driver's own reading of the "
    "register map)",
    "sequence numbers: every packet the legacy hasseb driver produces (DALI frame 0x07, configuration 0x05, firmware "
    "query 0x02) carries its sequence number in byte 2; Tridonic: byte 1 of host->device SEND packets (0x12) - power-supply "
    "packets (0x40) carry none; a packet returned by construct() counts as produced at that moment (the caller writes "
    "it); only range and 'no immediate repetition' are judged, as the statement says, not the step; the legacy Tridonic "
    "sync/async drivers are created without their constructors (which only look for the USB device) and given a recording "
    "backend",
    "decode-hist: left-over packets are read while nobody sends; a LUBA 'frame sent' event is never left over (the LUBA "
    "driver's public send path discards stale backward frames only - what an orphaned transmit confirmation does to "
    "the next command is the conversation's business, C15-C17); the SCI confirmation arrives 14..40 ms after the write "
    "(the frame's time on the bus, below the 100 ms confirmation timeout), the answer 0.5..27 ms after the confirmation "
    "(SCI, window 30 ms) / 13..22 ms after the 'sent' event (LUBA, window 25 ms); the drivers' own answer windows are "
    "in force for these cases, on a clock that only the harness advances",
    "observe-seq: reads happen one per loop iteration (the watcher task runs between two reads, as under asyncio); which "
    "frames are configuration commands / queries is the library's own classification (sendtwice / response), as in "
    "the encode part",
    "the conversation needed to complete a send (echo reports, transmit confirmations, status frames) is played as "
    "the driver expects it; C18 judges formats, not the conversation (C15-C17)",
]

DRIVERS = ["tridonic-hid", "hasseb-hid", "luba", "sci", "daliserver", "atx", "legacy-tridonic", "legacy-hasseb",
           "unipi"]
CAPS = {
    "tridonic-hid": {8, 16, 17, 24, 25}, "legacy-tridonic": {8, 16, 17, 24, 25},
    "hasseb-hid": {16}, "legacy-hasseb": {16}, "daliserver": {16},
    "luba": {16, 24}, "sci": {8, 16, 24}, "atx": {8, 16, 24, 25}, "unipi": {16, 24},
}
LENGTHS = [8, 9, 12, 15, 16, 17, 20, 23, 24, 25, 32]
FD_TRIDONIC, FD_HASSEB = 1001, 1002


class HarnessBug(BaseException):
    pass


# ------------------------------------------------------------------ environment ----
_ENV = {}


def _env():
    """Import the drivers once per process, with stubs and fakes in place."""
    if _ENV:
        return _ENV
    logging.disable(logging.CRITICAL)
    from harness import stubs
    stubs.install()
    import dali.gear.general, dali.gear.led, dali.gear.emergency, dali.gear.incandescent  # noqa
    import dali.gear.converter, dali.gear.colour  # noqa
    import dali.device.general, dali.device.pushbutton, dali.device.occupancy, dali.device.light  # noqa
    from dali import command, frame, address
    from dali.driver import hid as H, serial as S, daliserver as D, atxled as A
    from dali.driver import tridonic as T, hasseb as H2, unipi as U
    loop = asyncio.new_event_loop()
    asyncio.set_event_loop(loop)
    fos = FakeOS()
    H.os = fos
    H.random = FakeRandom()
    _ENV["timeout_rx"] = {"luba": S.DriverLubaRs232.timeout_rx, "sci": S.DriverSCIRS232.timeout_rx}
    S.DriverLubaRs232.timeout_rx = 0.002
    S.DriverSCIRS232.timeout_rx = 0.002
    A.time = FakeTime()
    H2.time = FakeTime()
    H2.sleep = lambda *_a: None
    U.sleep = _unipi_sleep
    _ENV.update(command=command, frame=frame, address=address, H=H, S=S, D=D, A=A, T=T, H2=H2, U=U, loop=loop,
                os=fos, gg=dali.gear.general)
    return _ENV


_UNIPI_CLOCK = []        # register models that want to see the driver's sleep() calls


def _unipi_sleep(t=0, *_a):
    for m in _UNIPI_CLOCK:
        m.tick(t)


class FakeTime:
    def sleep(self, *_a):
        pass

    def time(self):
        return 0.0


class FakeRandom:
    start = 1

    def randint(self, a, b):
        return self.start


class FakeOS:
    O_RDWR = 2
    O_NONBLOCK = 2048

    def __init__(self):
        self.sinks = {}
        self.bug = None

    def open(self, path, flags):
        raise OSError("no devices in the harness")

    def write(self, fd, data):
        try:
            self.sinks[fd](bytes(data))
        except Exception as e:  # noqa: a bug in the harness must not look like a library exception
            self.bug = e
            raise
        return len(data)

    def read(self, fd, n):
        return b""

    def close(self, fd):
        pass


def _run(coro, timeout=3.0):
    """Run a driver coroutine to completion on the process's loop.
    -> ("ok", value) | ("raised", exc) | ("hang", None)"""
    env = _env()

    async def w():
        return await asyncio.wait_for(coro, timeout)
    try:
        return ("ok", env["loop"].run_until_complete(w()))
    except asyncio.TimeoutError as e:
        return ("hang", e)
    except Exception as e:  # noqa
        if env["os"].bug is not None:
            bug, env["os"].bug = env["os"].bug, None
            raise HarnessBug(repr(bug))
        if library_frame(e.__traceback__) is None:
            raise
        return ("raised", e)


def _call(fn, *a):
    try:
        return ("ok", fn(*a))
    except Exception as e:  # noqa
        if library_frame(e.__traceback__) is None:
            raise
        return ("raised", e)


# ------------------------------------------------------------------------- rigs ----
class TridonicHid:
    name = "tridonic-hid"

    def __init__(self, start=1):
        env = _env()
        self.H = env["H"]
        self.H.random.start = start
        self.d = self.H.tridonic("/dev/verif-tridonic")
        self.d._f = FD_TRIDONIC
        self.d.connected.set()
        env["os"].sinks[FD_TRIDONIC] = self.on_write
        self.writes = []
        self.script = None

    def on_write(self, data):
        self.writes.append(data)
        if len(data) > 8 and data[0] == 0x12 and self.script is not None:
            for pkt in self.script(data):
                self.d._handle_read(pkt)

    def default_script(self, cmd):
        n = 2 if cmd.sendtwice else 1
        rtype = 0x73 if len(cmd.frame) == 16 else 0x76

        def script(data):
            f4 = int.from_bytes(data[4:8], "big")
            return [RW.tridonic_report(0x12, rtype, f4, seq=data[1])] * n + \
                   [RW.tridonic_report(0x12, 0x71, 0, seq=data[1])]
        return script

    def send(self, cmd, script=None, start=None):
        if start is not None:
            self.d._cmd_seq = iter(self.H.tridonic._seqnum(start))
        self.writes = []
        self.script = script or self.default_script(cmd)
        out = _run(self.d._send_raw(cmd))
        self.d._bus_watch_data.clear()
        if out[0] != "ok":
            self.__init__()
        return out, self.writes


class HassebHid:
    name = "hasseb-hid"

    def __init__(self):
        env = _env()
        self.H = env["H"]
        self.d = self.H.hasseb("/dev/verif-hasseb")
        self.d._f = FD_HASSEB
        self.d.connected.set()
        env["os"].sinks[FD_HASSEB] = self.on_write
        self.writes = []
        self.reply = None
        self.replied = True

    def on_write(self, data):
        self.writes.append(data)
        if not self.replied:
            self.replied = True
            _env()["loop"].call_soon(self.deliver)

    def deliver(self):
        for rep in self.reply:
            self.d._handle_read(rep)

    def send(self, cmd, reply=None):
        self.writes = []
        self.reply = reply if reply is not None else [bytes([1, 0])]
        self.replied = cmd.response is None
        out = _run(self.d._send_raw(cmd))
        if out[0] != "ok":
            self.__init__()
        return out, self.writes


class FakeTransport:
    def __init__(self, sink):
        self.sink = sink
        self.loop = None

    def write(self, data):
        self.sink(bytes(data))

    def close(self):
        pass


class Luba:
    name = "luba"
    scheme = "luba232"

    def __init__(self):
        env = _env()
        self.S = env["S"]
        self.make()
        self.writes = []
        self.script = None
        self.bug = None

    def make(self):
        S = self.S
        self.drv = S.DriverLubaRs232("luba232:/dev/verif-luba")
        self.p = S.DriverLubaRs232.LubaProtocol()
        self.finish()

    def finish(self):
        self.p.transport = FakeTransport(self.on_write)
        self.p.dev_inst_map = self.drv.dev_inst_map
        self.drv._protocol = self.p
        self.drv._transport = self.p.transport
        self.drv._connected.set()
        self.child = self.S.DistributorQueue(self.p._queue_rx_dali)

    def on_write(self, data):
        self.writes.append(data)
        try:
            pkts = self.script(data) if self.script else []
        except Exception as e:  # noqa
            self.bug = e
            raise
        for pkt in pkts:
            self.p.data_received(pkt)

    def default_script(self, cmd):
        fb = list(cmd.frame.as_byte_sequence)
        n = 2 if cmd.sendtwice else 1
        return lambda data: [RW.luba_event_sent(7, fb)] * n

    def queues(self):
        return [self.p._queue_tx_conf, self.p._queue_rx_raw_dali, self.p._queue_rx_luba_cmd]

    def drain(self):
        for q in self.queues() + [self.child]:
            while q.qsize():
                q.get_nowait()

    def _do(self, coro):
        out = _run(coro)
        if self.bug is not None:
            raise HarnessBug(repr(self.bug))
        return out

    def send(self, cmd, script=None):
        """protocol-level send (the function that builds the packet)"""
        self.writes = []
        self.script = script or self.default_script(cmd)
        out = self._do(self.p.send_dali_command(cmd))
        self.drain()
        if out[0] != "ok":
            self.make()
        return out, self.writes

    def transact(self, cmd, script):
        """driver-level send(): returns the response object; observed commands are left in self.child"""
        self.make()
        self.writes = []
        self.script = script
        out = self._do(self.drv.send(cmd))
        seen = []
        while self.child.qsize():
            seen.append(self.child.get_nowait())
        return out, seen


class Sci(Luba):
    name = "sci"

    def make(self):
        S = self.S
        self.drv = S.DriverSCIRS232("scirs232:/dev/verif-sci")
        self.p = S.DriverSCIRS232.SCIRS232Protocol()
        self.finish()

    def default_script(self, cmd):
        return lambda data: [RW.sci_frame(0x00, 0, 0, 0)]

    def queues(self):
        return [self.p._queue_rx_info, self.p._queue_rx_raw_dali]


class FakeSocket:
    def __init__(self, rig):
        self.rig = rig

    def send(self, data):
        self.rig.writes.append(bytes(data))
        return len(data)

    def recv(self, n):
        return self.rig.reply

    def close(self):
        pass


class Daliserver:
    name = "daliserver"

    def __init__(self):
        env = _env()
        self.D = env["D"]
        self.D.socket = self
        self.d = self.D.DaliServer()
        self.writes = []
        self.reply = bytes([2, 0, 0, 0])

    def create_connection(self, target):
        return FakeSocket(self)

    def send(self, cmd):
        self.writes = []
        return _call(self.d.send, cmd), self.writes


class FakeSerial:
    def __init__(self, rig):
        self.rig = rig
        self.lines = []

    def write(self, data):
        self.rig.writes.append(bytes(data))
        self.lines.extend(self.rig.script(bytes(data)))
        return len(data)

    def read_until(self, _sep=b"\n"):
        return self.lines.pop(0) if self.lines else b""

    def close(self):
        pass


class Atx:
    name = "atx"
    PARITY_NONE, STOPBITS_ONE, EIGHTBITS = "N", 1, 8

    def __init__(self):
        env = _env()
        self.A = env["A"]
        self.A.serial = self
        self.writes = []
        self.script = self.default_script
        self.d = self.A.SyncDaliHatDriver(port="/dev/verif-atx", LOG=logging.getLogger("verif.atx"))

    def Serial(self, **kw):
        return FakeSerial(self)

    @staticmethod
    def default_script(data):
        return [b"N\n", b"N\n"] if data[:1] == b"t" else [b"N\n"]

    def construct(self, cmd):
        return _call(self.d.construct, cmd)

    def send(self, cmd, script=None):
        self.writes = []
        self.d.conn.lines = []
        self.d.buffer = []
        self.script = script or self.default_script
        return _call(self.d.send, cmd), self.writes


class LegacyTridonic:
    name = "legacy-tridonic"

    def __init__(self):
        self.T = _env()["T"]
        self.d = self.T.TridonicDALIUSBDriver()

    def construct(self, cmd, sn=None):
        if sn is not None:
            self.d._next_sn = sn
        return _call(self.d.construct, cmd)


class LegacyHasseb:
    name = "legacy-hasseb"

    def __init__(self):
        self.H2 = _env()["H2"]
        self.d = self.H2.SyncHassebDALIUSBDriver()

    def construct(self, cmd, sn=None):
        if sn is not None:
            self.d.sn = (sn - 1) % 256
        return _call(self.d.construct, cmd)

    def send(self, cmd):
        self.d.device.written = []
        if cmd.response is not None:
            self.d.device.to_read = [bytes([0xAA, 0x07, 0, 1, 0, 0, 0, 0, 0, 0])] * 3
        out = _call(self.d.send, cmd)
        return out, list(self.d.device.written)


class Unipi:
    name = "unipi"

    def __init__(self):
        self.U = _env()["U"]
        self.d = self.U.SyncUnipiDALIDriver()

    def construct(self, cmd):
        return _call(self.d.construct, cmd)

    def send_command(self, cmd):
        self.d.backend.pymc.writes = []
        out = _call(self.d._send_command, cmd)
        return out, [w for w in self.d.backend.pymc.writes]


class UnipiGateway:
    """Register-level model of the UniPi unit: a stand-in for the pymodbus client.  A frame written to the send
    pair of channel b goes out on DALI line b; the gear on line b answers as scripted, and the answer shows up in
    the receive triple of channel b once time has passed (the driver's sleep()).  The other lines see unrelated
    traffic meanwhile (their counters move too), so that reading another channel's registers gives a wrong result
    instead of an accidentally right one."""

    def __init__(self, answers, fe_on, counters=None, step=1, fe_start=7):
        self.answers = answers          # line -> backward frame value | None
        self.fe_on = fe_on              # set of framing-error registers that count up after a transmission
        self.step = step                # by how much a line's receive counter moves when the answer arrives (mod 2^16)
        self.regs = {}
        for bus, r in RW.UNIPI_REGS.items():
            # the counters are 16-bit Modbus registers that have been counting since the unit was switched on
            self.regs[r["recv"][0]] = (counters or {}).get(bus, 100 + bus) & 0xFFFF
            self.regs[r["fe"]] = fe_start & 0xFFFF
        self.writes = []                # (start register, values)
        self.reads = []                 # (start register, count)
        self.transmitted = []           # (line, bits, value, twice)
        self.pending = []

    # -- pymodbus 2.x client surface used by RemoteArm
    def write_register(self, reg, value, unit=None, **kw):
        self.write_registers(reg, (value,))

    def write_registers(self, reg, values, unit=None, **kw):
        values = tuple(values)
        self.writes.append((reg, values))
        bus = RW.unipi_bus_of_send_register(reg)
        frame = RW.unipi_decode_send(values)
        if bus is not None and frame is not None:
            self.transmitted.append((bus,) + frame)
            self.pending.append(bus)

    def read_holding_registers(self, reg, cnt, unit=None, **kw):
        from harness.stubs import pymodbus_client_sync_stub as stub
        self.reads.append((reg, cnt))
        return stub._Resp([self.regs.get(reg + i, 0) for i in range(cnt)])

    def write_coil(self, reg, val, unit=None, **kw):
        self.writes.append(("coil", reg, val))

    def close(self):
        pass

    def tick(self, t):
        if not self.pending:
            return
        sent, self.pending = self.pending, []
        for bus, r in RW.UNIPI_REGS.items():
            c, ty, da = r["recv"]
            if bus in sent:
                v = self.answers.get(bus)
                if v is not None:
                    self.regs[c] = (self.regs[c] + self.step) & 0xFFFF
                    self.regs[ty], self.regs[da] = 0x100, v
            else:       # unrelated traffic on the other lines: somebody's forward frame and its answer
                self.regs[c] = (self.regs[c] + 2) & 0xFFFF
                self.regs[ty], self.regs[da] = 0x100, (0x31 + 0x45 * bus) & 0xFF
        for reg in self.fe_on:
            self.regs[reg] = (self.regs[reg] + 1) & 0xFFFF


RIG_CLASSES = {c.name: c for c in (TridonicHid, HassebHid, Luba, Sci, Daliserver, Atx, LegacyTridonic, LegacyHasseb,
                                   Unipi)}
_RIGS = {}


def rig(name):
    r = _RIGS.get(name)
    if r is None:
        r = _RIGS[name] = RIG_CLASSES[name]()
    return r


# ------------------------------------------------------------ expected encodings ----
def is_unknown(cmd):
    command = _env()["command"]
    return type(cmd) is command.Command or type(cmd).__name__.startswith("Unknown")


def expected(driver, bits, value, twice, has_resp, unknown, seq):
    """None if the gateway has no encoding for this length, else a list of acceptable write lists."""
    if bits not in CAPS[driver]:
        return None
    if driver == "tridonic-hid":
        return [[RW.tridonic_encode(bits, value, twice, seq)]]
    if driver == "legacy-tridonic":
        return [[RW.tridonic_encode(bits, value, twice, seq)]]
    if driver == "hasseb-hid":
        return [RW.hasseb_old_encode(bits, value, twice)]
    if driver == "legacy-hasseb":
        return [[RW.hasseb_new_encode(bits, value, twice, seq, has_resp)]]
    if driver == "luba":
        prios = [2, 5] if unknown else [RW.luba_priority(bits, value, has_resp, twice)]
        return [[RW.luba_encode(bits, value, twice, p)] for p in prios]
    if driver == "sci":
        return [[RW.sci_encode(bits, value, twice)]]
    if driver == "daliserver":
        return [RW.daliserver_encode(bits, value, twice)]
    if driver == "atx":
        return [RW.atx_encode(bits, value, twice)]
    if driver == "unipi":
        regs = RW.unipi_encode(bits, value, twice)
        return [[regs], [regs, regs]] if twice else [[regs]]
    raise KeyError(driver)


FIELDS = {
    "tridonic-hid": ["direction", "sequence-number", "send-twice-flag", "mode-code", "frame", "frame", "frame", "frame"],
    "legacy-tridonic": ["direction", "sequence-number", "send-twice-flag", "mode-code", "frame", "frame", "frame",
                        "frame"],
    "hasseb-hid": ["frame", "frame"],
    "legacy-hasseb": ["magic", "command-code", "sequence-number", "bit-count", "expect-reply", "settling-time",
                      "send-twice-field", "frame", "frame", "padding"],
    "luba": ["sync", "command-code", "length", "bus", "bit-count", "mode", "frame", "frame", "frame", "frame-padding",
             "checksum"],
    "sci": ["control", "frame", "frame", "frame", "checksum"],
    "daliserver": ["version", "type", "frame", "frame"],
    "atx": ["prefix"],
    "unipi": ["options-register", "frame-register"],
}


def diff_field(driver, got, exp):
    """Name of the first field in which the written data differs from the closest acceptable encoding."""
    if len(got) != len(exp):
        return "write-count(send-twice)"
    for g, e in zip(got, exp):
        if g == e:
            continue
        if isinstance(g, tuple) or isinstance(e, tuple):
            for i, (a, b) in enumerate(zip(g, e)):
                if a != b:
                    if i == 0 and (a ^ b) == 0x800:
                        return "send-twice-flag"
                    return FIELDS[driver][i]
            return "register-count"
        if len(g) != len(e):
            return "packet-size"
        for i, (a, b) in enumerate(zip(g, e)):
            if a != b:
                names = FIELDS[driver]
                name = names[i] if i < len(names) else ("hex-digits" if driver == "atx" else "padding")
                if driver == "luba" and name == "mode":
                    name = "send-twice-bit" if (a ^ b) & 0x80 else "priority" if (a ^ b) & 0x07 else "mode-reserved-bits"
                if driver == "sci" and name == "control":
                    name = "send-twice-bit" if (a ^ b) & 0x10 else "mode-code" if (a ^ b) & 0x0F else "control-flags"
                return name
    return "?"


def closest(got, exps):
    def score(e):
        if len(e) != len(got):
            return 10 ** 6
        n = 0
        for g, x in zip(got, e):
            if g != x:
                n += 1000 if len(g) != len(x) else sum(1 for a, b in zip(g, x) if a != b)
        return n
    return min(exps, key=score)


def _hx(ws):
    return [w.hex() if isinstance(w, (bytes, bytearray)) else w for w in ws]


def do_encode(driver, cmd, seq):
    """Perform one send/construct with the driver. -> (status, exc, writes)"""
    r = rig(driver)
    if driver == "tridonic-hid":
        out, writes = r.send(cmd, start=seq)
    elif driver in ("hasseb-hid", "luba", "sci", "daliserver"):
        out, writes = r.send(cmd)
    elif driver == "atx":
        out = r.construct(cmd)
        writes = [out[1]] if out[0] == "ok" else []
    elif driver in ("legacy-tridonic", "legacy-hasseb"):
        out = r.construct(cmd, seq)
        writes = [out[1]] if out[0] == "ok" else []
    elif driver == "unipi":
        out = r.construct(cmd)
        writes = [tuple(out[1])] if out[0] == "ok" else []
    return out, writes


def judge_encode(driver, cmd, bits, value, seq, what):
    out, writes = do_encode(driver, cmd, seq)
    twice = bool(cmd.sendtwice)
    exps = expected(driver, bits, value, twice, cmd.response is not None, is_unknown(cmd), seq)
    if driver == "atx" and exps is not None:
        exps = [e[:1] for e in exps]       # construct() builds one line; what send() writes is judged separately
    vs = []
    where = "%s %s %d-bit frame %#x (sendtwice=%s)" % (driver, what, bits, value, twice)
    if out[0] == "hang":
        vs.append(("C18:%s:send-never-completes" % driver, "%s: written %r, then the send did not complete although the "
                   "gateway confirmed it" % (where, _hx(writes))))
    if out[0] == "raised" and not writes:
        return vs, "refused"                     # refusing is always allowed
    if exps is None:
        vs.append(("C18:%s:accepts-unsupported-length" % driver,
                   "%s: the gateway cannot carry a %d-bit frame, but the driver did not refuse it and handed %r to the "
                   "transport%s" % (where, bits, _hx(writes), "" if out[0] == "ok" else " (then %r)" % (out[1],))))
        return vs, "accepted-unsupported"
    if out[0] == "raised":
        vs.append(("C18:%s:raised-after-writing:%s" % (driver, type(out[1]).__name__),
                   "%s: wrote %r then raised %r" % (where, _hx(writes), out[1])))
    if driver == "unipi" and twice and out[0] == "ok":
        # the sync driver writes the registers twice itself; judge what reaches the backend as well
        o2, w2 = rig("unipi").send_command(cmd)
        writes2 = [w[1] for w in w2 if w[0] != "coil"]
        if o2[0] == "ok" and writes2 not in exps:
            vs.append(("C18:unipi:encode:register-writes", "%s: register writes %r, acceptable %r" % (where, writes2, exps)))
    if writes not in exps:
        e = closest(writes, exps)
        field = diff_field(driver, writes, e)
        vs.append(("C18:%s:encode:%s" % (driver, field),
                   "%s: handed to the transport %r, reference %r (first difference in field '%s')"
                   % (where, _hx(writes), _hx(e), field)))
    return vs, "compared"


def make_cmd(bits, value, dt):
    env = _env()
    return env["command"].from_frame(env["frame"].ForwardFrame(bits, value), devicetype=dt)


def case_encode(case):
    cmd = make_cmd(case["bits"], case["value"], case.get("dt", 0))
    seq = 1 + case["value"] % 255
    vs, _ = judge_encode(case["driver"], cmd, case["bits"], case["value"], seq, type(cmd).__name__)
    if case["driver"] in ("atx", "legacy-hasseb") and (case["bits"] == 24 or case.get("full")):
        vs += judge_send_level(case["driver"], cmd, case["bits"], case["value"])
    return vs


def judge_send_level(driver, cmd, bits, value):
    """ATX / legacy hasseb: what send() really writes (number of writes for send-twice commands)."""
    twice = bool(cmd.sendtwice)
    where = "%s %s %d-bit frame %#x (sendtwice=%s)" % (driver, type(cmd).__name__, bits, value, twice)
    if driver == "atx":
        exps = expected(driver, bits, value, twice, cmd.response is not None, False, 0)
        if exps is None:
            return []
        out, writes = rig("atx").send(cmd)
        if out[0] == "raised" and not writes:
            return []
        if writes not in exps:
            if twice and bits != 16 and len(writes) == 1 and writes[0] == exps[0][0]:
                return [("C18:atx:send-twice-%dbit-written-once" % bits,
                         "%s: send() wrote %r once; the line protocol has a 'send twice' prefix only for 16-bit frames "
                         "('t'), so this configuration command reaches the bus once and is ignored by the devices "
                         "(reference: %r)" % (where, _hx(writes), _hx(exps[0])))]
            return [("C18:atx:send:%s" % diff_field(driver, writes, closest(writes, exps)),
                     "%s: send() wrote %r, reference %r" % (where, _hx(writes), _hx(exps[0])))]
        return []
    if driver == "legacy-hasseb":
        if bits != 16:
            return []
        out, writes = rig("legacy-hasseb").send(cmd)
        if out[0] == "raised" and not writes:
            return []
        if len(writes) != 1:
            return [("C18:legacy-hasseb:send:write-count", "%s: %d reports written" % (where, len(writes)))]
    return []


def case_length(case):
    env = _env()
    bits, value = case["bits"], case["value"]
    cmd = env["command"].Command(env["frame"].ForwardFrame(bits, value))
    vs, how = judge_encode(case["driver"], cmd, bits, value, 1 + value % 255, "generic command")
    return vs


# -------------------------------------------------------------- sequence numbers ----
def case_seq(case):
    env = _env()
    driver, start, n = case["driver"], case["start"], case.get("n", 700)
    gg = env["gg"]
    cmds = [gg.DAPC(1, 10), gg.Off(2), gg.QueryStatus(3), gg.Reset(4)]
    seqs = []
    if driver == "tridonic-hid":
        r = _RIGS["tridonic-hid"] = TridonicHid(start=start)
        for i in range(n):
            out, writes = r.send(cmds[i % 4])
            if out[0] != "ok" or len(writes) != 1:
                return [("C18:tridonic-hid:send-failed-in-sequence", "send %d: %r %r" % (i, out, _hx(writes)))]
            seqs.append(writes[0][1])
        lo, hi = RW.TRIDONIC_SEQ_RANGE
    elif driver == "legacy-tridonic":
        d = env["T"].TridonicDALIUSBDriver()
        if start != 1:
            d._next_sn = start
        for i in range(n):
            seqs.append(d.construct(cmds[i % 4])[1])
        lo, hi = RW.TRIDONIC_SEQ_RANGE
    elif driver == "legacy-hasseb":
        d = env["H2"].SyncHassebDALIUSBDriver()
        d.sn = (start - 1) % 256
        for i in range(n):
            seqs.append(d.construct(cmds[i % 4])[2])
        lo, hi = RW.HASSEB_SEQ_RANGE
    vs = []
    bad = [(i, s) for i, s in enumerate(seqs) if not lo <= s <= hi]
    if bad:
        vs.append(("C18:%s:sequence-number-out-of-range" % driver,
                   "start %d: send %d carries sequence number %d, range %d..%d" % (start, bad[0][0], bad[0][1], lo, hi)))
    rep = [i for i in range(1, len(seqs)) if seqs[i] == seqs[i - 1]]
    if rep:
        i = rep[0]
        vs.append(("C18:%s:sequence-number-repeats" % driver,
                   "start %d: sends %d and %d both carry sequence number %d (…%r…); %d immediate repetitions in %d sends"
                   % (start, i - 1, i, seqs[i], seqs[max(0, i - 3):i + 3], len(rep), n)))
    return vs


# ---------------------------------------- sequence numbers across all packet kinds ----
class _FakeUsbBackend:
    """Stand-in for dali.driver.base.USBBackend / USBListener (no pyusb, no device): records writes, answers
    every read with the gateway's 'no answer' report for the packet written last."""

    def __init__(self):
        self.written = []

    def write(self, data):
        self.written.append(bytes(data))
        return len(data)

    def read(self, timeout=None):
        seq = self.written[-1][1] if self.written else 0
        return RW.tridonic_report(0x12, 0x71, 0, seq=seq)

    def close(self):
        pass


SEQMIX_OPS = {
    # op letter -> meaning; every op hands one or more packets to the gateway (or returns one for the caller to write)
    "legacy-hasseb": "SQTCEDF", "legacy-hasseb-async": "SQTCEDF",
    "legacy-tridonic": "C", "legacy-tridonic-sync": "SQTC", "legacy-tridonic-async": "SQTC",
    "tridonic-hid": "SQTPpX",      # X: a query given up by its caller (timeout) after the packet was written
}


def _seqmix_driver(driver, start):
    """-> (do(op) -> list of packets produced by that op, index of the sequence number, (lo, hi), judged(pkt))"""
    env = _env()
    gg = env["gg"]
    cmds = {"S": gg.DAPC(1, 10), "Q": gg.QueryStatus(3), "T": gg.Reset(4), "C": gg.Off(2)}
    if driver in ("legacy-hasseb", "legacy-hasseb-async"):
        H2 = env["H2"]
        d = (H2.SyncHassebDALIUSBDriver if driver == "legacy-hasseb" else H2.AsyncHassebDALIUSBDriver)()
        if driver.endswith("async"):
            d.setEventHandler(d.receive)
        d.sn = (start - 1) % 256
        dev = d.device

        def do(op):
            dev.written = []
            if op == "C":
                return [bytes(d.construct(cmds[op]))]
            if op in "SQT":
                dev.to_read = [bytes([0xAA, 0x07, 0, 1, 0, 0, 0, 0, 0, 0])] * 2 if op == "Q" else []
                d.send(cmds[op])
            elif op == "E":
                d.enableSniffing()
            elif op == "D":
                d.disableSniffing()
            elif op == "F":
                dev.to_read = [bytes([0xAA, 0x00, 0, 0, 0, 0, 0, 0, 0, 0]), bytes([0xAA, 0x02, 0, 1, 7, 0, 0, 0, 0, 0])]
                d.readFirmwareVersion()
            else:
                raise KeyError(op)
            dev.to_read = []
            return list(dev.written)
        return do, 2, RW.HASSEB_SEQ_RANGE, lambda pkt: len(pkt) >= 3 and pkt[0] == 0xAA
    if driver.startswith("legacy-tridonic"):
        T = env["T"]
        cls = {"legacy-tridonic": T.TridonicDALIUSBDriver, "legacy-tridonic-sync": T.SyncTridonicDALIUSBDriver,
               "legacy-tridonic-async": T.AsyncTridonicDALIUSBDriver}[driver]
        d = cls.__new__(cls)            # the constructors of the sync/async drivers only look for the USB device
        be = d.backend = _FakeUsbBackend()
        if start != 1:
            d._next_sn = start

        def do(op):
            be.written = []
            if op == "C":
                return [bytes(d.construct(cmds[op]))]
            if driver.endswith("async"):
                d.send(cmds[op], callback=None)
            else:
                d.send(cmds[op])
            return list(be.written)
        return do, 1, RW.TRIDONIC_SEQ_RANGE, lambda pkt: len(pkt) >= 2 and pkt[0] == RW.TRIDONIC_SEND
    if driver == "tridonic-hid":
        r = _RIGS["tridonic-hid"] = TridonicHid(start=start)

        def do(op):
            if op == "X":
                import asyncio
                r.writes = []
                r.script = lambda data: []          # the gateway says nothing in time
                out = _run(asyncio.wait_for(r.d.send(cmds["Q"]), 0.004))
                if out[0] == "ok":
                    raise _SeqmixFailed("send that nobody answered returned %r" % (out,))
                if r.d.transaction_lock.locked():
                    raise _SeqmixFailed("transaction lock still held after the caller gave up")
                return list(r.writes)
            if op in "Pp":
                r.writes = []
                r.script = None
                out = _run(r.d.power_supply(op == "P"))
                if out[0] != "ok":
                    raise _SeqmixFailed("power_supply(%s): %r" % (op == "P", out))
                return list(r.writes)
            out, writes = r.send(cmds[op])
            if out[0] != "ok":
                raise _SeqmixFailed("send %s: %r %r" % (op, out, _hx(writes)))
            return writes
        return do, 1, RW.TRIDONIC_SEQ_RANGE, lambda pkt: len(pkt) >= 2 and pkt[0] == RW.TRIDONIC_SEND
    raise KeyError(driver)


class _SeqmixFailed(Exception):
    pass


def case_seqmix(case):
    """A history of the driver's packet-producing public operations: every packet that carries a sequence number
    must carry one in the protocol's range, different from the one in the packet produced immediately before."""
    driver, start, ops = case["driver"], case["start"], case["ops"]
    do, idx, (lo, hi), judged = _seqmix_driver(driver, start)
    pk = []                     # (op number, op, packet)
    for i, op in enumerate(ops):
        try:
            got = _call(do, op)
        except _SeqmixFailed as e:
            return [("C18:%s:send-failed-in-sequence" % driver, "op %d (%s) of %r: %s" % (i, op, ops[:40], e))]
        if got[0] != "ok":
            return [("C18:%s:raised-in-sequence:%s" % (driver, type(got[1]).__name__),
                     "op %d (%s) of %r from start %d raised %r" % (i, op, ops[:40], start, got[1]))]
        pk.extend((i, op, p) for p in got[1] if judged(p))
    vs = []
    names = {"S": "send(DAPC)", "Q": "send(QueryStatus)", "T": "send(Reset)", "C": "construct(Off)", "E": "enableSniffing()",
             "D": "disableSniffing()", "F": "readFirmwareVersion()", "P": "power_supply(True)", "p": "power_supply(False)",
             "X": "send(QueryStatus) given up by its caller"}
    bad = [(i, op, p) for i, op, p in pk if not lo <= p[idx] <= hi]
    if bad:
        i, op, p = bad[0]
        vs.append(("C18:%s:sequence-number-out-of-range" % driver,
                   "start %d, operations %r: the packet %s of operation %d (%s) carries sequence number %d, range %d..%d"
                   % (start, ops[:60], p[:10].hex(), i, names[op], p[idx], lo, hi)))
    for a, b in zip(pk, pk[1:]):
        if a[2][idx] == b[2][idx]:
            vs.append(("C18:%s:sequence-number-repeats" % driver,
                       "start %d, operations %r: the packets of operation %d (%s) and operation %d (%s) both carry "
                       "sequence number %d: %s, %s" % (start, ops[:60], a[0], names[a[1]], b[0], names[b[1]], b[2][idx],
                                                       a[2][:10].hex(), b[2][:10].hex())))
            break
    return vs


def seqmix_cases(seed):
    out = []
    for driver, alphabet in sorted(SEQMIX_OPS.items()):
        n = len(alphabet)
        if n == 1:
            continue
        # every ordered triple of operations, at the start, in the middle and across the wrap of the range
        words = [a + b + c for a in alphabet for b in alphabet for c in alphabet]
        for start in (1, 128, 253, 254, 255):
            # several triples per driver object, separated by nothing: consecutive triples are further pairs
            for k in range(0, len(words), 24):
                out.append({"kind": "seqmix", "driver": driver, "start": start, "ops": "".join(words[k:k + 24])})
        # long mixed histories (700 operations; arithmetic on the seed decides the operations)
        for j, start in enumerate(sorted({1, 200, 1 + seed % 255})):
            x = (seed * 2654435761 + j * 40503 + len(driver) * 97 + 12345) & 0xFFFFFFFF
            ops = []
            for _ in range(700):
                x = (x * 1103515245 + 12345) & 0x7FFFFFFF
                ops.append(alphabet[(x >> 16) % n])
            out.append({"kind": "seqmix", "driver": driver, "start": start, "ops": "".join(ops)})
    return out


# ------------------------------------------------------------------ receive side ----
def norm_response(out):
    """What a send() outcome tells the caller."""
    if out[0] == "hang":
        return ("hang",)
    if out[0] == "raised":
        return ("raised", type(out[1]).__name__)
    return norm_value(out[1])


def norm_value(r):
    env = _env()
    frame = env["frame"]
    if r is None:
        return ("none",)
    if isinstance(r, env["command"].Response):
        r = r.raw_value
        if r is None:
            return ("no-answer",)
    if isinstance(r, frame.BackwardFrame):
        if r.error:
            return ("framing-error",)
        return ("backward", r.as_integer)
    if isinstance(r, frame.ForwardFrame):
        return ("forward", len(r), r.as_integer)
    n = type(r).__name__
    if "NoResponse" in n or "NoAnswer" in n:
        return ("no-answer",)
    return ("object", n)


def judge_decode(driver, ref, got, where, ignored_outcome=("no-answer",), forward_seen=None):
    """ref: reference decode of the report; got: normalised driver outcome."""
    k = ref["kind"]
    if k == "backward":
        ok = got == ("backward", ref["value"])
    elif k == "no-answer":
        ok = got == ("no-answer",)
    elif k == "framing-error":
        ok = got == ("framing-error",) or (got[0] == "raised" and got[1] in ("ResponseError", "BackwardFrameError"))
        # Property C16 states that the serial gateways (LUBA, SCI) only log a framing-error report: their
        # receivers recognise the packet as an error and deliver nothing, so send() sees "no answer".
        # That is accepted here; delivering it as a clean backward-frame value is not.
        if driver in ("luba", "sci") and got == ("no-answer",):
            ok = True
    elif k == "forward":
        if forward_seen is None:
            ok = got[0] not in ("backward", "framing-error")
        else:
            ok = forward_seen == [(ref["bits"], ref["value"])] and got[0] not in ("backward", "framing-error")
            if not ok:
                return [("C18:%s:decode:forward-frame" % driver,
                         "%s: the report carries the %d-bit forward frame %#x; the driver delivered %r (answer %r)"
                         % (where, ref["bits"], ref["value"], forward_seen, got))]
    else:
        ok = got[0] not in ("backward", "forward", "hang") and (forward_seen in (None, []))
    if ok:
        return []
    gk = got[0] if got[0] != "raised" else "raises-" + got[1]
    if k == "backward" and got[0] == "backward":
        gk = "backward-with-wrong-value"
    return [("C18:%s:decode:%s-reported-as-%s" % (driver, k, gk),
             "%s: the report denotes %r, the driver reports %r" % (where, {x: ref[x] for x in ref if x != "origin"}, got))]


def _query():
    gg = _env()["gg"]
    return gg.QueryActualLevel(1)


def case_decode(case):
    env = _env()
    driver = case["driver"]
    cmd = _query()
    if driver == "tridonic-hid":
        rtype, f4 = case["code"], case["payload"]
        pkt = RW.tridonic_report(0x12, rtype, f4, seq=0)
        ref = RW.tridonic_decode(pkt)

        def script(data):
            seq = data[1]
            under = RW.tridonic_report(0x12, rtype, f4 if rtype not in (0x73, 0x76) else int.from_bytes(data[4:8], "big"),
                                       seq=seq)
            echo = [] if rtype in (0x73, 0x76) else [RW.tridonic_report(0x12, 0x73, int.from_bytes(data[4:8], "big"), seq=seq)]
            if case.get("then_answer") is not None:
                # a report that ends nothing (bus status, information) while the query waits, then the unit's answer
                return echo + [under, RW.tridonic_report(0x12, 0x72, case["then_answer"], seq=seq)]
            return echo + [under, RW.tridonic_report(0x12, 0x71, 0, seq=seq)]
        out, _w = rig(driver).send(cmd, script=script, start=5)
        if case.get("then_answer") is not None:
            return judge_decode(driver, {"kind": "backward", "value": case["then_answer"]}, norm_response(out),
                                "tridonic-hid report type %#x frame %#x, then the answer %#x" % (rtype, f4, case["then_answer"]))
        if ref["kind"] == "forward":
            ref = {"kind": "none"}          # own echo: consumed as transmit confirmation
        return judge_decode(driver, ref, norm_response(out), "tridonic-hid report type %#x frame %#x" % (rtype, f4))
    if driver == "hasseb-hid":
        st_, v = case["code"], case["payload"]
        rep = bytes([st_, v])
        ref = RW.hasseb_old_decode(rep)
        reply = [rep] if st_ != 0 else [rep, bytes([1, 0])]
        out, _w = rig(driver).send(cmd, reply=reply)
        got = norm_response(out)
        if ref["kind"] == "none":
            ref = {"kind": "no-answer"}     # idle report ignored, then the terminating "no answer"
        vs = judge_decode(driver, ref, got, "hasseb-hid report [%d, %d]" % (st_, v))
        return vs
    if driver in ("luba", "sci"):
        r = rig(driver)
        if driver == "luba":
            status, data = case["code"], case["payload"]
            et = status >> 6
            fb = list(cmd.frame.as_byte_sequence)
            under = RW.luba_event(status, ([7] + fb) if et == 0 else data)
            ref = RW.luba_event_decode(list(under[3:-1]))
            pk = ([] if et == 0 else [RW.luba_event_sent(7, fb)]) + [under]
            where = "luba event status %#x data %r" % (status, data)
        else:
            b0, d3 = case["code"], case["payload"]
            under = RW.sci_frame(b0, *d3)
            ref = RW.sci_decode(under)
            pk = [RW.sci_frame(0x00, 0, 0, 0), under]
            where = "sci frame %s" % under.hex()
        dmg = case.get("damaged")
        if dmg:
            # line noise first: a packet that would be a backward frame 0xEE, with a wrong checksum (dropped as a
            # whole); the well-formed packets behind it still denote what they denote
            if driver == "luba":
                bad = RW.luba_frame(RW.LUBA_EVENT, [0, 0, 0, (2 << 6) | 8, 0xEE], bad_checksum=dmg)
            else:
                bad = RW.sci_frame(0x02, 0, 0, 0xEE, bad_checksum=dmg)
            pk = [bad] + pk
            where += " preceded by the damaged packet %s" % bad.hex()
        out, seen = r.transact(cmd, lambda data: pk)
        seen = [(len(c.frame), c.frame.as_integer) for c in seen]
        if ref["kind"] in ("sent",):
            ref = {"kind": "none"}
        return judge_decode(driver, ref, norm_response(out), where, forward_seen=seen)
    if driver == "daliserver":
        reply = bytes([2, case["code"], case["payload"], 0])
        ref = RW.daliserver_decode(reply)
        r = rig(driver)
        vs = []
        got = norm_response(_call(r.d.unpack_response, cmd, reply))
        vs += judge_decode(driver, ref, got, "daliserver reply %s" % reply.hex())
        noresp = env["gg"].Off(1)
        g2 = _call(r.d.unpack_response, noresp, reply)
        if not (g2[0] == "ok" and g2[1] is None) and g2[0] != "raised":
            vs.append(("C18:daliserver:decode:answer-to-command-without-response", "%r" % (g2,)))
        return vs
    if driver == "atx":
        line = case["line"]
        ref = RW.atx_decode(line)
        r = rig(driver)
        out, _w = r.send(cmd, script=lambda data: [(line + "\n").encode("ascii")])
        vs = judge_decode(driver, ref, norm_response(out), "atx reply line %r" % line)
        ex = _call(r.d.extract, line + "\n")
        g = norm_value(ex[1]) if ex[0] == "ok" else ("raised", type(ex[1]).__name__)
        if ref["kind"] == "backward" and g != ("backward", ref["value"]):
            vs.append(("C18:atx:decode:extract", "extract(%r) -> %r" % (line, g)))
        if ref["kind"] != "backward" and g[0] in ("backward", "forward"):
            vs.append(("C18:atx:decode:extract", "extract(%r) -> %r" % (line, g)))
        return vs
    if driver == "legacy-tridonic":
        origin, rtype, f4 = case["origin"], case["code"], case["payload"]
        pkt = RW.tridonic_report(origin, rtype, f4, seq=9)
        ref = RW.tridonic_decode(pkt)
        if rtype == 0x74:
            return []
        d_ = rig(driver).d
        # the driver's public `debug` switch (frame logging) on for every other case: what a packet denotes is the same
        dbg = bool(case.get("debug", (origin + rtype + f4) % 2))
        old_dbg = getattr(d_, "debug", None)
        try:
            if old_dbg is not None:
                d_.debug = dbg
            ex = _call(d_.extract, pkt)
        finally:
            if old_dbg is not None:
                d_.debug = old_dbg
        got = norm_value(ex[1]) if ex[0] == "ok" else ("raised", type(ex[1]).__name__)
        where = "legacy-tridonic report origin %#x type %#x frame %#x%s" % (origin, rtype, f4, " (debug on)" if dbg and old_dbg is not None else "")
        if got == ("none",):
            if ref["origin"] == "own" and ref["kind"] in ("backward", "no-answer", "framing-error"):
                return [("C18:legacy-tridonic:decode:%s-ignored" % ref["kind"],
                         "%s: denotes %s, extract() returned None (the sync send() then reports NO_RESPONSE)"
                         % (where, ref["kind"]))]
            if ref["origin"] == "observed" and ref["kind"] == "forward" and ref["bits"] == 16:
                return [("C18:legacy-tridonic:decode:forward-frame-ignored", "%s: extract() returned None" % where)]
            return []
        if ref["kind"] == "forward":
            ok = got == ("forward", ref["bits"], ref["value"])
            return [] if ok else [("C18:legacy-tridonic:decode:forward-frame", "%s: got %r" % (where, got))]
        if ref["origin"] in ("info", "unknown"):
            ref = {"kind": "none"}
        return judge_decode(driver, ref, got, where)
    if driver == "legacy-hasseb":
        rep = bytes([0xAA, case["cmdcode"], 3, case["code"], case["len"], case["payload"], 0, 0, 0, 0])
        ref = RW.hasseb_new_decode(rep)
        ex = _call(rig(driver).d.extract, rep)
        got = norm_value(ex[1]) if ex[0] == "ok" else ("raised", type(ex[1]).__name__)
        if got[0] == "object" and "NoDataAvailable" in got[1]:
            got = ("none",)
        return judge_decode(driver, ref, got, "legacy-hasseb report %s" % rep[:6].hex())
    if driver == "unipi":
        regs = (case["code"], case["payload"])
        ref = RW.unipi_decode(regs)
        if not ref.get("wellformed", True):
            return []
        ex = _call(rig(driver).d.extract, regs)
        got = norm_value(ex[1]) if ex[0] == "ok" else ("raised", type(ex[1]).__name__)
        if ref["kind"] == "forward":
            ok = got == ("forward", 16, ref["value"])
            return [] if ok else [("C18:unipi:decode:forward-frame", "registers %r: got %r" % (regs, got))]
        return judge_decode(driver, ref, got, "unipi registers %r" % (regs,))
    raise KeyError(driver)


def case_unipi_bus(case):
    """UniPi, channel `bus` of the unit: the register numbers written and read, against RW.UNIPI_REGS, and the
    answer that comes back through them."""
    env = _env()
    bus, bits, value = case["bus"], case["bits"], case["value"]
    answer, fe = case.get("answer"), case.get("fe", "none")
    lay = RW.UNIPI_REGS[bus]
    cmd = make_cmd(bits, value, case.get("dt", 0))
    twice = bool(cmd.sendtwice)
    other_fe = sorted({r["fe"] for r in RW.UNIPI_REGS.values()} - {lay["fe"]})
    fe_on = {"none": set(), "own": {lay["fe"]}, "other": set(other_fe)}[fe]
    made = _call(env["U"].SyncUnipiDALIDriver, bus)
    if made[0] != "ok":
        return [("C18:unipi:bus:constructor-raised", "SyncUnipiDALIDriver(bus=%d) raised %r" % (bus, made[1]))]
    d = made[1]
    counters = None
    if "counter" in case:
        counters = {b: (case["counter"] if b == bus else case.get("others", 100) + 3 * b) for b in RW.UNIPI_REGS}
    step = case.get("step", 1)
    if step % 65536 == 0:
        raise ValueError("a counter that does not move announces nothing")
    gw = UnipiGateway({bus: answer}, fe_on, counters, step, case.get("fe_start", 7))
    d.backend.pymc = gw
    _UNIPI_CLOCK.append(gw)
    try:
        out = _call(d.send, cmd)
    finally:
        _UNIPI_CLOCK.remove(gw)
    where = "unipi bus=%d %s %d-bit frame %#x (sendtwice=%s, gear answers %r, framing-error counter moving: %s)" % (
        bus, type(cmd).__name__, bits, value, twice, answer, fe)
    if counters is not None:
        c0 = counters[bus]
        where += " [channel's receive counter %d before the command, %d with the answer; framing-error counter from %d]" % (
            c0, (c0 + step) & 0xFFFF, case.get("fe_start", 7))
    vs = []
    regs = RW.unipi_encode(bits, value, twice)
    wr = [w for w in gw.writes if w[0] != "coil"]
    if out[0] == "raised" and not wr:
        return []                       # refusing is always allowed
    exp_one = (lay["send"][0], regs)
    exps = [[exp_one], [exp_one, exp_one]] if twice else [[exp_one]]
    if wr not in exps:
        if [w[1] for w in wr] in [[e[1] for e in x] for x in exps]:
            field = "send-register-number"
        else:
            field = "register-writes"
        vs.append(("C18:unipi:bus:%s" % field,
                   "%s: wrote (register, values) %r; channel %d's send pair is registers %r, expected %r"
                   % (where, wr, bus, lay["send"], exps[0])))
    own = set(lay["recv"]) | {lay["fe"]}
    dali_area = set()
    for r in RW.UNIPI_REGS.values():
        dali_area |= set(r["recv"]) | set(r["send"]) | {r["fe"]}
    foreign = sorted({reg + i for reg, cnt in gw.reads for i in range(cnt)} & (dali_area - own))
    if foreign:
        vs.append(("C18:unipi:bus:receive-register-number",
                   "%s: read registers %r (reads %r); channel %d's receive triple is %r, its framing-error counter %d"
                   % (where, foreign, gw.reads, bus, lay["recv"], lay["fe"])))
    # what the caller is told
    got = norm_response(out)
    if cmd.response is None:
        ok = got in (("no-answer",), ("none",))
        ref = {"kind": "none"}
    elif answer is not None:
        ref = {"kind": "backward", "value": answer}
        ok = got == ("backward", answer)
    elif fe == "own" and type(cmd).__name__ == "Compare":
        ref = {"kind": "backward", "value": 0xFF}       # several gear said YES at once: counted as a framing error
        ok = got in (("backward", 0xFF), ("framing-error",))
    else:
        ref = {"kind": "no-answer"}
        ok = got == ("no-answer",)
    if not ok and not vs:
        vs.append(("C18:unipi:bus:decode:%s-reported-as-%s" % (ref["kind"], got[0]),
                   "%s: the caller must see %r, got %r (writes %r, reads %r)" % (where, ref, got, wr, gw.reads)))
    elif not ok:
        vs[-1] = (vs[-1][0], vs[-1][1] + "; the caller got %r instead of %r" % (got, ref))
    return vs


def case_observe(case):
    """Tridonic HID: an observed forward frame reaches the bus_traffic callback with its bits intact."""
    env = _env()
    bits, value = case["bits"], case["value"]
    H = env["H"]
    H.random.start = 1
    d = H.tridonic("/dev/verif-tridonic-watch")
    seen = []
    d.bus_traffic.register(lambda dev, c, resp, err: seen.append((len(c.frame), c.frame.as_integer)))
    rtype = {16: 0x73, 24: 0x76}[bits]
    pkt = RW.tridonic_report(case.get("origin", 0x11), rtype, value, seq=0)

    async def go():
        t = asyncio.ensure_future(d._bus_watch())
        await asyncio.sleep(0)
        d._handle_read(pkt)
        for _ in range(6):
            await asyncio.sleep(0)
        t.cancel()
        try:
            await t
        except asyncio.CancelledError:
            pass
    out = _run(go())
    if out[0] != "ok":
        return [("C18:tridonic-hid:decode:bus-watch-%s" % out[0], "observed %d-bit frame %#x: %r" % (bits, value, out[1]))]
    if seen != [(bits, value)]:
        return [("C18:tridonic-hid:decode:forward-frame",
                 "observed report type %#x frame %#x: bus_traffic callback got %r" % (rtype, value, seen))]
    return []


# ------------------------------------------------------------- decode histories ----
# LUBA / SCI: the report under test is decoded by a driver that has been used before and whose receiver still holds
# left-over packets of an earlier exchange when the next send() starts.  The whole driver (connect(), send()) runs on
# the harness's virtual-time loop against harness.gateways_serial; the gateway's packets arrive with latencies inside
# the protocol's windows (confirmation after the frame's time on the bus, answer inside the driver's answer window).
def leftovers(driver):
    """Well-formed packets that may be left over from an earlier exchange, by name."""
    if driver == "sci":
        f = RW.sci_frame
        out = [("status-ok", f(0x00, 0, 0, 0)), ("status-dali-no", f(0x01, 0, 0, 0)), ("status-ok-id9", f(0x90, 0, 0, 0)),
               ("status-dali-no-id3", f(0x31, 0, 0, 0)), ("stale-backward", f(0x02, 0, 0, 0xEE)),
               ("two-status", f(0x00, 0, 0, 0) + f(0x01, 0, 0, 0)),
               ("status+stale-backward", f(0x31, 0, 0, 0) + f(0x32, 0, 0, 0xEE)),
               ("observed-forward", f(0x03, 0, 0xFF, 0x00)), ("unsupported-kind", f(0x05, 1, 2, 3))]
        out += [("error-%d" % e, f(0x07, 0, 0, e)) for e in (1, 2, 3, 4, 5)]
        return out
    ev = RW.luba_event
    return [("stale-backward", RW.luba_event_received([0xEE])), ("two-stale-backward", RW.luba_event_received([0xEE]) * 2),
            ("bus-error", ev((2 << 6) | 63, [])), ("tx-response", RW.luba_frame(0x33, [9, 0])),
            ("observed-forward", RW.luba_event_received([0xFF, 0x00])),
            ("settings", RW.luba_frame(0x2B, [0, 0x12, 0])), ("device-info", RW.luba_frame(0x21, list(range(1, 21)))),
            ("bus-error+stale-backward", ev((2 << 6) | 62, []) + RW.luba_event_received([0xEE])),
            ("event-type-1", ev(0x40, []))]


EARLIER = ("none", "command", "query-answered", "query-unanswered")


def case_decode_hist(case):
    env = _env()
    driver = case["driver"]
    from harness import gateways_serial as GS
    S = env["S"]
    gg = env["gg"]
    cmd = _query()
    fb = list(cmd.frame.as_byte_sequence)
    left = dict(leftovers(driver))[case["left"]]
    if driver == "luba":
        status, data = case["code"], case["payload"]
        et = status >> 6
        under = RW.luba_event(status, ([7] + fb) if et == 0 else data)
        ref = RW.luba_event_decode(list(under[3:-1]))
        script = [(RW.luba_frame(0x33, [7, 0]), "ack")] + \
                 ([] if et == 0 else [(RW.luba_event_sent(7, fb), "tx")]) + [(under, "tx" if et == 0 else "answer")]
        cls, base = S.DriverLubaRs232, GS.LubaGateway
        where = "luba event status %#x data %r" % (status, data)
    else:
        b0, d3 = case["code"], case["payload"]
        under = RW.sci_frame(b0, *d3)
        ref = RW.sci_decode(under)
        script = [(RW.sci_frame(0x00, 0, 0, 0), "tx"), (under, "sci-answer")]
        cls, base = S.DriverSCIRS232, GS.SciGateway
        where = "sci frame %s" % under.hex()
    where += " (decoded by a connected driver; earlier exchange: %s; packet(s) %s [%s] left over in the receiver when " \
             "send() starts; latencies %r)" % (case["earlier"], case["left"], left.hex(), case["lat"])

    class Gateway(base):
        script = None

        def scripted(self):
            for chunk, lat in self.script:
                self.emit(chunk, lat)
            self.script = None

        def handle(self, *a):
            if self.script is None:
                return base.handle(self, *a)
            if driver == "luba" and a[0] != 0x32:
                return base.handle(self, *a)
            self.scripted()

    saved = cls.timeout_rx
    cls.timeout_rx = env["timeout_rx"][driver]
    sim = GS.SerialSim(driver)
    try:
        sim.gw = Gateway(sim)
        if not sim.connect():
            return [("C18:%s:decode:connect-failed" % driver, "connect() against the gateway model did not complete")]
        # an earlier exchange, completed
        earlier = {"none": None, "command": gg.Off(2), "query-answered": gg.QueryStatus(2),
                   "query-unanswered": gg.QueryStatus(3)}[case["earlier"]]
        if earlier is not None:
            sim.expect(earlier, ("value", 0x04) if case["earlier"] == "query-answered" else ("silent",))
            t0 = sim.start(sim.driver.send(earlier))
            sim.drain()
            if not t0.done() or t0.exception() is not None:
                return [("C18:%s:decode:earlier-exchange-failed" % driver, "%s: send(%s) did not complete: %r"
                         % (where, earlier, t0.exception() if t0.done() else "pending"))]
        # what is left over arrives and is read; nobody is sending
        sim.inject(left)
        sim.run_until(sim.loop.time() + 0.2)
        child = sim.driver.new_dali_rx_queue()
        sim.latencies = [x / 8.0 for x in case["lat"]]
        sim.gw.script = script
        sim.tasks = []
        t = sim.start(sim.driver.send(cmd))
        sim.drain()
        if not t.done():
            out = ("hang", None)
        elif t.exception() is not None:
            if library_frame(t.exception().__traceback__) is None:
                raise t.exception()
            out = ("raised", t.exception())
        else:
            out = ("ok", t.result())
        sim.run_until(sim.loop.time() + 0.2)
        seen = []
        while child.qsize():
            c = child.get_nowait()
            seen.append((len(c.frame), c.frame.as_integer))
    finally:
        cls.timeout_rx = saved
        sim.close()
    if ref["kind"] in ("sent",):
        ref = {"kind": "none"}
    vs = judge_decode(driver, ref, norm_response(out), where, forward_seen=seen)
    return [(sig.replace(":decode:", ":decode-after-leftovers:"), msg) for sig, msg in vs]


def case_observe_seq(case):
    """Tridonic HID: several observed packets one directly after the other; every forward frame among them reaches the
    bus_traffic callback with its bits intact - also the one that tells the watcher that the previous command got no
    repeat / no answer."""
    env = _env()
    H = env["H"]
    H.random.start = 1
    d = H.tridonic("/dev/verif-tridonic-watch")
    seen = []
    d.bus_traffic.register(lambda dev, c, resp, err: seen.append((len(c.frame), c.frame.as_integer)))
    pkts = []
    for p in case["packets"]:
        if p[0] == "backward":
            pkts.append(RW.tridonic_report(0x11, 0x72, p[1], seq=0))
        else:
            pkts.append(RW.tridonic_report(0x11, {16: 0x73, 24: 0x76}[p[0]], p[1], seq=0))

    async def go():
        t = asyncio.ensure_future(d._bus_watch())
        await asyncio.sleep(0)
        for pkt in pkts:
            d._handle_read(pkt)          # one read per loop iteration, the watcher runs in between (as in asyncio)
            for _ in range(3):
                await asyncio.sleep(0)
        for _ in range(8):
            await asyncio.sleep(0)
        t.cancel()
        try:
            await t
        except asyncio.CancelledError:
            pass
    out = _run(go())
    how = "observed packets %r one after the other" % (case["packets"],)
    if out[0] != "ok":
        return [("C18:tridonic-hid:decode:bus-watch-%s" % out[0], "%s: %r" % (how, out[1]))]
    if seen != [tuple(x) for x in case["expect"]]:
        return [("C18:tridonic-hid:decode:forward-frame-sequence",
                 "%s: bus_traffic callback got %r, the packets denote the commands %r" % (how, seen, case["expect"]))]
    return []


def run_case(case):
    """The rigs run the drivers on a real event loop (2 ms receive window, 3 s to finish): on a starved machine a case
    can time out without the library being at fault.  A verdict against the library therefore has to reproduce: the
    case is run again, and only what shows in two runs is reported (the library is deterministic; starvation is not)."""
    vs = _run_case_once(case)
    if not vs:
        return vs
    again = _run_case_once(case)
    both = [v for v in vs if v[0] in {x[0] for x in again}]
    if len(both) != len(vs) or len(again) != len(vs):
        third = _run_case_once(case)
        seen = {}
        for run in (vs, again, third):
            for sig, msg in run:
                seen.setdefault(sig, []).append(msg)
        both = [(sig, msgs[0]) for sig, msgs in seen.items() if len(msgs) >= 2]
        _UNREPRODUCED[0] += len(seen) - len(both)
    return both


_UNREPRODUCED = [0]


LEGACY_HASSEB_REPORTS = {
    # name -> 10-byte report of the hasseb firmware (0xAA, 0x07 = DALI frame report, sn, status, length, data ...)
    "nodata": [0xAA, 0x00, 0, 0, 0, 0, 0, 0, 0, 0], "no-answer": [0xAA, 0x07, 0, 1, 0, 0, 0, 0, 0, 0],
    "ok": [0xAA, 0x07, 0, 2, 1, None, 0, 0, 0, 0], "invalid": [0xAA, 0x07, 0, 3, 0, 0, 0, 0, 0, 0],
    "too-early": [0xAA, 0x07, 0, 4, 0, 0, 0, 0, 0, 0], "sniffer": [0xAA, 0x07, 0, 5, 1, 0x5A, 0, 0, 0, 0],
    "sniffer-error": [0xAA, 0x07, 0, 6, 0, 0, 0, 0, 0, 0], "firmware": [0xAA, 0x02, 0, 1, 7, 0, 0, 0, 0, 0],
}


def case_legacy_hist(case):
    """case: {"kind": "legacy-hist", "earlier": none|command|query-answered|query-unanswered, "reports": [names], "value": b}
    The synchronous legacy hasseb driver: an earlier exchange, then a query for which the firmware delivers the listed
    reports (and then nothing more).  send() returns what the FIRST report that ends an exchange denotes (answer,
    framing error, no answer); reports that end nothing are passed over; when nothing ends it: no answer."""
    env = _env()
    gg = env["gg"]
    r = LegacyHasseb()
    d = r.d
    where = "legacy-hasseb: earlier exchange %s, then QueryActualLevel with reports %r" % (case["earlier"], case["reports"])
    earlier = {"none": None, "command": gg.Off(2), "query-answered": gg.QueryStatus(2), "query-unanswered": gg.QueryStatus(3)}[case["earlier"]]
    if earlier is not None:
        d.device.to_read = []
        if case["earlier"] == "query-answered":
            d.device.to_read = [bytes([0xAA, 0x07, 0, 2, 1, 0x04, 0, 0, 0, 0])]
        elif case["earlier"] == "query-unanswered":
            d.device.to_read = [bytes(LEGACY_HASSEB_REPORTS["no-answer"])]
        out0 = _call(d.send, earlier)
        if out0[0] != "ok":
            return [("C18:legacy-hasseb:send-raised:%s" % type(out0[1]).__name__, "%s: the earlier exchange raised %r" % (where, out0[1]))]
    reps = []
    for name in case["reports"]:
        rep = list(LEGACY_HASSEB_REPORTS[name])
        if name == "ok":
            rep[5] = case["value"]
        reps.append(bytes(rep))
    ref = {"kind": "no-answer"}
    for rep in reps:
        k = RW.hasseb_new_decode(rep)
        if k["kind"] in ("backward", "framing-error", "no-answer"):
            ref = k
            break
    if ref == {"kind": "no-answer"} and not any(RW.hasseb_new_decode(x)["kind"] == "no-answer" for x in reps):
        # nothing ends the exchange: the firmware keeps delivering its idle report (a blocking read never comes back
        # empty-handed) until the driver gives up
        reps = reps + [bytes(LEGACY_HASSEB_REPORTS["nodata"])] * 260
    d.device.to_read = list(reps)
    out = _call(d.send, gg.QueryActualLevel(1))
    return judge_decode("legacy-hasseb", ref, norm_response(out), where)


def _run_case_once(case):
    kind = case["kind"]
    if kind == "legacy-hist":
        return case_legacy_hist(case)
    return {"encode": case_encode, "length": case_length, "seq": case_seq, "decode": case_decode,
            "observe": case_observe, "unipi-bus": case_unipi_bus, "seqmix": case_seqmix,
            "decode-hist": case_decode_hist, "observe-seq": case_observe_seq}[kind](case)


# ------------------------------------------------------------------------ shards ----
def _note(res, case, vs):
    for sig, msg in vs:
        res.violation(sig, case, msg)
        res.excluded["violating-cases:" + sig] += 1


A24 = [0x01, 0x7F, 0x81, 0xBF, 0xFD, 0xFF, 0xC1, 0xC3, 0xC5, 0xC7, 0xC9, 0xCB, 0xDF]
I24 = [0x00, 0x1F, 0x80, 0x9F, 0xC0, 0xDF, 0xFD, 0xFE, 0xFF, 0x30, 0x31, 0x32, 0x33]


def frames24(quick, seed):
    out = []
    step = 3 if quick else 1
    for a in (A24 if quick else sorted(set(A24) | set(range(1, 256, 2)))):
        for i in I24:
            for o in range((seed + a + i) % step, 256, step):
                out.append((a << 16) | (i << 8) | o)
    for i in range(256):                       # special device commands: 0xC1, opcode, data
        for o in (0x00, 0x01, 0x55, 0xFF):
            out.append((0xC1 << 16) | (i << 8) | o)
    for a in (0x00, 0x02, 0x7E, 0x80, 0xBE, 0xC0, 0xFE):        # event frames
        for i in (0x00, 0x04, 0x80, 0xFC):
            for o in (0x00, 0x01, 0xFF):
                out.append((a << 16) | (i << 8) | o)
    return sorted(set(out))


def _enc_shard(arg):
    what, items = arg
    res = Result()
    classes = {}
    for bits, value, dt in items:
        cmd = make_cmd(bits, value, dt)
        cname = type(cmd).__name__
        classes[cname] = classes.get(cname, 0) + 1
        for driver in DRIVERS:
            case = {"kind": "encode", "driver": driver, "bits": bits, "value": value, "dt": dt}
            res.count()
            res.nontrivial()
            vs = run_case(case)
            _note(res, case, vs)
        res.label("encode:%d-bit:%s%s" % (bits, "send-twice" if cmd.sendtwice else "once",
                                         ":query" if cmd.response is not None else ""))
    res.extra["classes_encoded"] = {k: v for k, v in classes.items()}
    res.sample({"kind": "encode", "driver": "luba", "bits": items[0][0], "value": items[0][1], "dt": items[0][2]},
               cls="encode-%d" % items[0][0])
    return res


def _decode_codes(driver, res, sparse=False):
    """Every status/type code of the LUBA / SCI report formats x payload values."""
    cases = []
    if driver == "luba":
        for status in range(256):
            et, info = status >> 6, status & 63
            if et == 2 and info == 8:
                for v in range(256):
                    cases.append({"kind": "decode", "driver": "luba", "code": status, "payload": [v]})
            elif et == 2 and info in (16, 24):
                for fb in ([[0xFF, 0x00], [0x02, 0x80]] if info == 16 else [[0xFF, 0xFE, 0x00], [0xC1, 0x30, 0x07]]):
                    cases.append({"kind": "decode", "driver": "luba", "code": status, "payload": fb})
            elif et == 2 and 1 <= info <= 32:
                res.excluded["luba received-event with a bit count other than 8/16/24: not judged"] += 1
            elif et != 2:
                cases.append({"kind": "decode", "driver": "luba", "code": status, "payload": []})
            else:
                # an error / unknown "event info": with and without bytes in the place where a frame would be
                for pl in ([], [0x55], [0x55, 0xAA]):
                    cases.append({"kind": "decode", "driver": "luba", "code": status, "payload": pl})
    else:
        for b0 in range(256):
            code = b0 & 15
            if code == 2:
                for v in (range(256) if b0 >> 4 in (0, 9) else (0, 0x5A, 0xFF)):
                    cases.append({"kind": "decode", "driver": "sci", "code": b0, "payload": [0, 0, v]})
            elif code == 3:
                cases.append({"kind": "decode", "driver": "sci", "code": b0, "payload": [0, 0xFF, 0x00]})
                cases.append({"kind": "decode", "driver": "sci", "code": b0, "payload": [0, 0x02, 0x80]})
            elif code == 8:
                cases.append({"kind": "decode", "driver": "sci", "code": b0, "payload": [0xFF, 0xFE, 0x00]})
            elif code == 7:
                for e in (0, 1, 2, 3, 4, 5, 6, 0xFF):
                    cases.append({"kind": "decode", "driver": "sci", "code": b0, "payload": [0, 0, e]})
            else:
                cases.append({"kind": "decode", "driver": "sci", "code": b0, "payload": [0, 0, 0]})
                cases.append({"kind": "decode", "driver": "sci", "code": b0, "payload": [1, 2, 3]})
    return cases


def _misc_shard(arg):
    part, seed, quick = arg
    res = Result()
    cases = []
    if part == "length":
        for driver in DRIVERS:
            for bits in LENGTHS:
                for value in sorted({1, (1 << bits) - 1, (0xA5A5A5A5 >> (32 - bits)), 1 << (bits - 1)}):
                    cases.append({"kind": "length", "driver": driver, "bits": bits, "value": value})
    elif part == "seq":
        starts = sorted({1, 2, 128, 254, 255, 1 + seed % 255})
        for driver in ("tridonic-hid", "legacy-tridonic", "legacy-hasseb"):
            for s in starts:
                cases.append({"kind": "seq", "driver": driver, "start": s, "n": 700})
    elif part == "seqmix":
        cases = seqmix_cases(seed)
    elif part == "legacy-hist":
        import itertools
        names = sorted(LEGACY_HASSEB_REPORTS)
        lists = [[]] + [[a] for a in names] + [list(t) for t in itertools.product(names, repeat=2)] + \
                [["too-early", "sniffer", "nodata", n] for n in names] + [["nodata"] * 5 + ["ok"], ["too-early"] * 199, ["nodata"] * 250]
        for earlier in EARLIER:
            for k, reps in enumerate(lists):
                cases.append({"kind": "legacy-hist", "driver": "legacy-hasseb", "earlier": earlier, "reports": reps, "value": (0x33 + 7 * k + seed) % 255})
    elif part == "sendlevel":
        # what send() writes (not only construct()) for ATX / legacy hasseb
        for v in (0xFF00, 0xFF20, 0x0320, 0xFF90, 0x01FE, 0xA500, 0xA300):
            for driver in ("atx", "legacy-hasseb"):
                cases.append({"kind": "encode", "driver": driver, "bits": 16, "value": v, "dt": 0, "full": True})
    elif part == "decode-tridonic":
        for code in range(256):
            pl = range(256) if code in (0x72, 0x77) else (0, 3, 0xFF00, 0x123456)
            for p in pl:
                cases.append({"kind": "decode", "driver": "tridonic-hid", "code": code, "payload": p})
        # bus-status reports other than "framing error" end nothing: the answer that follows is the answer
        for st_ in range(256):
            if st_ != 3:
                cases.append({"kind": "decode", "driver": "tridonic-hid", "code": 0x77, "payload": st_, "then_answer": (0x5A + st_) % 256})
    elif part == "decode-legacy-tridonic":
        for origin in (0x11, 0x12, 0x01, 0x13):
            for code in range(256):
                pl = range(256) if code in (0x72, 0x77) and origin == 0x12 else (0, 3, 0xFF93, 0x5A)
                for p in pl:
                    cases.append({"kind": "decode", "driver": "legacy-tridonic", "origin": origin, "code": code,
                                  "payload": p})
    elif part == "decode-hasseb":
        for code in range(256):
            for p in (range(256) if code == 2 else (0, 0x5A, 0xFF)):
                cases.append({"kind": "decode", "driver": "hasseb-hid", "code": code, "payload": p})
        for cmdcode in (0x00, 0x07, 0x02, 0x05):
            for code in range(256):
                for ln in (0, 1, 2):
                    for p in (range(256) if (code == 2 and ln == 1 and cmdcode == 7) else (0, 0x5A, 0xFF)):
                        cases.append({"kind": "decode", "driver": "legacy-hasseb", "cmdcode": cmdcode, "code": code,
                                      "len": ln, "payload": p})
    elif part == "decode-luba":
        cases = _decode_codes("luba", res)
    elif part == "decode-sci":
        cases = _decode_codes("sci", res)
    elif part == "decode-small":
        for code in range(256):
            for p in (range(256) if code == 1 else (0, 0x5A, 0xFF)):
                cases.append({"kind": "decode", "driver": "daliserver", "code": code, "payload": p})
        for v in range(256):
            cases.append({"kind": "decode", "driver": "atx", "line": "J%02X" % v})
        for line in ("N", "X", "J", "JZZ", "Q00", "j5A", "J5a"):
            cases.append({"kind": "decode", "driver": "atx", "line": line})
        for code in [0, 1, 2, 0x80, 0xFF, 0x100, 0x101, 0x1FF, 0x200, 0x201, 0x300, 0x400, 0xFFFF] + \
                list(range(0x100, 0x10000, 0x100)):
            for p in (range(256) if code == 0x100 else (0, 0x5A, 0xFF, 0xFF93, 0x1234)):
                cases.append({"kind": "decode", "driver": "unipi", "code": code, "payload": p})
    elif part == "unipi-bus":
        f16 = [0x03A0, 0x0390, 0xFFA0, 0x020A, 0xFE00, 0x0500, 0x0920, 0xFF20, 0xA300 | (seed & 0xFF), 0xA900, 0xA500,
               0xB900, 0x0380 | (seed % 16) | 0x100]
        f24 = [0x03FE30, 0xFFFE36, 0xC13001, 0x01FE00 | (0x10 + seed % 8), 0x03FE10]
        for bus in sorted(RW.UNIPI_REGS):
            for bits, vals in ((16, f16), (24, f24)):
                for v in vals:
                    cmd = make_cmd(bits, v, 0)
                    if cmd.response is None:
                        variants = [(None, "none"), (0x5A, "own")]      # stray traffic must not become an answer
                    else:
                        variants = [(0x00, "none"), (0x5A, "none"), (0xFF, "other"), ((seed * 37 + bus) & 0xFF, "none"),
                                    (None, "none"), (None, "other"), (None, "own")]
                    for ans, fe in variants:
                        cases.append({"kind": "unipi-bus", "driver": "unipi", "bus": bus, "bits": bits, "value": v,
                                      "answer": ans, "fe": fe})
        # the receive / framing-error counters are 16-bit registers: every reading, the wrap 65535 -> 0 and a
        # counter that starts again (channel restarted) between the reading before the command and the answer
        starts = [0, 1, 2, 0x7FFF, 0x8000, 65533, 65534, 65535, (seed * 7919 + 13) & 0xFFFF]
        for bus in sorted(RW.UNIPI_REGS):
            for bits, v in ((16, 0x03A0), (16, 0xFF90), (24, 0x03FE30), (16, 0xA900)):
                for ci, c0 in enumerate(starts):
                    for step in (1, 2, 0x8000, 65535, 65536 - c0 if c0 else 7):
                        ans = (0x5A, 0x00, 0xFF)[(ci + step) % 3]
                        cases.append({"kind": "unipi-bus", "driver": "unipi", "bus": bus, "bits": bits, "value": v,
                                      "answer": ans, "fe": "none", "counter": c0, "step": step,
                                      "others": starts[(ci + 3 + bus) % len(starts)], "fe_start": starts[(ci + 5) % len(starts)]})
                    # no answer while the other lines' counters (and the other framing-error counter) wrap
                    cases.append({"kind": "unipi-bus", "driver": "unipi", "bus": bus, "bits": bits, "value": v,
                                  "answer": None, "fe": "other", "counter": c0, "step": 1,
                                  "others": 65534 - 3 * ((bus + 1) % 4), "fe_start": 65535})
                    if v == 0xA900:     # Compare: the only evidence is this channel's framing-error counter, wrapping
                        cases.append({"kind": "unipi-bus", "driver": "unipi", "bus": bus, "bits": bits, "value": v,
                                      "answer": None, "fe": "own", "counter": c0, "step": 1, "others": c0,
                                      "fe_start": (65535, 65534, 0)[ci % 3]})
    elif part == "observe":
        gg = _env()["gg"]
        for v in [0xFE00 | x for x in range(0, 256, 5)] + [0x0200 | x for x in range(3, 256, 17)] + \
                 [0xFF00, 0xFF05, 0x8301, 0xFF10, 0x0108, 0xA100, 0xA300 | 0x5A, 0xC108]:
            cases.append({"kind": "observe", "bits": 16, "value": v})
            cases.append({"kind": "observe", "bits": 16, "value": v, "origin": 0x12})
        for v in (0xC13001, 0xC13155, 0xC132FF, 0xFFFE36, 0x01FE36, 0xC10000, 0xC10600, 0x000001, 0xFE0455):
            cases.append({"kind": "observe", "bits": 24, "value": v})
        # sequences: a command that needs a repeat / an answer, and directly behind it another forward frame (no
        # timer involved): every forward frame is reported, the repeated configuration command once
        configs = [(16, 0xFF20), (16, 0x0381), (16, 0xA500), (24, 0xFFFE10), (24, 0x03FE14)]
        queries = [(16, 0x03A0), (16, 0xFF90), (24, 0x03FE30)]
        plain = [(16, 0xFE80), (16, 0xFF00), (16, 0x0305), (24, 0xC13001), (24, 0xC10000)]
        for grp, tw, rsp in ((configs, True, False), (queries, False, True), (plain, False, False)):
            for bits, v in grp:
                c = make_cmd(bits, v, 0)
                if bool(c.sendtwice) != tw or (c.response is not None) != rsp:
                    raise ValueError("frame %#x is not what the sequence generator takes it for" % v)
        for i, a in enumerate(configs):
            for j, b in enumerate(plain):
                a2 = configs[(i + 1 + j % (len(configs) - 1)) % len(configs)]     # another configuration command
                cases.append({"kind": "observe-seq", "packets": [a, b], "expect": [a, b]})
                cases.append({"kind": "observe-seq", "packets": [a, a, b], "expect": [a, b]})
                cases.append({"kind": "observe-seq", "packets": [a, a2, b], "expect": [a, a2, b]})
                cases.append({"kind": "observe-seq", "packets": [a, a2, a2, b], "expect": [a, a2, b]})
        for i, a in enumerate(queries):
            for j, b in enumerate(plain):
                cases.append({"kind": "observe-seq", "packets": [a, b], "expect": [a, b]})
                cases.append({"kind": "observe-seq", "packets": [a, ("backward", 0x5A), b], "expect": [a, b]})
                cases.append({"kind": "observe-seq", "packets": [a, configs[(i + j) % len(configs)], b],
                              "expect": [a, configs[(i + j) % len(configs)], b]})
    if part.startswith("decode-hist-"):
        # every status/type code once more, decoded after left-over packets of every kind
        driver, k0, nk = part.split("-")[2], int(part.split("-")[3]), int(part.split("-")[4])
        base = _decode_codes(driver, res)
        lo = leftovers(driver)
        for k, c in enumerate(base):
            if k % nk != k0:
                continue
            j = k + seed
            cases.append(dict(c, kind="decode-hist", left=lo[j % len(lo)][0], earlier=EARLIER[(j // len(lo)) % len(EARLIER)],
                              lat=[(j * 5 + 3 * i) % 8 for i in range(4)]))
        # every kind of left-over x every earlier exchange, in front of an answered and an unanswered query
        if k0 == 0:
            for i, (name, _b) in enumerate(lo):
                for e, earlier in enumerate(EARLIER):
                    for u in (0, 1):
                        if driver == "luba":
                            code, pl = ((2 << 6) | 8, [0x33 + i]) if u == 0 else ((2 << 6) | 63, [])
                        else:
                            code, pl = (0x02, [0, 0, 0x33 + i]) if u == 0 else (0x01, [0, 0, 0])
                        cases.append({"kind": "decode-hist", "driver": driver, "code": code, "payload": pl, "left": name,
                                      "earlier": earlier, "lat": [(seed + i + e + 4 * u) % 8, 7, (i + seed) % 8, 7 - e]})
    if part in ("decode-luba", "decode-sci"):
        # the same reports once more, each behind a packet with a damaged checksum
        flips = (0x01, 0x80, 0xFF, 0x59)
        extra = []
        for k, case in enumerate(cases):
            if part == "decode-luba" and case["code"] >> 6 == 2 and case["code"] & 63 == 8 and case["payload"][0] % 16 != 5:
                continue
            if part == "decode-sci" and case["code"] & 15 == 2 and case["payload"][2] % 16 != 5:
                continue
            extra.append(dict(case, damaged=flips[(k + seed) % 4]))
        cases += extra
    for case in cases:
        if case["kind"] == "observe-seq":
            case["driver"] = "tridonic-hid"
            case["packets"] = [list(x) for x in case["packets"]]
            case["expect"] = [list(x) for x in case["expect"]]
        if case["kind"] == "observe":
            case["driver"] = "tridonic-hid"
            cmd = make_cmd(case["bits"], case["value"], 0)
            if cmd.sendtwice or cmd.response is not None:
                continue            # reported only after a repeat/answer/timeout: C20's business
        res.count()
        res.nontrivial()
        res.label("%s:%s" % (case["kind"], case["driver"]))
        _note(res, case, run_case(case))
    if cases:
        res.sample(cases[len(cases) // 2], cls=part)
    return res


def run(ctx):
    quick = ctx.quick
    stride = 3 if quick else 1
    vals16 = list(range(ctx.seed % stride, 65536, stride))
    items = [(16, v, 0) for v in vals16]
    # application extended opcodes under every device type with registered commands
    for dt in range(1, 9):
        for a in (0x01, 0x7F, 0x81, 0xFF, 0xFD):
            for o in range(0xE0, 0x100):
                items.append((16, (a << 8) | o, dt))
    items += [(24, v, 0) for v in frames24(quick, ctx.seed)]
    nsh = 48
    shards = [("enc", items[k::nsh]) for k in range(nsh)]
    ctx.pmap(_enc_shard, shards)
    parts = ["length", "seq", "seqmix", "sendlevel", "decode-tridonic", "decode-legacy-tridonic", "decode-hasseb", "decode-luba",
             "decode-sci", "decode-small", "observe", "unipi-bus", "legacy-hist"]
    parts += ["decode-hist-%s-%d-4" % (d, k) for d in ("luba", "sci") for k in range(4)]
    ctx.pmap(_misc_shard, [(p, ctx.seed, quick) for p in parts])
    res = ctx.result
    env = _env()
    command = env["command"]
    reg = {c.__name__ for c in command.Command._commands}
    done = set(res.extra.get("classes_encoded", {}))
    res.extra["command_classes_registered"] = len(reg)
    res.extra["command_classes_encoded"] = len(done & reg)
    res.extra["command_classes_not_reached_by_from_frame_sampling"] = sorted(reg - done)
    res.extra["classes_encoded"] = len(done)
    res.extra["frames16"] = "all 65536" if stride == 1 else "every %dth from offset %d (%d)" % (stride, ctx.seed % stride,
                                                                                               len(vals16))
    res.exhaustive = False
