"""C07 - commissioning terminates and assigns distinct, permitted short addresses.

The library's Commissioning() generator is run, through the fake bus, against a population of
frame-level IEC 62386-102 gear models (harness/model_gear.py) whose RANDOMISE results are scripted
by the generated case: the first draws come from a tiny pool (forcing clashes, repeated clashes,
clashes at 0 and 0xFFFFFF, re-randomisation after a clash), later draws are distinct per unit.
"""
from hypothesis import strategies as st

from harness import hyp
from harness.bus import Bus, NonTermination, run_interleaved
from harness.model_gear import GearModel, DISABLED
from harness.runner import Result, library_frame

ID = "C07"
LEVEL = "exploration"
RULE = ("Hypothesis-generated buses: 0..70 gear with arbitrary initial short addresses (duplicates allowed), permitted "
        "subsets, readdress/dry-run flags, the three documented parameters passed by keyword / by position (available_addresses, "
        "readdress, dry_run in that order) / mixed / left out when they have their default value, scripted random-address streams (up to 4 draws per unit from a tiny pool, and for "
        "two or three units a common run of 0..40 identical draws before they differ), faulty units (never stores / stores "
        "but does not answer VERIFY / fails once) anywhere on the bus, with or without clashes; listed buses with a run of "
        "0..40 consecutive clashes x both readdress modes x other (healthy or faulty) units below / above the clashing "
        "ones, each met with every way of passing the arguments; distinct by case "
        "fingerprint; non-trivial = at least one clash restart (RANDOMISE issued more than once), or more than 64 units, "
        "or the permitted set is exhausted, or a unit draws 0 or 0xFFFFFF; two runs in flight: (two such buses of 0..6 gear "
        "each with their own permitted sets / flags, advance order) - fixed pairs of buses x a list of advance orders "
        "(round-robin, reversed, blocks of 2 and 3, head starts up to the middle of the address search, one run completely "
        "inside the other, strictly sequential) plus Hypothesis-generated pairs with run-length advance orders; "
        "non-trivial = the two runs overlap in time (neither finished before the other started) and differ")
ASSUMPTIONS = [
    "gear follow harness/model_gear.py: RANDOMISE/PROGRAM SHORT ADDRESS/VERIFY act in ENABLED and WITHDRAWN state, COMPARE "
    "and WITHDRAW only in ENABLED (IEC 62386-102 9.14.2; dali/tests/fakes.py models the same)",
    "two or more simultaneous answers are a framing error; the 15-minute initialisation timer is not modelled",
    "clashing units eventually draw different random addresses (fallback draws are distinct per unit)",
    "a unit 'does not confirm its new address' when a PROGRAM SHORT ADDRESS reached it (it is in initialisation mode and "
    "its random address equals the search address) and it either did not store that address or does not answer VERIFY "
    "SHORT ADDRESS; ProgramShortAddressFailure is demanded exactly when that happened to some unit during the run, however "
    "many clash restarts follow, and is spurious otherwise (a faulty unit that is never programmed - not participating, "
    "dry run, no address left - is an ordinary unit)",
    "Commissioning runs in flight at the same time on separate buses (one driver per DALI line in one process) are "
    "independent: each must put on its bus, do to its gear and return (or raise) exactly what it does when it runs alone "
    "on a fresh identical bus",
]

POOL = [0, 1, 2, 0x7FFFFF, 0x800000, 0xFFFFFE, 0xFFFFFF]
FAULTS = ["ignore_program", "mute_verify", "fail_once", "stuck"]     # stuck: the stored short address cannot be changed at all
HARD_CAP = 400000


def _load():
    from dali import sequences, exceptions
    return sequences, exceptions


def fallback_for(i):
    return 0x001000 + 0x2F1 * i


FORMS = ["list", "tuple", "set", "frozenset", "iterator", "generator", "dict-keys", "range-if-contiguous", "reversed"]


def as_form(permitted, form):
    """The permitted set handed over as one of the iterables a caller may reasonably use
    (the docstring says only "the specified addresses")."""
    if permitted is None:
        return None
    p = list(permitted)
    if form == "tuple":
        return tuple(p)
    if form == "set":
        return set(p)
    if form == "frozenset":
        return frozenset(p)
    if form == "iterator":
        return iter(p)
    if form == "generator":
        return (a for a in p)
    if form == "dict-keys":
        return dict.fromkeys(p).keys()
    if form == "reversed":
        return reversed(p[::-1])
    if form == "range-if-contiguous" and p and p == list(range(p[0], p[0] + len(p))):
        return range(p[0], p[0] + len(p))
    return p


class Job:
    """One Commissioning run prepared against its own population and bus; judged once its outcome is known."""

    def __init__(self, case, units, bus, seq, where, cap):
        self.case, self.units, self.bus, self.seq, self.where, self.cap = case, units, bus, seq, where, cap
        self.before = [u.short for u in units]


CALLS = ["keyword", "positional", "first-positional", "two-positional", "defaults-omitted"]


def call_commissioning(fn, call, available, readdress, dry):
    """Commissioning(available_addresses=None, readdress=False, dry_run=False) called the ways its signature and docstring
    allow: every parameter by keyword, all three by position (in that order), a mix, or with the parameters that have their
    default value left out."""
    if call == "positional":
        return fn(available, readdress, dry)
    if call == "first-positional":
        return fn(available, readdress=readdress, dry_run=dry)
    if call == "two-positional":
        return fn(available, readdress, dry_run=dry)
    if call == "defaults-omitted":
        kw = {}
        if available is not None:
            kw["available_addresses"] = available
        if readdress:
            kw["readdress"] = readdress
        if dry:
            kw["dry_run"] = dry
        return fn(**kw)
    if call != "keyword":
        raise ValueError("unknown call style %r" % (call,))
    return fn(available_addresses=available, readdress=readdress, dry_run=dry)


def prep_single(case):
    sequences, exc = _load()
    units = []
    for i, u in enumerate(case["units"]):
        g = GearModel(short=u["short"], randoms=list(u.get("randoms", [])), fallback_random=fallback_for(i), name="u%d" % i)
        if u.get("fault") == "ignore_program":
            g.ignore_program = True
        if u.get("fault") == "mute_verify":
            g.mute_verify = True
        if u.get("fault") == "fail_once":
            g.program_failures_left = 1
        if u.get("fault") == "stuck":
            g.ignore_program = True
            g.ignore_set_short = True
        # gear that needs (up to) the documented 100 ms after RANDOMISE before its new random address is there
        g.randomise_latency = case.get("randomise_latency", [0.0, 0.1, 0.04][(len(case["units"]) + len(u.get("randoms", []))) % 3])
        if u.get("state"):
            # left over from an earlier run that never reached its TERMINATE (abandoned, failed, interrupted)
            g.init_state = u["state"]
            g.random = u.get("old_random", 0x123456 + i)
        units.append(g)
    before = [u.short for u in units]
    permitted = case["permitted"]
    readdress, dry = case["readdress"], case["dry_run"]
    n = len(units)
    maxdraws = max([len(u.get("randoms", [])) for u in case["units"]] + [0])
    # each unit found costs at most ~200 search commands + 3; every scripted draw can cause one restart
    cap = 230 * (n + 1) * (maxdraws + 2) + 400
    bus = Bus(units, max_commands=cap)
    call = case.get("call", "keyword")
    where = "Commissioning(available=%s, readdress=%s, dry_run=%s) [arguments: %s] on %d gear (initial addresses %s)" % (
        "None" if permitted is None else permitted, readdress, dry, call, n,
        before if n <= 12 else str(before[:12]) + "...")

    def seq():
        arg = as_form(permitted, case.get("permitted_form", "list"))
        # the caller's own collection (it may hand the same object to the run on its next line): not consumed or edited
        bus.callers_collection = (arg, list(arg)) if isinstance(arg, (list, set, dict)) else None
        return call_commissioning(sequences.Commissioning, call, arg, readdress, dry)
    return Job(case, units, bus, seq, where, cap)


def run_alone(job):
    """-> ("returned", value) | ("raised", exception)"""
    try:
        return ("returned", job.bus.run(job.seq()))
    except Exception as e:  # noqa: classified by the judge
        return ("raised", e)


def judge_single(job, oc):
    sequences, exc = _load()
    case, units, where, before, cap = job.case, job.units, job.where, job.before, job.cap
    permitted = case["permitted"]
    readdress, dry = case["readdress"], case["dry_run"]
    n = len(units)
    # units that were told to take an address and do not confirm it (observed by the unit models)
    faulty = [i for i, u in enumerate(units) if "program-not-confirmed" in u.flags]
    raised = None
    if oc[0] == "raised":
        e = oc[1]
        if isinstance(e, NonTermination):
            return [("C07:nontermination", "%s: more than %d commands (bound for this population)" % (where, cap))]
        if isinstance(e, exc.ProgramShortAddressFailure):
            raised = e
        else:
            if library_frame(e.__traceback__) is None:
                raise e
            return [("C07:raised:%s@%s" % (type(e).__name__, library_frame(e.__traceback__)), "%s raised %r" % (where, e))]
    out = []
    held = getattr(job.bus, "callers_collection", None)
    if held is not None and list(held[0]) != held[1]:
        out.append(("C07:callers-collection-changed", "%s: the %s handed over as available_addresses held %r, after the run it holds %r"
                    % (where, type(held[0]).__name__, held[1], list(held[0]))))
    if faulty:
        if raised is None:
            out.append(("C07:missing-ProgramShortAddressFailure", "%s: unit %d (%s) was programmed and does not confirm its "
                        "address but the sequence completed normally"
                        % (where, faulty[0], case["units"][faulty[0]].get("fault"))))
        return out
    if raised is not None:
        return [("C07:spurious-ProgramShortAddressFailure", "%s raised %r although every unit confirms its address" % (where, raised))]
    suffix = ":program-hits-withdrawn" if any("program-hit-withdrawn" in u.flags for u in units) else ""
    still = [i for i, u in enumerate(units) if u.init_state != DISABLED]
    if still:
        out.append(("C07:left-in-initialisation", "%s: units %r still in initialisation mode" % (where, still[:8])))
    after = [u.short for u in units]
    if dry:
        if after != before:
            out.append(("C07:dry-run-changed-address", "%s: addresses now %r" % (where, after)))
        return out
    part = [i for i in range(n) if readdress or before[i] is None]
    nonpart = [i for i in range(n) if i not in part]
    # a participating unit whose stored address is stuck and which the run never got to program (it was not told to
    # take an address: the pool was used up before it was found) still shows its old address; nothing the sequence
    # could know - its leftover address is not counted as handed out
    left = [i for i in part if case["units"][i].get("fault") == "stuck" and "program-matched" not in units[i].flags
            and before[i] is not None and after[i] == before[i]]
    after = [None if i in left else after[i] for i in range(n)]
    n_init = len([1 for t in job.bus.trace if t[0] == 16 and (t[1] >> 8) == 0xA5])
    if left and n_init > 1:
        # ... and after a restart (random addresses clashed) only unaddressed units are taken back into the search:
        # the unit with the stuck address has dropped out by its own fault
        part = [i for i in part if i not in left]
    for i in nonpart:
        if after[i] != before[i]:
            out.append(("C07:nonparticipant-changed" + suffix, "%s: unit %d (not participating) went from %r to %r"
                        % (where, i, before[i], after[i])))
            break
    perm = set(range(64)) if permitted is None else set(permitted)
    in_use = set(before[i] for i in nonpart)
    free = perm - in_use
    got = [(i, after[i]) for i in part if after[i] is not None]
    addrs = [a for _, a in got]
    if len(set(addrs)) != len(addrs):
        dup = sorted(a for a in set(addrs) if addrs.count(a) > 1)
        out.append(("C07:duplicate-address" + suffix, "%s: address(es) %r handed to more than one unit; final %r"
                    % (where, dup, after if n <= 16 else "...")))
    bad = sorted(set(a for a in addrs if a not in perm))
    if bad:
        out.append(("C07:address-not-permitted" + suffix, "%s: handed out %r, permitted %r" % (where, bad, sorted(perm))))
    clash = sorted(set(addrs) & in_use)
    if clash:
        out.append(("C07:address-already-in-use" + suffix, "%s: handed out %r already used by non-participants" % (where, clash)))
    want = min(len(part), len(free))
    if len(got) != want:
        out.append(("C07:wrong-number-addressed" + suffix, "%s: %d participants hold an address, expected %d "
                    "(%d participants, %d free permitted addresses); final %r"
                    % (where, len(got), want, len(part), len(free), after if n <= 16 else "...")))
    return out


def case_single(case):
    job = prep_single(case)
    return judge_single(job, run_alone(job))


# ----------------------------------------------------------- two runs in flight ----
LAST_INTER = [None]     # (id(case), did the runs really overlap in time) of the most recent interleaved case


EVENTS = {"T": 0xA1, "I": 0xA5, "R": 0xA7, "W": 0xAB, "P": 0xB7, "V": 0xB9}


def resolve(count, trace):
    """A block length: an integer, or - relative to what the same run puts on its bus when it runs alone - "p/q" (that
    fraction of all its commands) or "<event><k><+|-><d>" (d commands after / before its k-th TERMINATE, INITIALISE,
    RANDOMISE, WITHDRAW, PROGRAM SHORT ADDRESS, VERIFY SHORT ADDRESS; an advance puts one command on the bus, so "R1+0"
    stops the run right after it has sent its first RANDOMISE).  An event that never happens counts as the end."""
    if isinstance(count, int):
        return max(0, count)
    if "/" in count:
        p, q = count.split("/")
        return max(1, len(trace) * int(p) // int(q))
    op, rest = EVENTS[count[0]], count[1:]
    sign = "+" if "+" in rest else "-"
    k, d = rest.split(sign)
    pos = [n + 1 for n, t in enumerate(trace) if t[0] == 16 and (t[1] >> 8) == op]
    if len(pos) < int(k):
        return len(trace) + 1
    return max(0, pos[int(k) - 1] + (int(d) if sign == "+" else -int(d)))


def expand(blocks, traces):
    """[[index, count], ...] -> index repeated count times, ... (run-length form of an advance order); a symbolic count
    is relative to the run's total so far, so that [[0, "R1+0"], [1, 5], [0, "T2-1"]] brings run 0 up to its first
    RANDOMISE, lets run 1 advance five times, then brings run 0 up to one command before its second TERMINATE."""
    out = []
    done = {}
    for i, n in blocks or ():
        if isinstance(n, int):
            k = n
        else:
            k = max(0, resolve(n, traces[i]) - done.get(i, 0))
        out.extend([i] * k)
        done[i] = done.get(i, 0) + k
    return out


def _end_state(job):
    """Everything the bus carried and everything its gear hold when the run is over."""
    bus = job.bus
    st = [("number of commands put on the bus", len(bus.commands)),
          ("short addresses", [u.short for u in job.units]),
          ("initialisation states", [u.init_state for u in job.units]),
          ("random addresses", [u.random for u in job.units]),
          ("search addresses", [u.search for u in job.units]),
          ("RANDOMISE counts", [u.randomise_count for u in job.units]),
          ("DTR0", [u.dtr0 for u in job.units]),
          ("flags", [sorted(u.flags) for u in job.units])]
    return st


def _first_trace_difference(a, b):
    for k, (x, y) in enumerate(zip(a, b)):
        if x != y:
            return "frame #%d is %s (answers %r), alone %s (answers %r)" % (k, "%d bits 0x%X twice=%s" % x[:3], x[3],
                                                                            "%d bits 0x%X twice=%s" % y[:3], y[3])
    if len(a) != len(b):
        return "%d frames on the bus, alone %d" % (len(a), len(b))
    return None


def _result(oc):
    if oc[0] == "raised":
        return ("raised", type(oc[1]).__name__, str(oc[1]))
    return ("returned", repr(oc[1]))


def overlapping(order, n):
    first, last = {}, {}
    for pos, i in enumerate(order):
        first.setdefault(i, pos)
        last[i] = pos
    return any(first[i] < last[j] and first[j] < last[i] for i in first for j in first if i < j)


def case_interleaved(case):
    """{"kind": "interleaved", "jobs": [case, case], "blocks": [[i, n], ...], "cycle": [...]}: Commissioning runs in
    flight at once, each on its own bus with its own gear, advanced command by command: first as the run-length list
    `blocks` says, then `cycle` repeatedly (a cycle naming only a finished run falls back to round-robin).  Each run must
    satisfy the single-run oracle, end the way it ends alone, and its bus must have carried, and its gear must hold,
    exactly what they do when the run is alone.  Block lengths may be symbolic (see resolve)."""
    subs = case["jobs"]
    refs = [prep_single(c) for c in subs]
    rocs = [run_alone(r) for r in refs]          # first: symbolic block lengths refer to what each run does alone
    jobs = [prep_single(c) for c in subs]
    order = []
    ocs = run_interleaved([(j.bus, j.seq) for j in jobs], expand(case.get("blocks"), [r.bus.trace for r in refs]),
                          case.get("cycle") or None, order=order)
    LAST_INTER[0] = (id(case), overlapping(order, len(jobs)))
    out, seen = [], set()

    def add(sig, msg):
        if sig not in seen:
            seen.add(sig)
            out.append((sig, msg))

    for i, (job, oc) in enumerate(zip(jobs, ocs)):
        vs = judge_single(job, oc)
        ref, roc = refs[i], rocs[i]
        rvs = judge_single(ref, roc)
        for sig, msg in rvs:                  # not a matter of interleaving: the run fails on its own
            add(sig, msg)
        alone = set(sig for sig, _ in rvs)
        why = None
        if _result(oc) != _result(roc):
            why = "outcome %r, alone %r" % (_result(oc), _result(roc))
        else:
            for (name, a), (_, r) in zip(_end_state(job), _end_state(ref)):
                if a != r:
                    why = "%s: %r, alone %r" % (name, a, r)
                    break
        if why is None:
            why = _first_trace_difference(job.bus.trace, ref.bus.trace)
        if why is None and [v for v in vs if v[0] not in alone]:
            why = "%s: %s" % [v for v in vs if v[0] not in alone][0]
        if why:
            add("C07:interleaved-sequences-interfere:commissioning",
                "run #%d of %d in flight at the same time on separate buses (advances in blocks %r then cycle %r; the other: %s): "
                "%s: %s" % (i, len(jobs), case.get("blocks"), case.get("cycle"),
                            "; ".join(j.where for k, j in enumerate(jobs) if k != i), job.where, why))
    return out


def run_case(case):
    if case.get("kind") == "interleaved":
        return case_interleaved(case)
    return case_single(case)


def features(case):
    """Non-triviality classes of a case, computed from the case alone."""
    f = []
    n = len(case["units"])
    if n > 64:
        f.append("more-than-64-units")
    firsts = {}
    for u in case["units"]:
        if u.get("randoms"):
            firsts.setdefault(u["randoms"][0], 0)
            firsts[u["randoms"][0]] += 1
    part = [u for u in case["units"] if case["readdress"] or u["short"] is None]
    pf = {}
    for u in part:
        if u.get("randoms"):
            pf[u["randoms"][0]] = pf.get(u["randoms"][0], 0) + 1
    if any(c > 1 for c in pf.values()):
        f.append("clash-on-first-draw")
    if any(r in (0, 0xFFFFFF) for u in part for r in u.get("randoms", [])[:1]):
        f.append("unit-at-0-or-ffffff")
    perm = 64 if case["permitted"] is None else len(set(case["permitted"]))
    if perm < len(part):
        f.append("permitted-set-exhausted")
    if any(u.get("fault") for u in case["units"]):
        f.append("faulty-unit")
        if any(c > 1 for c in pf.values()):
            f.append("faulty-unit-and-clash")
    run = common_run(part)
    if run >= 5:
        f.append("clash-run:%s" % ("5-15" if run <= 15 else "16-31" if run <= 31 else "32-40"))
    if case["dry_run"]:
        f.append("dry-run")
    if case["readdress"]:
        f.append("readdress")
    if len(set(u["short"] for u in case["units"] if u["short"] is not None)) < len([u for u in case["units"] if u["short"] is not None]):
        f.append("duplicate-initial-addresses")
    if any(u.get("state") for u in case["units"]):
        f.append("gear-left-in-initialisation-mode")
    if case["permitted"] is not None:
        f.append("permitted-given-as:" + case.get("permitted_form", "list"))
    f.append("arguments:" + case.get("call", "keyword"))
    return f


def common_run(part):
    """The longest run of leading draws that two participating units have in common (that many consecutive clashes at
    least, unless a unit found earlier in a pass ends it by using up the addresses)."""
    best = 0
    lists = [u.get("randoms") or [] for u in part]
    for a in range(len(lists)):
        for b in range(a + 1, len(lists)):
            k = 0
            while k < len(lists[a]) and k < len(lists[b]) and lists[a][k] == lists[b][k]:
                k += 1
            best = max(best, k)
    return best


NONTRIVIAL = ("clash-on-first-draw", "more-than-64-units", "permitted-set-exhausted", "unit-at-0-or-ffffff")


@st.composite
def case_strategy(draw, sizes=None):
    n = draw(sizes if sizes is not None else st.one_of(st.integers(0, 6), st.integers(0, 6), st.integers(0, 20), st.integers(60, 70)))
    readdress = draw(st.booleans())
    dry = draw(st.sampled_from([False, False, False, True]))
    addr = st.one_of(st.none(), st.none(), st.integers(0, 63), st.integers(0, 5))
    draws = st.lists(st.one_of(st.sampled_from(POOL), st.sampled_from(POOL[:3]), st.integers(0, 0xFFFFFF)), max_size=4)
    units = [{"short": draw(addr), "randoms": draw(draws)} for _ in range(n)]
    if n and draw(st.integers(0, 3)) == 0:
        # some gear are still in initialisation mode from an earlier run
        for u in units:
            if draw(st.booleans()):
                u["state"] = draw(st.sampled_from(["ENABLED", "WITHDRAWN"]))
                u["old_random"] = draw(st.sampled_from([0, 5, 0x800000, 0xFFFFFF, 0x123456]))
    kind = draw(st.sampled_from(["none", "none", "empty", "single", "subset", "small", "all"]))
    if kind == "none":
        permitted = None
    elif kind == "empty":
        permitted = []
    elif kind == "single":
        permitted = [draw(st.integers(0, 63))]
    elif kind == "small":
        permitted = draw(st.lists(st.integers(0, 7), unique=True, max_size=6))
    elif kind == "subset":
        permitted = draw(st.lists(st.integers(0, 63), unique=True, max_size=64))
    else:
        permitted = draw(st.permutations(list(range(64))))
    case = {"units": units, "permitted": permitted, "readdress": readdress, "dry_run": dry,
            "call": draw(st.sampled_from(CALLS))}
    if permitted is not None:
        if draw(st.integers(0, 7)) == 0:
            lo = draw(st.integers(0, 63))
            case["permitted"] = permitted = list(range(lo, draw(st.integers(lo, 64))))
            case["permitted_form"] = "range-if-contiguous"
        else:
            case["permitted_form"] = draw(st.sampled_from(FORMS))
    # two or three units keep drawing the same random addresses for a while (0..40 consecutive clashes), then differ
    if 2 <= n <= 20 and draw(st.integers(0, 3)) == 0:
        idx = draw(st.permutations(list(range(n))))[:draw(st.sampled_from([2, 2, 3]))]
        k = draw(st.one_of(st.integers(0, 40), st.integers(0, 40), st.sampled_from([7, 8, 9, 15, 16, 17, 31, 32, 33, 40])))
        base = draw(st.one_of(st.sampled_from(POOL), st.integers(0, 0xFFFFFF)))
        step = draw(st.sampled_from([0, 0, 1, 0x10101, 0xFFFFFF]))      # the same value every time, or one that moves
        shared = [(base + j * step) & 0xFFFFFF for j in range(k)]
        for i in idx:
            units[i]["randoms"] = shared + draw(draws)
        if draw(st.booleans()):
            # the other units sit below / above / around the clashing ones all the time
            where = draw(st.sampled_from(["below", "above", "any"]))
            for i in range(n):
                if i not in idx and where != "any":
                    units[i]["randoms"] = [(i + 1 if where == "below" else 0xFFFF00 - i)] * draw(st.integers(0, 3))
            if where == "below":
                shared = [max(r, 0x000100) for r in shared]
                for i in idx:
                    units[i]["randoms"] = shared + units[i]["randoms"][k:]
    # faulty units anywhere: whether one of them ever is programmed depends on the run (participation, free addresses,
    # dry run, the clashes before it is found); the oracle asks the unit models what happened
    if n and draw(st.integers(0, 3)) == 0:
        how = draw(st.sampled_from(["sure", "any", "any"]))
        part = [i for i in range(n) if readdress or units[i]["short"] is None]
        perm = set(range(64)) if permitted is None else set(permitted)
        in_use = set(units[i]["short"] for i in range(n) if i not in part)
        if how == "sure" and part and not dry and len(perm - in_use) >= len(part):
            k = part[draw(st.integers(0, len(part) - 1))]          # certain to be programmed
            units[k]["fault"] = draw(st.sampled_from(FAULTS))
        else:
            for _ in range(draw(st.sampled_from([1, 1, 2]))):
                units[draw(st.integers(0, n - 1))]["fault"] = draw(st.sampled_from(FAULTS))
    return case


def reducer(case):
    """Smaller variants of a case, most aggressive first (see harness.hyp.greedy_reduce)."""
    import copy
    n = len(case["units"])
    for i in range(n - 1, -1, -1):
        c = copy.deepcopy(case)
        del c["units"][i]
        yield c
    for i in range(n):
        if case["units"][i].get("randoms"):
            c = copy.deepcopy(case)
            c["units"][i]["randoms"] = c["units"][i]["randoms"][:-1]
            yield c
    if any(len(u.get("randoms") or []) > 4 for u in case["units"]):
        # one clash less in a long common run: the long streams all lose their first draw
        c = copy.deepcopy(case)
        for u in c["units"]:
            if len(u.get("randoms") or []) > 4:
                del u["randoms"][0]
        yield c
    for i in range(n):
        if case["units"][i]["short"] is not None:
            c = copy.deepcopy(case)
            c["units"][i]["short"] = None
            yield c
    if case["permitted"] is not None:
        c = copy.deepcopy(case)
        c["permitted"] = None
        yield c
    if case["readdress"]:
        c = copy.deepcopy(case)
        c["readdress"] = False
        yield c
    if case.get("call", "keyword") != "keyword":
        c = copy.deepcopy(case)
        c["call"] = "keyword"
        yield c


def clash_run_cases(seed, ks=range(41)):
    """Listed buses on which two units draw the same random address k times in a row (k consecutive search passes that
    end in a clash) and then differ - alone, with healthy or faulty units whose random addresses lie below (found before
    the clash in a pass) or above the clashing pair (reached only once the clashes are over), with few permitted
    addresses, as a dry run; both readdress modes."""
    out = []
    for k in ks:
        base = [0x400000, 0x001000 + ((seed * 7919 + 0x3039) & 0x7FFFFF), 0x000200][k % 3]
        step = [0, 0x10101, 1][(k // 3) % 3]
        shared = [(base + j * step) & 0xFFFFFF for j in range(k)]
        lo, hi = [0x000010] * (k + 1), [0xFFFF00] * (k + 1)
        fault = FAULTS[k % 3]
        for readdress in (False, True):
            def pair():
                return [_u(None, shared + [0x000123]), _u(None, shared + [0xABCDEF])]
            here = 40 if not readdress else None
            out += [
                _c(pair(), None, readdress),
                _c([_u(None, lo)] + pair() + [_u(None, hi), _u(here, [0x700000 + j for j in range(k + 1)])], [3, 7, 9, 11], readdress,
                   form="tuple"),
                _c(pair() + [_u(None, shared[:k // 2] + [0x000055])], list(range(64)), readdress),
                _c([_u(None, lo, fault=fault)] + pair(), None, readdress),
                _c(pair() + [_u(None, hi, fault=fault), _u(here, [])], [5, 6, 7, 8], readdress, form="set"),
                _c([_u(None, lo)] + pair(), [9], readdress),
                _c([_u(None, lo)] + pair() + [_u(None, hi, fault=fault)], [9, 10, 11], readdress),
                _c([_u(None, lo)] + pair() + [_u(None, hi)], None, readdress, dry=True),
            ]
    for i, c in enumerate(out):          # 8 buses per (k, readdress), 5 ways to pass the arguments: every bus meets every way
        c["call"] = CALLS[(i + seed) % len(CALLS)]
    return out


def _shard_runs(arg):
    _, seed, stride, offset = arg
    res = Result()
    cases = clash_run_cases(seed)
    for case in cases[offset::stride]:
        res.count()
        res.nontrivial()
        fs = features(case)
        run = [f for f in fs if f.startswith("clash-run")]
        res.label("listed:" + (run[0] if run else "clash-run:0-4"))
        if "faulty-unit" in fs:
            res.label("listed:faulty-unit-and-clash-run")
        for sig, msg in run_case(case):
            res.violation(sig, case, msg)
    if offset == 0:
        res.sample(cases[8 * 2 * 20 + 3], cls="faulty unit below a pair that clashes 20 times")
    return res


def in_use_cases(seed):
    """Every short address k once as the address that is already in use: it is the only permitted one, the first or
    the last of two, the highest / lowest of the default pool around it; the new unit must never be given k."""
    cases = []
    for k in range(64):
        other = (k + 1 + seed % 5) % 64
        lower = (k - 1 - seed % 3) % 64
        for permitted, form in (([k], "list"), ([k, other], "list"), ([other, k], "tuple"), ([lower, k], "list"),
                                (sorted({k, other, lower}), "set"), (None, "list")):
            units = [{"short": k, "randoms": [0x000100 + k]}, {"short": None, "randoms": [0x000900 + k]}]
            if permitted is None:
                # default pool with every address but two taken: k (in use by unit 0) and `other` (free)
                units += [{"short": a, "randoms": [0x100000 + a]} for a in range(64) if a not in (k, other)]
            cases.append({"units": units, "permitted": permitted, "permitted_form": form, "readdress": False, "dry_run": False})
    return cases


def _shard_in_use(arg):
    _, seed, stride, offset = arg
    res = Result()
    cases = in_use_cases(seed)
    for case in cases[offset::stride]:
        res.count()
        res.nontrivial()
        res.label("listed:address-already-in-use")
        for sig, msg in run_case(case):
            res.violation(sig, case, msg)
    if offset == 0:
        res.sample(cases[5], cls="permitted address already in use")
    return res


def _shard(arg):
    if arg[0] == "inter":
        return _shard_inter(arg[1:])
    if arg[0] == "in-use":
        return _shard_in_use(arg)
    if arg[0] == "runs":
        return _shard_runs(arg)
    seed, n = arg
    res = Result()
    hyp.search(case_strategy(), run_case, res, n, seed, ID, shrink=False, reducer=reducer,
               nontrivial=lambda c: any(f in NONTRIVIAL for f in features(c)),
               classify=lambda c: features(c) + ["units:%s" % ("0" if not c["units"] else "1-6" if len(c["units"]) <= 6 else
                                                              "7-20" if len(c["units"]) <= 20 else "60-70")])
    return res


# ----------------------------------------------------------- two runs in flight ----
def _u(short=None, randoms=(), **more):
    d = {"short": short, "randoms": list(randoms)}
    d.update(more)
    return d


def _c(units, permitted, readdress, dry=False, form="list"):
    c = {"units": units, "permitted": permitted, "readdress": readdress, "dry_run": dry}
    if permitted is not None:
        c["permitted_form"] = form
    return c


def fixed_buses(seed):
    """Small buses that differ in what Commissioning has to remember: the permitted addresses, the flags, the number of
    gear found so far, whether a clash restarted the search."""
    r = [(seed * 7919 + k * 25717 + 0x3039) & 0xFFFFFF for k in range(8)]
    buses = [
        _c([_u(), _u(), _u()], [3, 4, 5], False),
        _c([_u(), _u(), _u()], [20, 21, 22], False, form="tuple"),
        _c([_u(10), _u(None, [r[0]]), _u(11), _u(None, [r[1]])], [10, 11, 12, 13], False, form="set"),
        _c([_u(1), _u(2), _u(3), _u(4), _u(5)], None, True),
        _c([_u(None, [1]), _u(None, [1])], [60, 61, 62], False, form="iterator"),
        _c([], None, True),
        _c([_u(), _u(), _u(), _u(), _u(), _u()], [7], False),
        _c([_u(8), _u(None, [r[2]]), _u(9)], None, True, dry=True),
        _c([_u(None, []), _u(None, [], fault="mute_verify")], None, False),
        _c([_u(None, [0]), _u(None, [0xFFFFFF]), _u(30, [r[3]])], [33, 32, 31, 30], True, form="generator"),
        _c([_u(None, [2, 2]), _u(None, [2, 2]), _u(None, [r[4]])], list(range(40, 64)), False, form="range-if-contiguous"),
        _c([_u(5, [r[5]], state="WITHDRAWN", old_random=5), _u(None, [r[6]], state="ENABLED", old_random=0x800000)], [0, 1], False),
    ]
    for i, c in enumerate(buses):
        c["call"] = CALLS[(i + seed) % len(CALLS)]
    return buses


# (blocks, cycle): advances in run-length form first, then the cycle repeatedly; a Commissioning run asks the 64
# addresses first (unless readdress), so a head start of 70 or more puts the second run's start into the first run's
# address search
RUN_ORDERS = [
    ([], [0, 1]), ([], [1, 0]),                                                         # round-robin, reversed
    ([], [0, 0, 1, 1]), ([], [0, 0, 0, 1, 1, 1]), ([], [1, 1, 1, 0, 0, 0]), ([], [0, 1, 1]),    # blocks of 2 / 3, uneven
    ([[0, 40], [1, 40], [0, 40], [1, 40], [0, 40], [1, 40]], [0, 1]),                   # blocks of 40
    ([[0, 1]], [1, 0]), ([[0, 3]], [1, 0]), ([[0, 70]], [1, 0]), ([[0, 150]], [0, 1]),    # head starts
    ([[1, 70]], [0, 1]), ([[1, 200]], [0, 1]),
    ([[0, 1]], [1]), ([[0, 5]], [1]), ([[0, 70]], [1]), ([[0, 100]], [1]), ([[0, 300]], [1]),   # #1 completely inside #0
    ([[1, 2]], [0]), ([[1, 70]], [0]), ([[1, 120]], [0]),                               # #0 completely inside #1
    ([], [0]), ([], [1]),                                                               # strictly sequential
]
# run #1 starts when run #0 is at a phase boundary of its own (where it updates what it remembers: the restart flag,
# the search bounds, the list of free addresses), then both alternate / #1 runs completely inside #0
PHASES = ["R1+0", "R1+1", "T2-3", "T2-1", "T2+0", "R2+0", "P1-1", "P1+0", "P1+1", "W1+0", "W1+1", "P2+0", "W2+0", "V3+0",
          "1/4", "1/2", "3/4", "7/8"]
N_PLAIN_ORDERS = len(RUN_ORDERS)
RUN_ORDERS += [([[0, ph]], cyc) for ph in PHASES for cyc in ([1, 0], [1])]


def _inter(a, b, blocks, cycle):
    return {"kind": "interleaved", "jobs": [a, b], "blocks": [list(x) for x in blocks], "cycle": list(cycle)}


def fixed_pairs(seed, everything):
    buses = fixed_buses(seed)
    n = len(buses)
    if everything:
        return [(i, j) for i in range(n) for j in range(n)]
    # quick tier: same population with two permitted sets, then a seed-dependent walk through the rest
    return [(0, 1), (1, 0)] + [(i, (i * 5 + 2 + seed) % n) for i in range(n) if i != (i * 5 + 2 + seed) % n][:8]


@st.composite
def inter_strategy(draw):
    import copy
    small = st.integers(0, 6)
    a = draw(case_strategy(sizes=small))
    if draw(st.integers(0, 3)) == 0:
        # the same population on both lines, commissioned with other addresses / flags
        b = copy.deepcopy(a)
        b["permitted"] = draw(st.one_of(st.none(), st.lists(st.integers(0, 63), unique=True, max_size=8)))
        if b["permitted"] is None:
            b.pop("permitted_form", None)
        else:
            b["permitted_form"] = draw(st.sampled_from(FORMS))
        b["readdress"] = draw(st.booleans())
        if any(u.get("fault") for u in b["units"]):
            for u in b["units"]:
                u.pop("fault", None)
    else:
        b = draw(case_strategy(sizes=small))
    length = st.one_of(st.integers(1, 4), st.integers(1, 300), st.sampled_from(PHASES),
                       st.tuples(st.sampled_from("TIRWPV"), st.integers(1, 4), st.sampled_from("+-"), st.integers(0, 3)).map(
                           lambda t: "%s%d%s%d" % t))
    blocks = draw(st.lists(st.tuples(st.integers(0, 1), length).map(list), max_size=6))
    cycle = draw(st.sampled_from([[0, 1], [0, 1], [1, 0], [0, 0, 1, 1], [0, 1, 1], [0, 0, 0, 1, 1, 1], [1], [0]]))
    return _inter(a, b, blocks, cycle)


def inter_reducer(case):
    import copy
    for k in (0, 1):
        for smaller in reducer(case["jobs"][k]):
            c = copy.deepcopy(case)
            c["jobs"][k] = smaller
            yield c
    if case["blocks"]:
        c = copy.deepcopy(case)
        c["blocks"] = c["blocks"][:-1]
        yield c
    if case["cycle"] != [0, 1]:
        c = copy.deepcopy(case)
        c["cycle"] = [0, 1]
        yield c


def _inter_nontrivial(c):
    return LAST_INTER[0] is not None and LAST_INTER[0][0] == id(c) and LAST_INTER[0][1] and c["jobs"][0] != c["jobs"][1]


def _shard_inter(arg):
    what = arg[0]
    res = Result()
    if what == "fixed":
        _, seed, everything, stride, offset = arg
        buses = fixed_buses(seed)
        k = 0
        for pi, (i, j) in enumerate(fixed_pairs(seed, everything)):
            for oi, (blocks, cycle) in enumerate(RUN_ORDERS):
                if not everything and oi >= N_PLAIN_ORDERS and (oi + pi + seed) % 2:
                    continue                   # quick tier: every other phase order, alternating with the pair
                k += 1
                if k % stride != offset:
                    continue
                case = _inter(buses[i], buses[j], blocks, cycle)
                res.count()
                vs = run_case(case)
                if _inter_nontrivial(case):
                    res.nontrivial()
                res.label("interleaved:commissioning+commissioning")
                res.label("interleaved:" + ("overlapping" if LAST_INTER[0][1] else "sequential"))
                for sig, msg in vs:
                    res.violation(sig, case, msg)
        if offset == 0:
            res.sample(_inter(buses[0], buses[1], [[0, 70]], [1, 0]), cls="two Commissioning runs in flight")
    else:
        _, seed, n = arg
        hyp.search(inter_strategy(), run_case, res, n, seed, ID, shrink=False, reducer=inter_reducer,
                   nontrivial=_inter_nontrivial,
                   classify=lambda c: ["hyp:interleaved:commissioning+commissioning"] + sorted(set(
                       "hyp:interleaved:" + f for j in c["jobs"] for f in features(j) if not f.startswith("permitted-given"))),
                   extra_rounds_budget_s=10.0)
    return res


def run(ctx):
    n = 1200 if ctx.quick else 16000
    shards = [(ctx.seed * 1000 + k, max(1, n // 16)) for k in range(16)]
    for k in range(8):
        shards.append(("runs", ctx.seed, 8, k))
    for k in range(8):
        shards.append(("in-use", ctx.seed, 8, k))
    # two Commissioning runs in flight at the same time, each on its own bus
    for k in range(16):
        shards.append(("inter", "fixed", ctx.seed, not ctx.quick, 16, k))
        shards.append(("inter", "hyp", ctx.seed * 1000 + 500 + k, 10 if ctx.quick else 150))
    ctx.pmap(_shard, shards)
    ctx.result.extra["runs_in_flight"] = "listed pairs of small buses x %d advance orders + Hypothesis sample (not exhaustive)" % len(RUN_ORDERS)
