"""C07 - commissioning terminates and assigns distinct, permitted short addresses.

The library's Commissioning() generator is run, through the fake bus, against a population of
frame-level IEC 62386-102 gear models (harness/model_gear.py) whose RANDOMISE results are scripted
by the generated case: the first draws come from a tiny pool (forcing clashes, repeated clashes,
clashes at 0 and 0xFFFFFF, re-randomisation after a clash), later draws are distinct per unit.
"""
from hypothesis import strategies as st

from harness import hyp
from harness.bus import Bus, NonTermination
from harness.model_gear import GearModel, DISABLED
from harness.runner import Result, library_frame

ID = "C07"
LEVEL = "exploration"
RULE = ("Hypothesis-generated buses: 0..70 gear with arbitrary initial short addresses (duplicates allowed), permitted "
        "subsets, readdress/dry-run flags, scripted random-address streams, optional faulty unit; distinct by case "
        "fingerprint; non-trivial = at least one clash restart (RANDOMISE issued more than once), or more than 64 units, "
        "or the permitted set is exhausted, or a unit draws 0 or 0xFFFFFF")
ASSUMPTIONS = [
    "gear follow harness/model_gear.py: RANDOMISE/PROGRAM SHORT ADDRESS/VERIFY act in ENABLED and WITHDRAWN state, COMPARE "
    "and WITHDRAW only in ENABLED (IEC 62386-102 9.14.2; dali/tests/fakes.py models the same)",
    "two or more simultaneous answers are a framing error; the 15-minute initialisation timer is not modelled",
    "clashing units eventually draw different random addresses (fallback draws are distinct per unit)",
    "faulty-unit cases are only generated where every participant would be programmed and no clash is scripted",
]

POOL = [0, 1, 2, 0x7FFFFF, 0x800000, 0xFFFFFE, 0xFFFFFF]
HARD_CAP = 400000


def _load():
    from dali import sequences, exceptions
    return sequences, exceptions


def fallback_for(i):
    return 0x001000 + 0x2F1 * i


FORMS = ["list", "tuple", "set", "frozenset", "iterator", "generator", "dict-keys", "range-if-contiguous", "reversed"]


def as_form(permitted, form):
    """The permitted set handed over as one of the iterables a caller may reasonably use
    (the docstring says only "the specified addresses")."""
    if permitted is None:
        return None
    p = list(permitted)
    if form == "tuple":
        return tuple(p)
    if form == "set":
        return set(p)
    if form == "frozenset":
        return frozenset(p)
    if form == "iterator":
        return iter(p)
    if form == "generator":
        return (a for a in p)
    if form == "dict-keys":
        return dict.fromkeys(p).keys()
    if form == "reversed":
        return reversed(p[::-1])
    if form == "range-if-contiguous" and p and p == list(range(p[0], p[0] + len(p))):
        return range(p[0], p[0] + len(p))
    return p


def run_case(case):
    sequences, exc = _load()
    units = []
    for i, u in enumerate(case["units"]):
        g = GearModel(short=u["short"], randoms=list(u.get("randoms", [])), fallback_random=fallback_for(i), name="u%d" % i)
        if u.get("fault") == "ignore_program":
            g.ignore_program = True
        if u.get("fault") == "mute_verify":
            g.mute_verify = True
        if u.get("state"):
            # left over from an earlier run that never reached its TERMINATE (abandoned, failed, interrupted)
            g.init_state = u["state"]
            g.random = u.get("old_random", 0x123456 + i)
        units.append(g)
    before = [u.short for u in units]
    permitted = case["permitted"]
    readdress, dry = case["readdress"], case["dry_run"]
    n = len(units)
    maxdraws = max([len(u.get("randoms", [])) for u in case["units"]] + [0])
    # each unit found costs at most ~200 search commands + 3; every scripted draw can cause one restart
    cap = 230 * (n + 1) * (maxdraws + 2) + 400
    bus = Bus(units, max_commands=cap)
    faulty = [i for i, u in enumerate(case["units"]) if u.get("fault")]
    where = "Commissioning(available=%s, readdress=%s, dry_run=%s) on %d gear (initial addresses %s)" % (
        "None" if permitted is None else permitted, readdress, dry, n, before if n <= 12 else str(before[:12]) + "...")
    raised = None
    try:
        bus.run(sequences.Commissioning(available_addresses=as_form(permitted, case.get("permitted_form", "list")),
                                        readdress=readdress, dry_run=dry))
    except NonTermination:
        return [("C07:nontermination", "%s: more than %d commands (bound for this population)" % (where, cap))]
    except exc.ProgramShortAddressFailure as e:
        raised = e
    except Exception as e:  # noqa
        if library_frame(e.__traceback__) is None:
            raise
        return [("C07:raised:%s@%s" % (type(e).__name__, library_frame(e.__traceback__)), "%s raised %r" % (where, e))]
    out = []
    if faulty:
        if raised is None:
            out.append(("C07:missing-ProgramShortAddressFailure", "%s: unit %d does not confirm its address but the sequence "
                        "completed normally" % (where, faulty[0])))
        return out
    if raised is not None:
        return [("C07:spurious-ProgramShortAddressFailure", "%s raised %r although every unit confirms its address" % (where, raised))]
    suffix = ":program-hits-withdrawn" if any("program-hit-withdrawn" in u.flags for u in units) else ""
    still = [i for i, u in enumerate(units) if u.init_state != DISABLED]
    if still:
        out.append(("C07:left-in-initialisation", "%s: units %r still in initialisation mode" % (where, still[:8])))
    after = [u.short for u in units]
    if dry:
        if after != before:
            out.append(("C07:dry-run-changed-address", "%s: addresses now %r" % (where, after)))
        return out
    part = [i for i in range(n) if readdress or before[i] is None]
    nonpart = [i for i in range(n) if i not in part]
    for i in nonpart:
        if after[i] != before[i]:
            out.append(("C07:nonparticipant-changed" + suffix, "%s: unit %d (not participating) went from %r to %r"
                        % (where, i, before[i], after[i])))
            break
    perm = set(range(64)) if permitted is None else set(permitted)
    in_use = set(before[i] for i in nonpart)
    free = perm - in_use
    got = [(i, after[i]) for i in part if after[i] is not None]
    addrs = [a for _, a in got]
    if len(set(addrs)) != len(addrs):
        dup = sorted(a for a in set(addrs) if addrs.count(a) > 1)
        out.append(("C07:duplicate-address" + suffix, "%s: address(es) %r handed to more than one unit; final %r"
                    % (where, dup, after if n <= 16 else "...")))
    bad = sorted(set(a for a in addrs if a not in perm))
    if bad:
        out.append(("C07:address-not-permitted" + suffix, "%s: handed out %r, permitted %r" % (where, bad, sorted(perm))))
    clash = sorted(set(addrs) & in_use)
    if clash:
        out.append(("C07:address-already-in-use" + suffix, "%s: handed out %r already used by non-participants" % (where, clash)))
    want = min(len(part), len(free))
    if len(got) != want:
        out.append(("C07:wrong-number-addressed" + suffix, "%s: %d participants hold an address, expected %d "
                    "(%d participants, %d free permitted addresses); final %r"
                    % (where, len(got), want, len(part), len(free), after if n <= 16 else "...")))
    return out


def features(case):
    """Non-triviality classes of a case, computed from the case alone."""
    f = []
    n = len(case["units"])
    if n > 64:
        f.append("more-than-64-units")
    firsts = {}
    for u in case["units"]:
        if u.get("randoms"):
            firsts.setdefault(u["randoms"][0], 0)
            firsts[u["randoms"][0]] += 1
    part = [u for u in case["units"] if case["readdress"] or u["short"] is None]
    pf = {}
    for u in part:
        if u.get("randoms"):
            pf[u["randoms"][0]] = pf.get(u["randoms"][0], 0) + 1
    if any(c > 1 for c in pf.values()):
        f.append("clash-on-first-draw")
    if any(r in (0, 0xFFFFFF) for u in part for r in u.get("randoms", [])[:1]):
        f.append("unit-at-0-or-ffffff")
    perm = 64 if case["permitted"] is None else len(set(case["permitted"]))
    if perm < len(part):
        f.append("permitted-set-exhausted")
    if any(u.get("fault") for u in case["units"]):
        f.append("faulty-unit")
    if case["dry_run"]:
        f.append("dry-run")
    if case["readdress"]:
        f.append("readdress")
    if len(set(u["short"] for u in case["units"] if u["short"] is not None)) < len([u for u in case["units"] if u["short"] is not None]):
        f.append("duplicate-initial-addresses")
    if any(u.get("state") for u in case["units"]):
        f.append("gear-left-in-initialisation-mode")
    if case["permitted"] is not None:
        f.append("permitted-given-as:" + case.get("permitted_form", "list"))
    return f


NONTRIVIAL = ("clash-on-first-draw", "more-than-64-units", "permitted-set-exhausted", "unit-at-0-or-ffffff")


@st.composite
def case_strategy(draw):
    n = draw(st.one_of(st.integers(0, 6), st.integers(0, 6), st.integers(0, 20), st.integers(60, 70)))
    readdress = draw(st.booleans())
    dry = draw(st.sampled_from([False, False, False, True]))
    addr = st.one_of(st.none(), st.none(), st.integers(0, 63), st.integers(0, 5))
    draws = st.lists(st.one_of(st.sampled_from(POOL), st.sampled_from(POOL[:3]), st.integers(0, 0xFFFFFF)), max_size=4)
    units = [{"short": draw(addr), "randoms": draw(draws)} for _ in range(n)]
    if n and draw(st.integers(0, 3)) == 0:
        # some gear are still in initialisation mode from an earlier run
        for u in units:
            if draw(st.booleans()):
                u["state"] = draw(st.sampled_from(["ENABLED", "WITHDRAWN"]))
                u["old_random"] = draw(st.sampled_from([0, 5, 0x800000, 0xFFFFFF, 0x123456]))
    kind = draw(st.sampled_from(["none", "none", "empty", "single", "subset", "small", "all"]))
    if kind == "none":
        permitted = None
    elif kind == "empty":
        permitted = []
    elif kind == "single":
        permitted = [draw(st.integers(0, 63))]
    elif kind == "small":
        permitted = draw(st.lists(st.integers(0, 7), unique=True, max_size=6))
    elif kind == "subset":
        permitted = draw(st.lists(st.integers(0, 63), unique=True, max_size=64))
    else:
        permitted = draw(st.permutations(list(range(64))))
    case = {"units": units, "permitted": permitted, "readdress": readdress, "dry_run": dry}
    if permitted is not None:
        if draw(st.integers(0, 7)) == 0:
            lo = draw(st.integers(0, 63))
            case["permitted"] = permitted = list(range(lo, draw(st.integers(lo, 64))))
            case["permitted_form"] = "range-if-contiguous"
        else:
            case["permitted_form"] = draw(st.sampled_from(FORMS))
    # optional faulty unit - only where it is certain to be programmed and nothing clashes
    if n and not dry and draw(st.integers(0, 5)) == 0:
        part = [i for i in range(n) if readdress or units[i]["short"] is None]
        perm = set(range(64)) if permitted is None else set(permitted)
        in_use = set(units[i]["short"] for i in range(n) if i not in part)
        if part and len(perm - in_use) >= len(part):
            for i, u in enumerate(units):
                u["randoms"] = []          # distinct fallback draws only: no clash
            k = part[draw(st.integers(0, len(part) - 1))]
            units[k]["fault"] = draw(st.sampled_from(["ignore_program", "mute_verify"]))
    return case


def reducer(case):
    """Smaller variants of a case, most aggressive first (see harness.hyp.greedy_reduce)."""
    import copy
    n = len(case["units"])
    for i in range(n - 1, -1, -1):
        c = copy.deepcopy(case)
        del c["units"][i]
        yield c
    for i in range(n):
        if case["units"][i].get("randoms"):
            c = copy.deepcopy(case)
            c["units"][i]["randoms"] = c["units"][i]["randoms"][:-1]
            yield c
    for i in range(n):
        if case["units"][i]["short"] is not None:
            c = copy.deepcopy(case)
            c["units"][i]["short"] = None
            yield c
    if case["permitted"] is not None:
        c = copy.deepcopy(case)
        c["permitted"] = None
        yield c
    if case["readdress"]:
        c = copy.deepcopy(case)
        c["readdress"] = False
        yield c


def _shard(arg):
    seed, n = arg
    res = Result()
    hyp.search(case_strategy(), run_case, res, n, seed, ID, shrink=False, reducer=reducer,
               nontrivial=lambda c: any(f in NONTRIVIAL for f in features(c)),
               classify=lambda c: features(c) + ["units:%s" % ("0" if not c["units"] else "1-6" if len(c["units"]) <= 6 else
                                                              "7-20" if len(c["units"]) <= 20 else "60-70")])
    return res


def run(ctx):
    n = 1200 if ctx.quick else 16000
    ctx.pmap(_shard, [(ctx.seed * 1000 + k, max(1, n // 16)) for k in range(16)])
