"""C06 - responses interpret every backward-frame outcome faithfully and totally.

Complete on every run: every response class reachable from any command class
x {None, BackwardFrame(0..255), BackwardFrameError(0..255)}, every named bit of
every bitmap class, every kind of non-frame constructor argument.

Oracle: written from the property statement, keyed on the *kind* of response
(yes/no, numeric, numeric-with-MASK, bitmap, enumerated, generic).
"""
import enum

from harness.runner import Result

ID = "C06"
OPTIMIZED_PASS = True      # the whole search runs once more under python -OO (harness/runner.py)
LEVEL = "exploration"
RULE = ("complete enumeration of (response class, outcome) with outcome in {None, BackwardFrame(v), "
        "BackwardFrameError(v) : v in 0..255}; non-trivial = outcome is not None (a frame was received); "
        "plus (bitmap class, bit name, value), (class, illegal constructor argument) and (command, answer 255) "
        "for the commands whose answer the standard defines as level-or-MASK / as a plain number")
ASSUMPTIONS = [
    "derived accessors of response classes (DERIVED table: counts, control type, error summary, fade time/rate, emergency "
    "mode, the two numeric classes with units in their text) are judged against the meaning their docstrings give to the byte",
    "MASK_AWARE / PLAIN_NUMBER command lists are transcribed from IEC 62386-102/-103/-202 answer definitions; only "
    "commands whose answer definition is unambiguous are pinned",
    "kind of a response class is taken from its base class (YesNoResponse, NumericResponseMask, NumericResponse, "
    "BitmapResponse, EnumResponse, otherwise generic)",
    "str() of an enumerated response holding an undefined code may raise ValueError (the statement allows the "
    "response to reject undefined codes with ValueError); any other exception from str() is a violation",
    "for missing/garbled input a bitmap's named-bit attribute must not be a bool and .status must not be a "
    "list of bit names (exception MissingResponse/ResponseError or a marker are both accepted)",
]


def _load():
    import dali.gear.general, dali.gear.led, dali.gear.emergency, dali.gear.incandescent  # noqa
    import dali.gear.converter, dali.gear.colour  # noqa
    import dali.device.general, dali.device.pushbutton, dali.device.occupancy, dali.device.light  # noqa
    from dali import command, frame, exceptions
    return command, frame, exceptions


def response_classes():
    command, frame, exc = _load()
    seen = {}
    for c in command.Command._commands:
        r = c.response
        if r is not None:
            seen.setdefault(r.__module__ + "." + r.__qualname__, (r, []))[1].append(c.__name__)
    return dict(sorted(seen.items()))


def kind_of(r):
    command, frame, exc = _load()
    if issubclass(r, command.YesNoResponse):
        return "yesno"
    if issubclass(r, command.NumericResponseMask):
        return "numeric-mask"
    if issubclass(r, command.NumericResponse):
        return "numeric"
    if issubclass(r, command.BitmapResponse):
        return "bitmap"
    if issubclass(r, command.EnumResponse):
        return "enum"
    return "generic"


def mangle(name):
    return name.replace(" ", "_").replace("-", "")


def make_outcome(frame, oc):
    if oc is None:
        return None
    kind, v = oc
    if kind in ("ok", "err"):
        return frame.BackwardFrame(v) if kind == "ok" else frame.BackwardFrameError(v)
    # frames of classes a driver, simulator or bus monitor derived from the library's (a timestamp, an edge count,
    # a truth value of their own): still a clean answer / a garbled answer
    base = frame.BackwardFrame if kind.startswith("ok") else frame.BackwardFrameError
    if kind.endswith("-sub"):
        cls = type("Stamped" + base.__name__, (base,), {"timestamp": 12.5})
    else:
        cls = type("Falsy" + base.__name__, (base,), {"__bool__": lambda self: False})
    return cls(v)


def run_case(case):
    command, frame, exc = _load()
    if case.get("op") == "association":
        return association_case(case)
    if case.get("op") == "derived":
        return derived_case(case)
    if case.get("op") == "enumtable":
        return enum_table_case(case)
    if case.get("op") == "history":
        res = _history_shard(case["kind"])
        return [(s_, v["msg"]) for s_, v in res.violations.items()]
    classes = response_classes()
    if case["cls"] not in classes:
        return [("C06:response-class-missing", "%s is no longer a response of any command" % case["cls"])]
    r_cls = classes[case["cls"]][0]
    if case.get("op") == "ctor":
        return case_ctor(r_cls, case)
    oc = case["outcome"]
    fr = make_outcome(frame, oc)
    kind = kind_of(r_cls)
    name = r_cls.__name__
    where = "%s(%s)" % (name, "None" if oc is None else "%s %d" % tuple(oc))
    if oc is not None and oc[0] not in ("ok", "err"):
        where += " [frame of an application subclass]"
    out = []
    faults = (exc.MissingResponse, exc.ResponseError)
    try:
        r = r_cls(fr)
    except Exception as e:  # noqa
        return [("C06:constructor-raised:%s" % name, "%s: %r" % (where, e))]
    if r.raw_value is not fr:
        out.append(("C06:raw-value", "%s: raw_value is %r" % (where, r.raw_value)))
    clean = oc is not None and oc[0].startswith("ok")
    v = None if oc is None else oc[1]

    # ---- .value
    val = raised = None
    try:
        val = r.value
    except faults as e:
        raised = e
    except ValueError as e:
        raised = e
    except Exception as e:  # noqa
        out.append(("C06:value-raised:%s:%s" % (kind, type(e).__name__), "%s: .value raised %r" % (where, e)))
        raised = e
    # which of the two faults: a handler written for garbled answers (except ResponseError) does not see a missing
    # one and vice versa - "missing" and "garbled" are told apart by the exception
    if isinstance(raised, faults):
        if oc is None and (not isinstance(raised, exc.MissingResponse) or isinstance(raised, exc.ResponseError)):
            out.append(("C06:missing-answer-reported-as-garbled", "%s: .value raised %r (%s), which an 'except ResponseError' handler catches"
                        % (where, raised, " -> ".join(c.__name__ for c in type(raised).__mro__[:4]))))
        if oc is not None and not clean and (not isinstance(raised, exc.ResponseError) or isinstance(raised, exc.MissingResponse)):
            out.append(("C06:garbled-answer-reported-as-missing", "%s: .value raised %r (%s), which an 'except MissingResponse' handler catches"
                        % (where, raised, " -> ".join(c.__name__ for c in type(raised).__mro__[:4]))))
    if kind == "yesno":
        if raised is not None or val is not (oc is not None):
            out.append(("C06:yesno", "%s: value %r raised %r, expected %r" % (where, val, raised, oc is not None)))
    elif kind in ("numeric", "numeric-mask"):
        if clean:
            exp = "MASK" if (kind == "numeric-mask" and v == 255) else v
            if raised is not None or val != exp or (exp != "MASK" and not isinstance(val, int)) or isinstance(val, bool):
                out.append(("C06:numeric", "%s: value %r raised %r, expected %r" % (where, val, raised, exp)))
        else:
            if raised is not None and not isinstance(raised, faults):
                out.append(("C06:numeric-fault", "%s: raised %r" % (where, raised)))
            if raised is None and isinstance(val, int):
                out.append(("C06:numeric-fault", "%s: integer %r reported although no clean frame was received" % (where, val)))
            if raised is None and val == "MASK":
                out.append(("C06:numeric-fault", "%s: 'MASK' (the meaning of a clean answer 255) reported although no clean frame "
                            "was received" % where))
    elif kind == "enum":
        en = r_cls.enumerator
        if clean:
            defined = v in [m.value for m in en]
            if defined:
                if raised is not None or not isinstance(val, en) or val.value != v:
                    out.append(("C06:enum", "%s: value %r raised %r, expected member %d" % (where, val, raised, v)))
            else:
                if raised is not None and not isinstance(raised, ValueError):
                    out.append(("C06:enum-undefined", "%s: raised %r, expected ValueError" % (where, raised)))
                if raised is None and (isinstance(val, en) or isinstance(val, int)):
                    out.append(("C06:enum-undefined", "%s: undefined code reported as %r" % (where, val)))
        else:
            if raised is not None and not isinstance(raised, faults):
                out.append(("C06:enum-fault", "%s: raised %r" % (where, raised)))
            if raised is None and (isinstance(val, en) or isinstance(val, int)):
                out.append(("C06:enum-fault", "%s: %r reported although no clean frame was received" % (where, val)))
    elif kind == "generic":
        if clean:
            if raised is not None or val is not fr:
                out.append(("C06:generic", "%s: value %r raised %r, expected the frame itself" % (where, val, raised)))
        elif oc is None:
            if not (isinstance(raised, exc.MissingResponse) or (raised is None and val is None)):
                out.append(("C06:generic-missing", "%s: value %r raised %r" % (where, val, raised)))
        else:
            if not (isinstance(raised, exc.ResponseError) or (raised is None and val is fr)):
                out.append(("C06:generic-garbled", "%s: value %r raised %r" % (where, val, raised)))
    elif kind == "bitmap":
        # .value on a bitmap is the generic accessor
        if clean and (raised is not None or val is not fr):
            out.append(("C06:bitmap-value", "%s: value %r raised %r" % (where, val, raised)))
        if not clean and raised is not None and not isinstance(raised, faults):
            out.append(("C06:bitmap-value", "%s: raised %r" % (where, raised)))
        names = [b for b in r_cls.bits]
        legal_names = [b for b in names if b]
        st = sraised = None
        try:
            st = r.status
        except faults as e:
            sraised = e
        except Exception as e:  # noqa
            out.append(("C06:bitmap-status-raised", "%s: .status raised %r" % (where, e)))
            sraised = e
        if clean:
            exp = [b for i, b in enumerate(names) if b and (v >> i) & 1]
            if sraised is not None or st != exp:
                out.append(("C06:bitmap-status", "%s: status %r raised %r, expected %r" % (where, st, sraised, exp)))
            elif isinstance(st, list):
                # what a caller does with the list it was handed must not change what this or any other
                # response of the same frame reports afterwards
                st.append("verif-junk")
                if st and st[0] != "verif-junk":
                    st[0] = "verif-junk-0"
                try:
                    again = r.status
                    other = r_cls(frame.BackwardFrame(v)).status
                except Exception as e:  # noqa
                    again = other = "raised %r" % (e,)
                if again != exp or other != exp:
                    out.append(("C06:bitmap-status-shared-with-caller",
                                "%s: after the caller edited the returned list, status is %r / a fresh response of "
                                "the same frame reports %r, expected %r" % (where, again, other, exp)))
        else:
            if sraised is None and isinstance(st, list) and any(x in legal_names for x in st):
                out.append(("C06:bitmap-status-fault", "%s: status %r although no clean frame" % (where, st)))
        try:
            er = r.error
            # classes that redefine .error (QueryStatusResponse: "gear in an error state") are only
            # required not to raise; the inherited flag means "received with a framing error"
            if "error" not in r_cls.__dict__ and bool(er) is not (oc is not None and oc[0].startswith("err")):
                out.append(("C06:bitmap-error-flag", "%s: .error is %r" % (where, er)))
        except Exception as e:  # noqa
            out.append(("C06:bitmap-error-flag", "%s: .error raised %r" % (where, e)))
        for i, b in enumerate(names):
            if not b:
                continue
            a = araised = None
            try:
                a = getattr(r, mangle(b))
            except faults as e:
                araised = e
            except Exception as e:  # noqa
                araised = e
                out.append(("C06:bitmap-attr-raised", "%s: .%s raised %r" % (where, mangle(b), e)))
            if clean:
                if araised is not None or a is not bool((v >> i) & 1):
                    out.append(("C06:bitmap-attr", "%s: .%s is %r, expected %r" % (where, mangle(b), a, bool((v >> i) & 1))))
            elif araised is None and isinstance(a, bool):
                out.append(("C06:bitmap-attr-fault", "%s: .%s is %r although no clean frame" % (where, mangle(b), a)))

    # ---- the interpretation is a function of the frame, not of how often or in which order it was asked for
    def probe(obj):
        try:
            v2 = obj.value
            return ("value", repr(v2) if not isinstance(v2, frame.Frame) else "frame:%d:%s" % (v2.as_integer, v2.error))
        except Exception as e:  # noqa
            return ("raised", type(e).__name__)
    first = probe(r)
    second = probe(r)
    fresh = r_cls(fr)
    try:
        str(fresh)
    except Exception:  # noqa - judged below on r itself
        pass
    after_str = probe(fresh)
    if second != first or after_str != first:
        out.append(("C06:value-depends-on-access-history:%s" % base_of_value(r_cls),
                    "%s: .value gives %r on first access, %r on second access, %r after str()" % (where, first, second, after_str)))

    # ---- reading is not writing: after every public attribute of a response has been read, the frame it was built
    #      from (also the caller's own reference to it) and its interpretation are what they were
    if fr is not None:
        held = r_cls(fr)
        before = (fr.as_integer, len(fr), fr.error, probe(held))
        for a in sorted(x for x in dir(held) if not x.startswith("_")):
            try:
                getattr(held, a)
            except Exception:  # noqa - judged elsewhere
                pass
        try:
            rv = held.raw_value
            after = (rv.as_integer, len(rv), rv.error, probe(held))
            mine = (fr.as_integer, len(fr), fr.error)
        except Exception as e:  # noqa
            after, mine = ("raised", repr(e)), before[:3]
        if after != before or mine != before[:3]:
            out.append(("C06:reading-changed-the-response:%s" % name,
                        "%s: (frame value, length, error flag, .value) were %r; after reading every public attribute once they "
                        "are %r and the caller's frame is %r" % (where, before, after, mine)))
    # ---- a copy of a response (copy / deepcopy / pickle round trip, as a queue between threads or processes makes)
    #      interprets the same outcome the same way
    if (v or 0) % 5 == 0 and (fr is None or type(fr).__module__ == "dali.frame"):
        import copy
        import pickle
        for how, fn in (("copy.copy", copy.copy), ("copy.deepcopy", copy.deepcopy), ("pickle round trip", lambda x: pickle.loads(pickle.dumps(x))),
                        ("pickle protocol 0 round trip", lambda x: pickle.loads(pickle.dumps(x, protocol=0))),
                        ("pickle protocol 1 round trip", lambda x: pickle.loads(pickle.dumps(x, protocol=1)))):
            try:
                c = fn(r_cls(fr))
                same = type(c) is r_cls and probe(c) == first and ((c.raw_value is None) == (fr is None)) and \
                    (fr is None or (c.raw_value.as_integer == fr.as_integer and c.raw_value.error == fr.error))
            except Exception as e:  # noqa
                out.append(("C06:clone-raised:%s" % type(e).__name__, "%s: %s raised %r" % (where, how, e)))
                break
            if not same:
                out.append(("C06:clone-differs:%s" % name, "%s: %s gives %r with .value %r; the original: %r" % (where, how, c, probe(c), first)))
                break
    # ---- every other way of rendering as text: repr, format, containers, %-formatting
    for how, fn in (("repr()", lambda: repr(r)), ("format()", lambda: format(r)), ("'%r'", lambda: "%r" % (r,)),
                    ("'%s'", lambda: "%s" % (r,)), ("f'{!r}'", lambda: "{!r}".format(r)), ("str([r])", lambda: str([r])),
                    ("str({k: r})", lambda: str({"answer": r}))):
        try:
            t = fn()
            if not isinstance(t, str):
                out.append(("C06:str-type:%s" % name, "%s: %s gave %r" % (where, how, type(t))))
        except faults as e:
            out.append(("C06:text-rendering-raises:%s" % type(e).__name__, "%s: %s raised %r" % (where, how, e)))
        except ValueError as e:
            en = getattr(r_cls, "enumerator", None)
            if not (kind == "enum" and clean and v not in [m.value for m in en]):
                out.append(("C06:text-rendering-raises:ValueError", "%s: %s raised %r" % (where, how, e)))
        except Exception as e:  # noqa
            out.append(("C06:text-rendering-raises:%s" % type(e).__name__, "%s: %s raised %r" % (where, how, e)))
    # ---- rendering with a format specification (alignment, width, a number presentation): the specification may
    #      be refused (TypeError / ValueError, as `object` does), but whatever happens is not the bus outcome escaping
    for spec in (">12", "<8", "s", "^20s", "3d", "#04x", "08b", ".3", "!"):
        for how, fn in (("format(r, %r)" % spec, lambda: format(r, spec)),
                        ("'{:%s}'.format(r)" % spec, lambda: ("{:" + spec + "}").format(r))):
            try:
                t = fn()
                if not isinstance(t, str):
                    out.append(("C06:str-type:%s" % name, "%s: %s gave %r" % (where, how, type(t))))
            except faults as e:
                out.append(("C06:text-rendering-raises:%s" % type(e).__name__, "%s: %s raised %r" % (where, how, e)))
            except Exception:  # noqa - the specification was refused
                pass
    # ---- the response hands the frame through: when the caller's frame object changes afterwards (a driver
    #      reusing one frame object, a caller editing raw_value) every view follows it or none does
    if clean and kind != "generic":
        try:
            fr2 = frame.BackwardFrame(v)
            r2 = r_cls(fr2)
            first_view = probe(r2)
            nv = (v * 7 + 13) % 256
            fr2[7:0] = nv
            a = probe(r2)
            b = probe(r_cls(frame.BackwardFrame(nv)))
            if r2.raw_value.as_integer == nv and a != b:
                out.append(("C06:value-out-of-step-with-raw-value:%s" % base_of_value(r_cls),
                            "%s: after the frame it holds was changed to %d, raw_value shows %d but .value gives %r "
                            "(a response built on an equal frame: %r; before the change: %r)" % (where, nv, nv, a, b, first_view)))
        except Exception as e:  # noqa
            out.append(("C06:frame-change-raised:%s" % type(e).__name__, "%s: %r" % (where, e)))

    # ---- str()
    try:
        s = str(r)
        if not isinstance(s, str):
            out.append(("C06:str-type:%s" % name, "%s: str() gave %r" % (where, type(s))))
    except faults as e:
        out.append(("C06:str-raises:%s:%s" % (type(e).__name__, base_of_str(r_cls)), "%s: str() raised %r" % (where, e)))
    except ValueError as e:
        en = getattr(r_cls, "enumerator", None)
        if not (kind == "enum" and clean and v not in [m.value for m in en]):
            out.append(("C06:str-raises:ValueError:%s" % name, "%s: str() raised %r" % (where, e)))
    except Exception as e:  # noqa
        out.append(("C06:str-raises:%s:%s" % (type(e).__name__, name), "%s: str() raised %r" % (where, e)))
    return out


def base_of_value(r_cls):
    for k in r_cls.__mro__:
        if "value" in k.__dict__:
            return k.__name__
    return r_cls.__name__


def base_of_str(r_cls):
    """Name of the class whose __str__ is in effect (root cause of a str() failure)."""
    for k in r_cls.__mro__:
        if "__str__" in k.__dict__:
            return k.__name__
    return r_cls.__name__


BAD_ARGS = ["int", "str", "bytes", "frame8", "forward16", "list", "object", "float", "true", "response",
            "response-none", "response-same-class", "tuple", "backward-class",
            "repr-NO_RESPONSE", "repr-None", "repr-BackwardFrame", "equals-everything", "falsy-object",
            "legacy-tridonic-marker", "legacy-unipi-marker", "own-enum-member", "foreign-intenum", "plain-enum", "intflag",
            "int-subclass", "zero", "false", "empty-bytes", "empty-str", "assign-forward16", "assign-int", "assign-frame8", "assign-response"]


class _Repr:
    def __init__(self, text):
        self.text = text

    def __repr__(self):
        return self.text

    __str__ = __repr__


class _EqualsEverything:
    def __eq__(self, other):
        return True

    def __ne__(self, other):
        return False

    __hash__ = None


class _Falsy:
    def __bool__(self):
        return False

    def __len__(self):
        return 0


def _legacy_marker(which):
    """The 'no response' marker objects the legacy synchronous drivers return from send()."""
    from props import c18
    env = c18._env()
    try:
        if which == "tridonic":
            return env["T"].DALI_USB_NO_RESPONSE
        import importlib
        return importlib.import_module("dali.driver.unipi").DALI_NO_RESPONSE
    except Exception:  # noqa - marker not present in this version of the driver: use a look-alike
        return _Repr("NO_RESPONSE")


def case_ctor(r_cls, case):
    command, frame, exc = _load()
    if case["arg"].startswith("assign-"):
        # what a response holds after construction is still a backward frame or None
        what = {"assign-forward16": frame.ForwardFrame(16, 5), "assign-int": 5, "assign-frame8": frame.Frame(8, 5),
                "assign-response": command.Response(None)}[case["arg"]]
        bad = []
        for start in (None, frame.BackwardFrame(3)):
            r = r_cls(start)
            try:
                r.raw_value = what
            except Exception:  # noqa - refused: fine
                pass
            held = r.raw_value
            if held is not None and not isinstance(held, frame.BackwardFrame):
                bad.append("%s(%r) holds %r after raw_value was assigned" % (r_cls.__name__, start, held))
        return [("C06:response-made-to-hold-a-non-frame", "; ".join(bad))] if bad else []
    special = {"repr-NO_RESPONSE": lambda: _Repr("NO_RESPONSE"), "repr-None": lambda: _Repr("None"),
               "repr-BackwardFrame": lambda: _Repr("BackwardFrame(5)"), "equals-everything": _EqualsEverything,
               "falsy-object": _Falsy, "legacy-tridonic-marker": lambda: _legacy_marker("tridonic"),
               "legacy-unipi-marker": lambda: _legacy_marker("unipi")}
    import enum
    import http

    class _Colour(enum.Enum):
        RED = 1

    class _Flags(enum.IntFlag):
        A = 1

    class _MyInt(int):
        pass
    en = getattr(r_cls, "enumerator", None)
    special.update({
        # the value an enumerated answer decodes TO is not a frame either (own enumerator, or any other IntEnum)
        "own-enum-member": lambda: (list(en)[0] if en is not None else http.HTTPStatus.OK),
        "foreign-intenum": lambda: http.HTTPStatus.OK, "plain-enum": lambda: _Colour.RED, "intflag": lambda: _Flags.A,
        "int-subclass": lambda: _MyInt(5), "zero": lambda: 0, "false": lambda: False, "empty-bytes": lambda: b"",
        "empty-str": lambda: ""})
    if case["arg"] in special:
        arg = special[case["arg"]]()
        try:
            r = r_cls(arg)
        except Exception:  # noqa
            return []
        return [("C06:constructor-accepts-non-frame", "%s(%r) [%s] was accepted; it now holds %r"
                 % (r_cls.__name__, arg, case["arg"], r.raw_value))]
    arg = {"int": 5, "str": "wibble", "bytes": b"\x05", "frame8": frame.Frame(8, 5),
           "forward16": frame.ForwardFrame(16, 5), "list": [5], "object": object(), "float": 5.0,
           "true": True, "response": command.Response(frame.BackwardFrame(5)),
           "response-none": command.Response(None), "response-same-class": r_cls(frame.BackwardFrame(5)),
           "tuple": (frame.BackwardFrame(5),), "backward-class": frame.BackwardFrame}[case["arg"]]
    try:
        r = r_cls(arg)
    except Exception:  # noqa
        return []
    return [("C06:constructor-accepts-non-frame", "%s(%r) was accepted" % (r_cls.__name__, arg))]


# "255 reads as MASK where the standard says so": transcribed from IEC 62386-102:2014 11.5 / 9.x and -202:2009
# (answers defined as a level or MASK), and the converse for answers in which 255 is an ordinary number
MASK_AWARE = [
    ("dali.gear.general", "QueryActualLevel"), ("dali.gear.general", "QueryPowerOnLevel"),
    ("dali.gear.general", "QuerySystemFailureLevel"), ("dali.gear.general", "QuerySceneLevel"),
    ("dali.gear.emergency", "QueryEmergencyLevel"), ("dali.gear.emergency", "QueryBatteryCharge"),
]
PLAIN_NUMBER = [
    ("dali.gear.general", "QueryContentDTR0"), ("dali.gear.general", "QueryContentDTR1"),
    ("dali.gear.general", "QueryContentDTR2"), ("dali.device.general", "QueryContentDTR0"),
    ("dali.device.general", "QueryContentDTR1"), ("dali.device.general", "QueryContentDTR2"),
    ("dali.device.general", "QueryRandomAddressH"), ("dali.device.general", "QueryRandomAddressM"),
    ("dali.device.general", "QueryRandomAddressL"), ("dali.device.general", "ReadMemoryLocation"),
    ("dali.device.general", "QueryDeviceGroupsZeroToSeven"), ("dali.device.general", "QueryDeviceGroupsEightToFifteen"),
    ("dali.device.general", "QueryDeviceGroupsSixteenToTwentyThree"),
    ("dali.device.general", "QueryDeviceGroupsTwentyFourToThirtyOne"),
    ("dali.device.general", "QueryEventFilterZeroToSeven"), ("dali.device.general", "QueryEventFilterEightToFifteen"),
    ("dali.device.general", "QueryEventFilterSixteenToTwentyThree"), ("dali.device.general", "QueryInputValue"),
    ("dali.device.general", "QueryInputValueLatch"), ("dali.device.general", "QueryNumberOfInstances"),
    ("dali.gear.emergency", "QueryLampEmergencyTime"), ("dali.gear.emergency", "QueryLampTotalOperationTime"),
]


def association_case(case):
    """The answer 255 of a given COMMAND (not of a response class): MASK where the standard says so,
    the integer 255 where it is an ordinary number."""
    import importlib
    command, frame, exc = _load()
    mod = importlib.import_module(case["module"])
    cmd = getattr(mod, case["command"], None)
    where = "%s.%s" % (case["module"], case["command"])
    if cmd is None or getattr(cmd, "response", None) is None:
        return [("C06:command-response-missing:" + case["command"], "%s has no response class" % where)]
    out = []
    for v in (255, 254, 0):
        try:
            val = cmd.response(frame.BackwardFrame(v)).value
        except Exception as e:  # noqa
            val = "raised %r" % (e,)
        exp = "MASK" if (case["mask"] and v == 255) else v
        if val != exp or (exp != "MASK" and (not isinstance(val, int) or isinstance(val, bool))):
            out.append(("C06:answer-255-of-command:" + case["command"],
                        "%s answered %d: value %r, expected %r" % (where, v, val, exp)))
    return out


DERIVED = {
    # response class -> [(attribute or "str", reference function of the clean 8-bit value)], from the class docstrings
    # and IEC 62386-102 (status, fade time/rate), -202 (emergency mode), -206 (output level), -207 table 1, -209 11.3.4
    "QueryColourTypeFeaturesResponse": [("primary_n", lambda v: (v >> 2) & 7), ("RGBWAF_channels", lambda v: (v >> 5) & 7)],
    "QueryRBGWAFControlResponse": [("control_type", lambda v: ["channel control", "colour control", "normalised colour control",
                                                                "(error)"][(v >> 6) & 3])],
    "QueryStatusResponse": [("error", lambda v: bool(v & 0b01000011))],
    "QueryFadeTimeAndRateResponse": [("fade_time", lambda v: v >> 4), ("fade_rate", lambda v: v & 15)],
    "QueryEmergencyModeResponse": [("mode", lambda v: ",".join(
        n for i, n in enumerate(["rest mode", "normal mode", "emergency mode", "extended emergency mode", "function test",
                                 "duration test"]) if (v >> i) & 1))],
    "FastFadeTimeResponse": [("str", lambda v: "shortest" if v == 0 else "out of range (%d)" % v if v > 27 else "%d ms" % (v * 25))],
    "OutputLevelResponse": [("str", lambda v: "10.16V or more" if v == 254 else "unknown" if v == 255 else "%s V" % (v * 0.04))],
}


def derived_case(case):
    """case: {"op": "derived", "cls": key of response_classes(), "v": 0..255}"""
    command, frame, exc = _load()
    r_cls = response_classes()[case["cls"]][0]
    v = case["v"]
    out = []
    r = r_cls(frame.BackwardFrame(v))
    for attr, ref in DERIVED[r_cls.__name__]:
        try:
            got = str(r) if attr == "str" else getattr(r, attr)
        except Exception as e:  # noqa
            got = "raised %r" % (e,)
        exp = ref(v)
        if got != exp or (isinstance(exp, bool) and bool(got) is not exp) or (isinstance(exp, int) and not isinstance(exp, bool) and isinstance(got, bool)):
            if isinstance(exp, bool) and not isinstance(got, str) and bool(got) is exp:
                continue
            out.append(("C06:derived-field:%s.%s" % (r_cls.__name__, attr), "%s(%d).%s is %r, the documented meaning of the "
                        "byte gives %r" % (r_cls.__name__, v, attr, got, exp)))
    return out


def _derived_shard(_):
    res = Result()
    res.exhaustive = True
    classes = response_classes()
    have = {r.__name__: key for key, (r, users) in classes.items()}
    for name in sorted(DERIVED):
        if name not in have:
            res.violation("C06:response-class-missing", {"op": "derived", "cls": name}, "%s is no longer a response of any command" % name)
            continue
        for v in range(256):
            case = {"op": "derived", "cls": have[name], "v": v}
            res.count()
            res.nontrivial()
            for sig, msg in derived_case(case):
                res.violation(sig, case, msg)
        res.label("derived-fields:" + name, 256)
    res.sample({"op": "derived", "cls": have.get("QueryStatusResponse", ""), "v": 0x42}, cls="derived fields")
    return res


ENUM_TABLES = {
    # codes the standard defines for enumerated answers: IEC 62386-209 table 12, -103 table 8
    "QueryAssignedColourResponse": {0: "not_assigned", 1: "red", 2: "green", 3: "blue", 4: "white", 5: "amber", 6: "freecolour"},
    "QueryEventSchemeResponse": {0: "instance", 1: "device", 2: "device_instance", 3: "device_group", 4: "instance_group"},
}


def enum_table_case(case):
    """case: {"op": "enumtable", "cls": key, "v": code}: defined codes give the member of that name and number,
    undefined ones no member."""
    command, frame, exc = _load()
    r_cls = response_classes()[case["cls"]][0]
    v = case["v"]
    table = ENUM_TABLES[r_cls.__name__]
    try:
        val = r_cls(frame.BackwardFrame(v)).value
    except ValueError:
        val = "ValueError"
    except Exception as e:  # noqa
        val = "raised %r" % (e,)
    if v in table:
        ok = isinstance(val, r_cls.enumerator) and val.value == v and val.name == table[v]
    else:
        ok = not isinstance(val, (r_cls.enumerator, int))
    if ok:
        return []
    return [("C06:enum-table:" + r_cls.__name__, "%s answered %d: value %r, the standard's table says %s"
             % (r_cls.__name__, v, val, table.get(v, "undefined")))]


def _enum_shard(_):
    res = Result()
    res.exhaustive = True
    have = {r.__name__: key for key, (r, users) in response_classes().items()}
    for name in sorted(ENUM_TABLES):
        if name not in have:
            res.violation("C06:response-class-missing", {"op": "enumtable", "cls": name}, "%s is gone" % name)
            continue
        for v in range(256):
            case = {"op": "enumtable", "cls": have[name], "v": v}
            res.count()
            res.nontrivial()
            for sig, msg in enum_table_case(case):
                res.violation(sig, case, msg)
        res.label("enum-table:" + name, 256)
    return res


def _history_shard(kind):
    """Runs in a process of its own.  The program has used the generic base classes first ("base-first": a proprietary
    bitmap query answered through dali.command.BitmapResponse itself, plain Response / NumericResponse objects), or
    has derived its own response classes from the library's ("user-subclass": a vendor variant with bits moved);
    afterwards every response class attached to a command must interpret every outcome as before."""
    command, frame, exc = _load()
    res = Result()
    case0 = {"op": "history", "kind": kind}
    try:
        if kind == "base-first":
            for cls in (command.BitmapResponse, command.Response, command.NumericResponse, command.NumericResponseMask,
                        command.YesNoResponse):
                for fr in (frame.BackwardFrame(0x42), frame.BackwardFrame(0xFF), frame.BackwardFrameError(0x42), None):
                    r = cls(fr)
                    for fn in (lambda: r.value, lambda: r.status, lambda: str(r), lambda: repr(r), lambda: r.error):
                        try:
                            fn()
                        except Exception:  # noqa - whatever the base classes do with it is not judged here
                            pass
        else:
            for key, (r_cls, users) in response_classes().items():
                if kind_of(r_cls) == "bitmap":
                    names = list(r_cls.bits)
                    moved = names[1:] + names[:1]            # every name one position lower, bit 0's name on top
                    sub = type("Vendor" + r_cls.__name__, (r_cls,), {"bits": moved})
                    v = sub(frame.BackwardFrame(0x81))
                    for i, b in enumerate(moved):
                        if b and getattr(v, mangle(b)) is not bool((0x81 >> i) & 1):
                            res.violation("C06:user-subclass-bits:" + r_cls.__name__, case0,
                                          "a subclass of %s declaring its own bits reads .%s from the wrong bit" % (r_cls.__name__, mangle(b)))
                            break
                elif kind_of(r_cls) in ("numeric", "numeric-mask", "enum", "yesno"):
                    type("Vendor" + r_cls.__name__, (r_cls,), {"vendor": True})(frame.BackwardFrame(3))
    except Exception as e:  # noqa
        res.violation("C06:history-setup-raised:%s:%s" % (kind, type(e).__name__), case0, repr(e))
        return res
    n = 0
    for key, (r_cls, users) in response_classes().items():
        for oc in [None] + [("ok", v) for v in (0, 1, 2, 4, 0x42, 0x55, 0x80, 0x81, 0xAA, 0xFE, 0xFF)] + [("err", 0x42)]:
            case = {"cls": key, "outcome": list(oc) if oc else None}
            n += 1
            for sig, msg in run_case(case):
                res.violation(sig + ":after-" + kind, dict(case, history=kind), msg + " [after: %s]" % kind)
    res.count(n)
    res.nontrivial(n=n)
    res.label("history:" + kind, n)
    res.sample(case0, cls="history " + kind)
    return res


def _assoc_shard(_):
    res = Result()
    res.exhaustive = True
    for lst, mask in ((MASK_AWARE, True), (PLAIN_NUMBER, False)):
        for m, c in lst:
            case = {"op": "association", "module": m, "command": c, "mask": mask}
            res.count()
            res.nontrivial()
            res.label("association:" + ("MASK" if mask else "plain-number"))
            for sig, msg in run_case(case):
                res.violation(sig, case, msg)
    res.sample({"op": "association", "module": "dali.gear.general", "command": "QueryPowerOnLevel", "mask": True},
               cls="association")
    return res


def _shard(arg):
    if arg is None:
        return _assoc_shard(arg)
    if arg == "derived":
        return _derived_shard(arg)
    if arg == "enumtable":
        return _enum_shard(arg)
    name = arg
    res = Result()
    res.exhaustive = True
    outcomes = [None] + [("ok", v) for v in range(256)] + [("err", v) for v in range(256)] + \
        [(k, v) for k in ("ok-sub", "err-sub") for v in (0, 1, 5, 0x42, 0x80, 254, 255)]
    if kind_of(response_classes()[name][0]) == "yesno":
        # "true exactly when anything at all was received" - whatever the received object thinks of its own truth value
        # (the other response kinds test the frame's truth value on the unchanged tree as well; not judged there)
        outcomes += [(k, v) for k in ("ok-falsy", "err-falsy") for v in (0, 1, 255)]
    for oc in outcomes:
        case = {"cls": name, "outcome": list(oc) if oc else None}
        res.count()
        if oc is not None:
            res.nontrivial()
        for sig, msg in run_case(case):
            res.violation(sig, case, msg)
    for a in BAD_ARGS:
        case = {"cls": name, "op": "ctor", "arg": a}
        res.count()
        res.nontrivial()
        for sig, msg in run_case(case):
            res.violation(sig, case, msg)
    r_cls, users = response_classes()[name]
    res.label("kind:" + kind_of(r_cls))
    if kind_of(r_cls) == "bitmap":
        res.extra["named_bits_checked"] = 513 * len([b for b in r_cls.bits if b])
    res.extra["classes"] = {name: {"kind": kind_of(r_cls), "commands": len(users)}}
    res.sample({"cls": name, "outcome": ["err", 0x55]}, cls=kind_of(r_cls))
    return res


def run(ctx):
    names = list(response_classes())
    ctx.pmap(_shard, names + [None, "derived", "enumtable"])
    ctx.pmap(_history_shard, ["base-first", "user-subclass"], fresh=True)
    ctx.result.extra["response_classes"] = len(names)
