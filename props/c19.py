"""C19 - the LUBA and SCI serial receivers deframe any byte stream like the protocol's grammar.

Engine: grammar-guided Hypothesis byte streams (valid frames of every type with well-formed payloads, every
length byte 0..255, corrupted checksums, unknown command codes, truncated frames, noise with embedded 0x59,
checksum-valid frames that are malformed for their type) followed by an optional well-formed trailing frame
(directly, or after enough idle bytes that any grammar is back at a frame boundary), cut into chunks in two
different ways, byte by byte and whole, and fed to fresh LubaProtocol / SCIRS232Protocol objects through
`data_received`.  A deterministic sweep over every length byte 0..255 runs first.

Oracle: harness.ref_wire.luba_deframe / sci_deframe (no code shared with the library) run on the whole
stream; the contents of the protocol object's queues (raw answers, transmit confirmations, info/settings,
observed commands through a child DistributorQueue) must equal the reference's item sequences for every
chunking; no exception may escape `data_received`.

Reads that are split are reads at different times: while `data_received` runs, the `time` module's clock
functions are replaced by a fake clock which the harness advances by the case's pauses (0 / 0.05 / 0.25 / 5 s)
between the reads of a chunked feed and never inside the whole-stream feed, so any dependence of the receiver on
a clock shows up as a dependence on the chunking.  Long streams (33..150 repetitions of well-formed frames,
queues not drained) are part of both the sweep and the generated streams.

Several receivers ("multi"): two or three receiver objects (LUBA+LUBA, SCI+SCI, LUBA+SCI, ...) alive in one program
are read in turns under a generated schedule of (receiver, number of bytes); each must deliver what the reference
extracts from ITS OWN stream (= what it delivers as the only receiver, fed in the same pieces).
Transmissions between reads ("txmid"): between two reads the program starts a transmission through the protocol
object's public transmit side (send_dali_command / send_device_info_query / send_device_settings /
reset_dali_response) on a private asyncio loop; the queues are collected first, the transmission runs until it waits
for the gateway and is cancelled; the items delivered from the receive stream must still be the reference's.
Receiver histories ("hist"): before the judged stream is fed, the SAME protocol object has completed public operations
(send_device_info_query / send_device_settings / send_dali_command with the gateway's reply fed through data_received
while the operation waits, reset_dali_response) and read earlier streams of whole frames; what was delivered so far is
collected, then the judged stream (all id nibbles / payloads free, also the history's replies once more) is fed whole
and in chunks: the items must be the reference's, exactly as for a fresh receiver.
All have a deterministic sweep (every frame kind cut at every position x every partner frame kind / transmit
operation) and a Hypothesis part over the grammar streams.
"""
import logging

from hypothesis import strategies as st

from harness import hyp
from harness import ref_wire as RW
from harness.runner import Result, library_frame

ID = "C19"
OPTIMIZED_PASS = True      # the whole search runs once more under python -OO (harness/runner.py)
LEVEL = "exploration"
RULE = ("one case = (protocol, byte stream, two chunkings); streams are drawn from the protocol grammar (see module "
        "docstring); distinct by fingerprint of (stream, chunkings); the deterministic sweep is distinct by construction; non-trivial = the reference deframer drops at least one "
        "frame (bad checksum / unknown command / impossible length) and delivers an item from a later frame, or the "
        "stream contains a LUBA length byte >= 20 at a frame's length position, or the reference delivers more than "
        "32 items from one stream (long streams: 33..150 repetitions of well-formed frames, nothing drained in "
        "between); every read of a chunked feed happens after a pause of 0 / 0.05 / 0.25 / 5 s on a clock that only "
        "the harness advances (part of the case); multi: one case = (2-3 receivers with their streams, read schedule), "
        "non-trivial = some receiver is left inside a frame the reference delivers while another receiver reads; txmid: "
        "one case = (protocol, stream, reads, transmit operations before given reads), non-trivial = a transmission "
        "starts at an offset strictly inside a frame the reference delivers; hist: one case = (protocol, history of "
        "operations with their replies and earlier streams, judged stream, reads), non-trivial = the history contains "
        "an operation and the reference delivers an item from the judged stream")
ASSUMPTIONS = [
    "resynchronisation rule (design choice, taken from the receivers' own state machines on well-formed prefixes): a "
    "LUBA frame dropped for a bad checksum or an unknown command code is consumed as a whole (length+4 bytes), the "
    "search for 'Y' does not restart inside it; a frame with an impossible length byte ends right after the length "
    "byte; bytes other than 'Y' between frames are skipped; the byte after 'Y' is always the command code, even 'Y'",
    "a LUBA length byte is possible iff 1 <= length <= 20: sync+command+length+payload+checksum must fit the "
    "receiver's 24-entry buffer (20 is the device-info reply, the longest message of the protocol)",
    "SCI has no sync byte: every five bytes are one frame, a dropped frame consumes exactly five bytes; a trailing "
    "frame is therefore only required to be delivered when it starts on a five-byte boundary (the reference decides)",
    "well-formed payloads: event (0x31) has >= 4 bytes (tick, tick, line, status), a 'sent' event >= 5; a 'received' "
    "event with info 1..32 carries info/8 bytes and info is 8, 16 or 24; 0x33 has length 1 or 2; 0x21 has length 20; "
    "0x2B has length 3.  Streams in which the REFERENCE finds a checksum-valid frame violating this are set aside "
    "and counted (the driver raises deliberately for most of them)",
    "received events with info 62/63 (bus errors), unknown info codes, event types 1 and 3, SCI codes 4/5/6 and SCI "
    "error frames with an undefined error number deliver nothing; SCI error frames (code 7, error 1..5) and status "
    "frames (codes 0, 1) deliver (id, code) to the info queue; unused data bytes of SCI frames are not inspected",
    "pauses between reads exist only on the fake clock (time.monotonic / time / perf_counter and their _ns variants, "
    "also where the driver module imported them by name); a receiver that reads time some other way is not covered; "
    "the queues are not drained while a stream is fed (the property's observation point is their content AFTER "
    "data_received), so a long stream needs as many queue slots as it has items",
    "txmid: the program collects the receiver's queues before it transmits (so the transmit side finds nothing to "
    "consume and what was delivered before stays observed), and gives up the transmission (cancels it) as soon as it "
    "waits for the gateway's confirmation/reply; whatever the transmit side itself does or raises is not judged here "
    "(C15-C18), only what reception delivers around it.  The confirmation a real gateway would send is therefore never "
    "needed; a transmission that runs to completion with scripted confirmations belongs to the driver scenarios",
    "hist: the bytes of a history (replies, earlier streams) are whole frames none of which is malformed for its type, so "
    "the judged stream starts on a frame boundary; an operation is started through the protocol object, the reply is "
    "fed while it waits, it runs to its end (or is cancelled when the reply does not satisfy it); what the operation "
    "returns or raises is not judged (C15-C18); everything delivered during the history is collected before the "
    "judged stream starts; observed commands are compared by frame bytes, so a device type remembered from the "
    "history's last observed frame does not matter",
    "multi: receiver objects are created up front, each is only ever given bytes of its own stream; reads of different "
    "receivers never overlap in time (one thread, one event loop - as in the drivers)",
    "a transmit confirmation is compared by tx_id; its decoded message is compared (frame bytes) only when the "
    "driver managed to decode one; an observed command is compared by the bytes of its frame",
]

# signatures of defects confirmed on the unchanged repository: reported once per run by the deterministic
# part, excluded-and-counted inside the Hypothesis search so that it continues behind them
# All three defects found at the pinned commit (luba-length-overrun, luba/sci-observed-unknown-command-dropped)
# have been repaired in /repo (see KNOWN_FINDINGS.txt "fixed:" lines), so nothing is excluded any more: if one
# returns it is reported by the deterministic sweep, by the Hypothesis search and by its regression replay.
CONFIRMED = set()

LUBA_HOST_CODES = [0x2A, 0x2C, 0x2D, 0x20, 0x32, 0x34, 0x35, 0x36, 0x37]
LUBA_UNKNOWN_CODES = [c for c in range(256) if c not in RW.LUBA_CMDS]
# forward frames that decode to a known command whatever device type is remembered
POOL16 = [[0xFF, 0x00], [0x01, 0x05], [0xFE, 0x80], [0x02, 0xFE], [0x81, 0x10], [0xFF, 0x90], [0x03, 0xA0],
          [0xA3, 0x55], [0xFF, 0x20], [0xA5, 0x00], [0xFF, 0x2B]]
# ENABLE DEVICE TYPE n followed at once by an application extended command of that type
DT_PAIRS = [([0xC1, 0x06], [0x01, 0xE0]), ([0xC1, 0x08], [0xFF, 0xE2]), ([0xC1, 0x01], [0x05, 0xE0])]
POOL24 = [[0xFF, 0xFE, 0x00], [0xC1, 0x30, 0x01], [0x01, 0xFE, 0x30], [0xFF, 0xFE, 0x10], [0xC1, 0x01, 0x00],
          [0x03, 0xFE, 0x1D]]
UNKNOWN16 = [0xCB, 0x00]
UNKNOWN24 = [0x01, 0x02, 0x55]


# ------------------------------------------------------------------ library side ----
def _lib():
    from dali.driver import serial as S
    from harness import verbose
    if verbose._STATE["verbose"] is None:
        verbose.set(False)          # quiet unless a case asks for the library's logging (run_case)
    return S


def _new(proto):
    S = _lib()
    if proto == "luba":
        p = S.DriverLubaRs232.LubaProtocol()
    else:
        p = S.DriverSCIRS232.SCIRS232Protocol()
    child = S.DistributorQueue(p._queue_rx_dali)
    return p, child


def _drain(q):
    out = []
    while q.qsize():
        out.append(q.get_nowait())
    return out


def _collect(proto, p, child):
    S = _lib()
    if getattr(p, "_verif_waited", False):
        # somebody had waited for a backward frame and given up: let the event loop make a few passes, so that whatever
        # that wait left behind has had its chance to take (and lose) what arrived since
        import asyncio
        for _ in range(3):
            _loop().run_until_complete(asyncio.sleep(0))
    got = {"raw": _drain(p._queue_rx_raw_dali), "conf": [], "info": [], "observed": [], "confmsg": []}
    for c in _drain(child):
        got["observed"].append(list(c.frame.as_byte_sequence))
    if proto == "luba":
        for c in _drain(p._queue_tx_conf):
            got["conf"].append(c.tx_id)
            got["confmsg"].append(None if c.message is None else
                                  (len(c.message.frame), list(c.message.frame.as_byte_sequence)))
        for it in _drain(p._queue_rx_luba_cmd):
            if isinstance(it, S.DriverLubaRs232.LubaDeviceInfo):
                got["info"].append(("info", it.gtin, it.id, it.pcb_ver, it.assembly_ver, it.article_num))
            elif isinstance(it, S.DriverLubaRs232.LubaDeviceSettings):
                got["info"].append(("settings", it.mode, it.event_filter))
            else:
                got["info"].append(("?", repr(it)))
    else:
        for it in _drain(p._queue_rx_info):
            got["info"].append((it.id, it.code) if hasattr(it, "code") else ("?", repr(it)))
    return got


# ------------------------------------------------------------------- fake clock ----
# The property quantifies over "every way of splitting the stream into reads"; reads that are split are also
# reads that arrive at different times.  While data_received runs, the functions of the `time` module are
# replaced by a clock that only the harness advances (by the case's pauses between reads, never inside the
# whole-stream feed), so a receiver that consults any clock produces different results for different splits
# and is caught by the chunking-independence oracle - and the check itself never depends on the real clock.
GAPS = [0.0, 0.05, 0.25, 5.0]
DEFAULT_GAPS = [0.25, 0.0, 5.0, 0.05]
DEFAULT_PAUSE = 0.25
_CLOCK_FLOAT = ("monotonic", "time", "perf_counter")
_CLOCK_NS = ("monotonic_ns", "time_ns", "perf_counter_ns")
_REAL_CLOCK = {}
_MODULE_ALIASES = {}


class FakeClock:
    def __init__(self, start=86400.0 * 365):
        import time
        self.now = start
        self.time = time
        if not _REAL_CLOCK:
            for n in _CLOCK_FLOAT + _CLOCK_NS:
                _REAL_CLOCK[n] = getattr(time, n)
        S = _lib()
        if S.__name__ not in _MODULE_ALIASES:
            # `from time import monotonic` style imports inside the driver module
            _MODULE_ALIASES[S.__name__] = [(attr, n) for attr, v in vars(S).items()
                                           for n, real in _REAL_CLOCK.items() if v is real]
        self.module = S
        self.aliases = _MODULE_ALIASES[S.__name__]
        self.fakes = {n: self._float for n in _CLOCK_FLOAT}
        self.fakes.update({n: self._ns for n in _CLOCK_NS})

    def _float(self):
        return self.now

    def _ns(self):
        return int(round(self.now * 1e9))

    def advance(self, dt):
        self.now += dt

    def __enter__(self):
        for n, f in self.fakes.items():
            setattr(self.time, n, f)
        for attr, n in self.aliases:
            setattr(self.module, attr, self.fakes[n])
        return self

    def __exit__(self, *exc):
        """the real functions are back before the feed returns or raises"""
        for n, f in _REAL_CLOCK.items():
            setattr(self.time, n, f)
        for attr, n in self.aliases:
            setattr(self.module, attr, _REAL_CLOCK[n])
        return False


class _Port:
    """the serial.Serial object behind the transport, as far as a receiver may touch it"""

    def __init__(self):
        self.flushed = False
        self.in_waiting = 0
        self.out_waiting = 0
        self.is_open = True
        self.port = "/dev/verif-serial"
        self.baudrate = 38400

    def reset_input_buffer(self):
        self.flushed = True
        self.in_waiting = 0

    flushInput = reset_input_buffer

    def reset_output_buffer(self):
        pass

    def flush(self):
        pass


class _Transport:
    def __init__(self, port):
        self.serial = port
        self.written = []
        self.loop = None

    def write(self, data):
        self.written.append(bytes(data))

    def get_extra_info(self, name, default=None):
        return self.serial if name == "serial" else default

    def close(self):
        pass


def _chunks(stream, cuts):
    n = len(stream)
    pts = sorted({c % (n + 1) for c in cuts} | {0, n})
    return [stream[a:b] for a, b in zip(pts, pts[1:]) if b > a]


def feed(proto, stream, chunks, gaps=(0.0,)):
    """Feed the chunks to a fresh protocol object; gaps[k % len] seconds pass (on the fake clock) between
    chunk k and chunk k+1.  Returns (queues, exc) with exc = None or (offset of the first byte of the failing
    chunk, exception)."""
    p, child = _new(proto)
    off = 0
    exc = None
    # the receiver is attached to a transport shaped like pyserial-asyncio's: it exposes the serial port object.  Bytes
    # that follow a read without a pause have already arrived (they sit in the operating system's buffer): should the
    # receiver empty the port's input buffer, they are gone - and the reference, which saw them arrive, will miss them
    port = _Port()
    p.connection_made(_Transport(port))
    # nothing but the receiver and these few lines runs while the clock is replaced (no Hypothesis code, no
    # harness code that reads a clock); a garbage collection inside the window starts and ends inside it
    with FakeClock() as clock:
        for k, ch in enumerate(chunks):
            if k:
                gap = gaps[(k - 1) % len(gaps)]
                clock.advance(gap)
                if gap > 0:
                    port.flushed = False
            if port.flushed:
                off += len(ch)
                continue
            port.in_waiting = len(chunks[k + 1]) if k + 1 < len(chunks) and gaps[k % len(gaps)] == 0 else 0
            try:
                p.data_received(ch)
            except Exception as e:  # noqa: the property forbids any exception here
                exc = (off, e)
                break
            off += len(ch)
    if exc is not None and library_frame(exc[1].__traceback__) is None:
        raise exc[1]
    return _collect(proto, p, child), exc


# ---------------------------------------------------------------------- oracle ----
def _is_unknown_command(fbytes, dts):
    """Would the library decode this forward frame to a generic 'unknown' command (for any of the device
    types that may be remembered)?  Used only to name the root cause of a dropped observed frame."""
    from dali import command, frame
    import dali.gear.general as gg  # noqa: registers the command classes
    import dali.device.general as dg  # noqa
    for dt in dts:
        try:
            c = command.Command.from_frame(frame.ForwardFrame(8 * len(fbytes), fbytes), devicetype=dt)
        except Exception:  # noqa
            return True
        if type(c) is command.Command or type(c).__name__.startswith("Unknown"):
            return True
    return False


def _compare(proto, ref, got, how, stream):
    out = []
    for q in ("raw", "info"):
        if got[q] != ref[q]:
            out.append(("C19:%s:%s-queue-differs" % (proto, q),
                        "%s: %s queue %r, reference %r" % (how, q, got[q][:12], ref[q][:12])))
    if proto == "luba":
        if got["conf"] != [t for t, _ in ref["conf"]]:
            out.append(("C19:luba:confirmation-queue-differs",
                        "%s: tx ids %r, reference %r" % (how, got["conf"][:12], [t for t, _ in ref["conf"]][:12])))
        else:
            for (tid, fb), m in zip(ref["conf"], got["confmsg"]):
                if m is not None and m != (8 * len(fb), fb):
                    out.append(("C19:luba:confirmation-message-differs",
                                "%s: tx id %d decoded to frame %r, reference bytes %r" % (how, tid, m, fb)))
                    break
    if got["observed"] != ref["observed"]:
        # root cause: frames that decode to no known command are dropped (Frame instead of ForwardFrame)?
        dts = [0] + [f[1] for f in ref["observed"] if len(f) == 2 and f[0] == 0xC1]
        it = iter(ref["observed"])
        missing = []
        ok = True
        for g in got["observed"]:
            for r in it:
                if r == g:
                    break
                missing.append(r)
            else:
                ok = False
                break
        missing.extend(it)
        if ok and missing and all(_is_unknown_command(m, dts) for m in missing):
            out.append(("C19:%s-observed-unknown-command-dropped" % proto,
                        "%s: observed frame(s) %r decode to no known command and were not delivered to the "
                        "observed-command queue (frame.Frame passed to Command.from_frame, which needs a "
                        "ForwardFrame to build the generic command)" % (how, missing[:4])))
        else:
            out.append(("C19:%s:observed-queue-differs" % proto,
                        "%s: observed %r, reference %r" % (how, got["observed"][:8], ref["observed"][:8])))
    return out


def _gapstr(gaps):
    return "/".join("%gs" % g for g in gaps)


def _judge(proto, stream, cutlists, gaplists=None, pause=None):
    """Violations for one stream (not set aside)."""
    if gaplists is None:
        gaplists = [DEFAULT_GAPS[k:] + DEFAULT_GAPS[:k] for k in range(len(cutlists))]
    if pause is None:
        pause = DEFAULT_PAUSE
    ref = (RW.luba_deframe if proto == "luba" else RW.sci_deframe)(stream)
    if ref["malformed"]:
        return None, ref
    out = []
    runs = [("whole", [stream] if stream else [], [0.0])]
    runs.append(("byte by byte, %gs between reads" % pause, [stream[i:i + 1] for i in range(len(stream))], [pause]))
    for k, cuts in enumerate(cutlists):
        gaps = list(gaplists[k % len(gaplists)]) if gaplists else [0.0]
        gaps = gaps or [0.0]
        runs.append(("chunking %d %r with pauses %s between the reads" % (
            k + 1, [len(c) for c in _chunks(stream, cuts)][:20], _gapstr(gaps[:8])), _chunks(stream, cuts), gaps))
    results = []
    hows = []
    for how, chunks, gaps in runs:
        got, exc = feed(proto, stream, chunks, gaps)
        hows.append(how)
        results.append(got)
        if exc is not None:
            off, e = exc
            out.append(("C19:%s:data_received-raised:%s@%s" % (proto, type(e).__name__,
                                                               library_frame(e.__traceback__)),
                        "%s: data_received raised %r in the chunk starting at offset %d" % (how, e, off)))
            continue
        out.extend(_compare(proto, ref, got, how, stream))
    if not out and any(r != results[0] for r in results[1:]):
        k = [i for i, r in enumerate(results) if r != results[0]][0]
        out.append(("C19:%s:chunking-dependent" % proto, "results differ between '%s' and '%s'" % (hows[0], hows[k])))
    # keep one violation per signature
    seen = {}
    for sig, msg in out:
        seen.setdefault(sig, msg)
    return list(seen.items()), ref


def run_case(case):
    from harness import verbose
    if case.get("verbose") == "both":
        return run_case(dict(case, verbose=False)) + [(sig, "[library logging at its most verbose level] " + msg)
                                                      for sig, msg in run_case(dict(case, verbose=True))]
    verbose.set(case["verbose"] if "verbose" in case else verbose.derived(case))
    try:
        return _run_case(case)
    finally:
        verbose.set(False)


def _run_case(case):
    if case.get("kind") == "multi":
        return _judge_multi(case) or []
    if case.get("kind") == "txmid":
        return _judge_txmid(case) or []
    if case.get("kind") == "hist":
        return _judge_hist(case) or []
    proto = case["proto"]
    stream = bytes.fromhex(case["stream"])
    cutlists = case.get("cuts", [])
    gaplists, pause = case.get("gaps"), case.get("pause")
    vs, ref = _judge(proto, stream, cutlists, gaplists, pause)
    if vs is None:
        return []                   # set aside: malformed-for-type frame (counted by the caller)
    if vs and proto == "luba":
        # root-cause attribution for the buffer overrun: first length byte 21..23 at a length position
        for kind, i, ln in ref["trace"]:
            if kind == "bad-length" and 21 <= ln <= 23 and any("data_received-raised:IndexError" in v[0] for v in vs):
                pre, _ = _judge(proto, stream[:i], [], None, pause)
                if not [v for v in pre if v[0] not in CONFIRMED]:
                    return pre + [("C19:luba-length-overrun",
                             "length byte %d at offset %d (frame start %d): the receiver accepts it "
                             "although 3+length+1 bytes do not fit its 24-entry buffer; it then "
                             "raises IndexError at offset %d and on every later byte, or swallows the following "
                             "frames.  first symptom: %s" % (ln, i + 2, i, i + 24, vs[0][1][:300]))]
                break
    if not vs and case.get("tail", {}).get("must_deliver"):
        # harness sanity: after the idle flush the reference itself must have delivered the trailer
        if not ref["trace"] or ref["trace"][-1][0] != "delivered" or \
                ref["trace"][-1][1] != len(stream) - case["tail"]["len"]:
            raise AssertionError("reference did not deliver a flushed trailer: %r" % (case,))
    return vs


def set_aside(case):
    ref = (RW.luba_deframe if case["proto"] == "luba" else RW.sci_deframe)(bytes.fromhex(case["stream"]))
    return ref["malformed"]


def nontrivial(case):
    stream = bytes.fromhex(case["stream"])
    ref = (RW.luba_deframe if case["proto"] == "luba" else RW.sci_deframe)(stream)
    if ref["malformed"]:
        return False
    if sum(1 for t in ref["trace"] if t[0] == "delivered") > 32:
        return True
    dropped = False
    for t in ref["trace"]:
        if t[0] in ("bad-checksum", "unknown-command", "bad-length"):
            dropped = True
        elif t[0] == "delivered" and dropped:
            return True
        if case["proto"] == "luba" and t[1] + 2 < len(stream) and stream[t[1] + 2] >= 20:
            return True
    return False


def classify(case):
    labs = ["%s:seg:%s" % (case["proto"], s if not s.startswith("long:") or "+" not in s else "long:mixture")
            for s in case.get("segs", [])]
    if "gaps" in case:
        labs.extend("pause-between-reads:%gs" % g for g in sorted({g for gl in case["gaps"] for g in gl} | {case["pause"]}))
    labs.append("%s:tail:%s" % (case["proto"], case.get("tail", {}).get("mode", "none")))
    ref = (RW.luba_deframe if case["proto"] == "luba" else RW.sci_deframe)(bytes.fromhex(case["stream"]))
    if ref["malformed"]:
        labs.append("%s:set-aside-malformed-for-type" % case["proto"])
    for t in ref["trace"]:
        labs.append("%s:ref:%s%s" % (case["proto"], t[0], ":" + t[2] if t[0] in ("delivered", "ignored") else ""))
        if t[0] == "bad-length" and case["proto"] == "luba":
            labs.append("luba:ref:bad-length:%s" % ("0" if t[2] == 0 else "21-23" if t[2] <= 23 else "24+"))
    return labs


# ------------------------------------------------ several receivers / transmissions ----
# The property speaks about "the receivers": what one receiver delivers is a function of ITS byte stream alone.
#  multi   two or three receiver objects (LUBA and/or SCI, e.g. two serial ports) alive in one program, fed in
#          turns, a few bytes at a time: each must deliver exactly what the reference extracts from its own stream
#          (and what it delivers when it is the only receiver).
#  txmid   between two reads the program uses the protocol object's own transmit side (send_dali_command,
#          send_device_info_query, send_device_settings, reset_dali_response).  The queues are collected first (the
#          observation point of the property: their content after data_received), so nothing is there for the
#          transmit side to consume; the transmission is started, runs until it waits for the gateway, and is then
#          cancelled (a caller's timeout).  The items delivered from the receive stream must still be the reference's.
_LOOP = []


def _loop():
    if not _LOOP:
        import asyncio
        _LOOP.append(asyncio.new_event_loop())
    return _LOOP[0]


class _Sink:
    """transport stand-in: the bytes go nowhere"""

    def __init__(self):
        self.written = []

    def write(self, data):
        self.written.append(bytes(data))

    def close(self):
        pass


TX_OPS = {"luba": ["send", "send", "info", "settings", "resetq", "waitraw"], "sci": ["send", "send", "info", "resetq", "waitraw"]}


def _tx_commands():
    import dali.gear.general as gg
    import dali.device.general as dg
    from dali.address import Broadcast, DeviceShort
    return [gg.DAPC(1, 10), gg.QueryStatus(3), gg.Reset(4), gg.Off(Broadcast()), dg.QueryDeviceStatus(DeviceShort(1))]


def _transmit(p, proto, op, cmdno):
    """Start one transmission through the protocol object, let it run until it waits, cancel it.
    -> None or the exception the library raised (not judged here: C15-C18)."""
    import asyncio
    if op == "resetq":
        p.reset_dali_response()
        return None
    cmds = _tx_commands()
    if op == "waitraw":
        # somebody waits for a backward frame and gives up (its own timeout) before one arrives; what arrives later is
        # still delivered to whoever asks next.  (Only when nothing is queued: the wait would rightly take it.)
        if p._queue_rx_raw_dali.qsize():
            return None
        p._verif_waited = True
        coro = p.wait_dali_raw_response()
    elif op == "send":
        coro = p.send_dali_command(cmds[cmdno % len(cmds)])
    elif op == "info":
        coro = p.send_device_info_query()
    elif op == "settings":
        coro = p.send_device_settings()
    else:
        raise ValueError(op)

    async def go():
        t = asyncio.ensure_future(coro)
        for _ in range(4):
            await asyncio.sleep(0)
        t.cancel()
        try:
            await t
        except asyncio.CancelledError:
            return None
        except Exception as e:  # noqa
            if library_frame(e.__traceback__) is None:
                raise
            return e
        return None
    return _loop().run_until_complete(go())


def _merge(acc, got):
    for k, v in got.items():
        acc.setdefault(k, []).extend(v)
    return acc


def feed_tx(proto, chunks, txs, gaps=(0.0,)):
    """Like feed(), with transmissions: txs = {chunk number: [(op, command number)]} happen BEFORE that chunk is
    read.  The queues are collected before every transmission and at the end; the collections are concatenated."""
    p, child = _new(proto)
    p.transport = _Sink()
    acc = {}
    exc = None
    off = 0
    clock = FakeClock()
    for k, ch in enumerate(chunks):
        if k in txs:
            _merge(acc, _collect(proto, p, child))
            for op, cmdno in txs[k]:
                _transmit(p, proto, op, cmdno)
        if k:
            clock.advance(gaps[(k - 1) % len(gaps)])
        try:
            with clock:
                p.data_received(ch)
        except Exception as e:  # noqa: the property forbids any exception here
            exc = (off, e)
            break
        off += len(ch)
    if exc is not None and library_frame(exc[1].__traceback__) is None:
        raise exc[1]
    _merge(acc, _collect(proto, p, child))
    return acc, exc


def _reads(lengths, schedule):
    """The reads of a schedule [(receiver number, number of bytes)]: the schedule is repeated until every stream is
    used up (what is left when a whole round moves nothing is read in one piece, receiver by receiver).
    -> [(receiver, from, to)]"""
    n = len(lengths)
    pos = [0] * n
    out = []
    while any(pos[i] < lengths[i] for i in range(n)):
        moved = False
        for i, k in schedule:
            i %= n
            if k > 0 and pos[i] < lengths[i]:
                b = min(lengths[i], pos[i] + k)
                out.append((i, pos[i], b))
                pos[i] = b
                moved = True
        if not moved:
            for i in range(n):
                if pos[i] < lengths[i]:
                    out.append((i, pos[i], lengths[i]))
                    pos[i] = lengths[i]
    return out


def feed_multi(rx, schedule, gaps=(0.0,)):
    """rx: [(proto, stream)], schedule: see _reads().
    -> [(queues, exc)] per receiver, [[chunk]] per receiver (for feeding each alone in the same pieces)"""
    objs = [_new(proto) for proto, _ in rx]
    pieces = [[] for _ in rx]
    excs = [None] * len(rx)
    clock = FakeClock()
    k = 0
    for i, a, b in _reads([len(st_) for _, st_ in rx], schedule):
        if excs[i] is not None:
            continue
        ch = rx[i][1][a:b]
        if k:
            clock.advance(gaps[(k - 1) % len(gaps)])
        k += 1
        try:
            with clock:
                objs[i][0].data_received(ch)
        except Exception as e:  # noqa
            if library_frame(e.__traceback__) is None:
                raise
            excs[i] = (a, e)
        pieces[i].append(ch)
    return [(_collect(rx[i][0], objs[i][0], objs[i][1]), excs[i]) for i in range(len(rx))], pieces


def _deframe(proto, stream):
    return (RW.luba_deframe if proto == "luba" else RW.sci_deframe)(stream)


def _inside_delivered(proto, stream, ref, p):
    """Is stream offset p strictly inside a frame from which the reference delivers an item?"""
    for t in ref["trace"]:
        if t[0] == "delivered":
            a = t[1]
            b = a + (5 if proto == "sci" else 4 + stream[a + 2])
            if a < p < b:
                return True
    return False


def _rx_of(case):
    return [(r["proto"], bytes.fromhex(r["stream"])) for r in case["rx"]]


def _judge_multi(case):
    rx = _rx_of(case)
    refs = [_deframe(proto, st_) for proto, st_ in rx]
    if any(r["malformed"] for r in refs):
        return None
    gaps = case.get("gaps") or [0.0]
    results, pieces = feed_multi(rx, case["schedule"], gaps)
    combo = "+".join(proto for proto, _ in rx)
    out = []
    for i, ((got, exc), ref) in enumerate(zip(results, refs)):
        proto, stream = rx[i]
        how = "receiver %d of %d (%s), read in turns with the others in pieces of %r" % (
            i + 1, len(rx), combo, [len(c) for c in pieces[i]][:24])
        if exc is not None:
            off, e = exc
            out.append(("C19:%s:data_received-raised:%s@%s" % (proto, type(e).__name__, library_frame(e.__traceback__)),
                        "%s: data_received raised %r in the read starting at offset %d" % (how, e, off)))
            continue
        vs = _compare(proto, ref, got, how, stream)
        if vs:
            alone, exc2 = feed(proto, stream, pieces[i], gaps)
            if exc2 is None and not _compare(proto, ref, alone, how, stream):
                # fed alone in the same pieces it is right: the receivers are not independent of each other
                vs = [("C19:%s:receivers-not-independent" % proto,
                       "%s; the same pieces fed to it as the only receiver give the reference's items.  %s"
                       % (how, vs[0][1][:600]))]
        out.extend(vs)
    seen = {}
    for sig, msg in out:
        seen.setdefault(sig, msg)
    return list(seen.items())


def _judge_txmid(case):
    proto, stream = case["proto"], bytes.fromhex(case["stream"])
    ref = _deframe(proto, stream)
    if ref["malformed"]:
        return None
    chunks = _chunks(stream, case["cuts"])
    gaps = case.get("gaps") or [0.0]
    txs = {}
    for k, op, cmdno in case["tx"]:
        if chunks:
            txs.setdefault(k % len(chunks), []).append((op, cmdno))
    got, exc = feed_tx(proto, chunks, txs, gaps)
    how = "reads of %r bytes with %s" % ([len(c) for c in chunks][:24], ", ".join(
        "%s before read %d" % ("/".join(op for op, _ in v), k + 1) for k, v in sorted(txs.items())))
    if exc is not None:
        off, e = exc
        return [("C19:%s:data_received-raised:%s@%s" % (proto, type(e).__name__, library_frame(e.__traceback__)),
                 "%s: data_received raised %r in the read starting at offset %d" % (how, e, off))]
    vs = _compare(proto, ref, got, how, stream)
    if vs:
        plain, exc2 = feed(proto, stream, chunks, gaps)
        if exc2 is None and not _compare(proto, ref, plain, how, stream):
            vs = [("C19:%s:transmission-disturbs-reception" % proto,
                   "%s (each started through the protocol object, run until it waits for the gateway, cancelled); "
                   "without the transmissions the same reads give the reference's items.  %s" % (how, vs[0][1][:600]))]
    seen = {}
    for sig, msg in vs:
        seen.setdefault(sig, msg)
    return list(seen.items())


def _tx_offsets(case):
    stream = bytes.fromhex(case["stream"])
    chunks = _chunks(stream, case["cuts"])
    offs = [0]
    for c in chunks:
        offs.append(offs[-1] + len(c))
    return [offs[k % len(chunks)] for k, _op, _c in case["tx"]] if chunks else []


def nontrivial2(case):
    if case["kind"] == "txmid":
        proto, stream = case["proto"], bytes.fromhex(case["stream"])
        ref = _deframe(proto, stream)
        return not ref["malformed"] and any(_inside_delivered(proto, stream, ref, p) for p in _tx_offsets(case))
    rx = _rx_of(case)
    refs = [_deframe(proto, st_) for proto, st_ in rx]
    if any(r["malformed"] for r in refs):
        return False
    reads = _reads([len(st_) for _, st_ in rx], case["schedule"])
    for (i, a, b), (j, _c, _d) in zip(reads, reads[1:]):
        if i != j and b < len(rx[i][1]) and _inside_delivered(rx[i][0], rx[i][1], refs[i], b):
            return True         # another receiver reads while this one is inside a frame that must be delivered
    return False


def classify2(case):
    if case["kind"] == "txmid":
        return ["txmid:%s:%s" % (case["proto"], op) for _k, op, _c in case["tx"]]
    return ["multi:" + "+".join(sorted(r["proto"] for r in case["rx"]))]


# ------------------------------------------------------------- receiver histories ----
# "For every byte stream ...": what a receiver delivers from a stream that starts on a frame boundary is a function of
# that stream alone - whatever the receiver object has been used for before.  hist: before the judged stream is fed,
# the SAME protocol object completes public operations that may store state - send_device_info_query /
# send_device_settings / send_dali_command with the gateway's reply fed through data_received while the operation
# waits, reset_dali_response, and earlier receive streams made of whole frames; then everything delivered so far is
# collected (and not judged), and the judged stream is fed in chunks: the items must be the reference's.
def _complete(p, proto, op, cmdno, reply, clock):
    """Start one operation, feed the gateway's reply while it waits, let it finish (cancel it if the reply does not
    satisfy it).  -> "completed" / "gave-up" / "raised" (not judged: C15-C18); an exception out of data_received is
    returned as ("rx", exc)."""
    import asyncio
    if op == "resetq":
        p.reset_dali_response()
        reply_exc = None
        try:
            with clock:
                p.data_received(reply)
        except Exception as e:  # noqa
            reply_exc = e
        return ("rx", reply_exc) if reply_exc is not None else "completed"
    if op == "waitraw":
        _transmit(p, proto, op, cmdno)      # a wait that is given up: nothing of the reply is meant for it
        reply_exc = None
        try:
            with clock:
                p.data_received(reply)
        except Exception as e:  # noqa
            reply_exc = e
        return ("rx", reply_exc) if reply_exc is not None else "gave-up"
    cmds = _tx_commands()
    if op == "send":
        coro = p.send_dali_command(cmds[cmdno % len(cmds)])
    elif op == "info":
        coro = p.send_device_info_query()
    elif op == "settings":
        coro = p.send_device_settings()
    else:
        raise ValueError(op)
    box = {}

    async def go():
        t = asyncio.ensure_future(coro)
        for _ in range(4):
            await asyncio.sleep(0)
        try:
            with clock:
                p.data_received(reply)
        except Exception as e:  # noqa: judged by the caller
            box["rx"] = e
        for _ in range(12):
            if t.done():
                break
            await asyncio.sleep(0)
        how = "completed" if t.done() else "gave-up"
        if not t.done():
            t.cancel()
        try:
            await t
        except asyncio.CancelledError:
            pass
        except Exception as e:  # noqa
            if library_frame(e.__traceback__) is None:
                raise
            how = "raised"
        return how
    how = _loop().run_until_complete(go())
    if "rx" in box:
        return ("rx", box["rx"])
    return how


def feed_hist(proto, prelude, chunks, gaps=(0.0,)):
    """-> (queues delivered from the judged chunks, exc, [how each prelude step ended])"""
    p, child = _new(proto)
    p.transport = _Sink()
    clock = FakeClock()
    ends = []
    for step in prelude:
        if step[0] == "rx":
            try:
                with clock:
                    p.data_received(bytes.fromhex(step[1]))
            except Exception as e:  # noqa
                if library_frame(e.__traceback__) is None:
                    raise
                return None, ("prelude", e), ends
            ends.append("rx")
        else:
            _op, op, cmdno, reply = step
            r = _complete(p, proto, op, cmdno, bytes.fromhex(reply), clock)
            if isinstance(r, tuple):
                if library_frame(r[1].__traceback__) is None:
                    raise r[1]
                return None, ("prelude", r[1]), ends
            ends.append(op + ":" + r)
        clock.advance(0.25)
    _collect(proto, p, child)           # delivered by the history: collected by the program, not judged here
    exc = None
    off = 0
    for k, ch in enumerate(chunks):
        if k:
            clock.advance(gaps[(k - 1) % len(gaps)])
        try:
            with clock:
                p.data_received(ch)
        except Exception as e:  # noqa: the property forbids any exception here
            exc = (off, e)
            break
        off += len(ch)
    if exc is not None and library_frame(exc[1].__traceback__) is None:
        raise exc[1]
    return _collect(proto, p, child), exc, ends


def _prelude_ok(proto, prelude):
    """Every byte string of the history is made of whole frames none of which is malformed for its type (harness
    precondition: the judged stream starts on a frame boundary)."""
    for step in prelude:
        b = bytes.fromhex(step[1] if step[0] == "rx" else step[3])
        ref = _deframe(proto, b)
        if ref["malformed"] or ref["pending"]:
            return False
        if proto == "luba" and any(t[0] in ("bad-length", "truncated") for t in ref["trace"]):
            return False
    return True


def _prelude_str(prelude):
    return " ; ".join("earlier stream of %d bytes" % (len(st_[1]) // 2) if st_[0] == "rx" else
                      "%s answered with [%s]" % ({"send": "send_dali_command", "info": "send_device_info_query",
                                                  "settings": "send_device_settings",
                                                  "resetq": "reset_dali_response",
                                                  "waitraw": "wait_dali_raw_response (given up)"}[st_[1]], st_[3]) for st_ in prelude)


def _judge_hist(case):
    proto, stream = case["proto"], bytes.fromhex(case["stream"])
    ref = _deframe(proto, stream)
    if ref["malformed"] or not _prelude_ok(proto, case["prelude"]):
        return None
    gaps = case.get("gaps") or [0.0]
    out = []
    for chunks in ([stream] if stream else [], _chunks(stream, case["cuts"])):
        got, exc, ends = feed_hist(proto, case["prelude"], chunks, gaps)
        how = "receiver that before did: %s (%s); then reads of %r bytes" % (
            _prelude_str(case["prelude"]), ", ".join(ends), [len(c) for c in chunks][:24])
        if exc is not None:
            off, e = exc
            where = "while the history's bytes were read" if off == "prelude" else "in the read starting at offset %d" % off
            out.append(("C19:%s:data_received-raised:%s@%s" % (proto, type(e).__name__, library_frame(e.__traceback__)),
                        "%s: data_received raised %r %s" % (how, e, where)))
            break
        vs = _compare(proto, ref, got, how, stream)
        if vs:
            plain, exc2 = feed(proto, stream, chunks, gaps)
            if exc2 is None and not _compare(proto, ref, plain, how, stream):
                vs = [("C19:%s:receiver-history-changes-deframing" % proto,
                       "%s; a fresh receiver fed the same reads gives the reference's items.  %s"
                       % (how, _compare(proto, ref, got, "after that history", stream)[0][1][:700]))]
            out.extend(vs)
            break
    seen = {}
    for sig, msg in out:
        seen.setdefault(sig, msg)
    return list(seen.items())


def _hist_nontrivial(case):
    """an operation with its reply is part of the history and the reference delivers an item afterwards"""
    if case["kind"] != "hist":
        return nontrivial2(case)
    ref = _deframe(case["proto"], bytes.fromhex(case["stream"]))
    return (not ref["malformed"] and any(st_[0] == "op" for st_ in case["prelude"])
            and any(t[0] == "delivered" for t in ref["trace"]))


def _hist_classify(case):
    if case["kind"] != "hist":
        return classify2(case)
    labs = ["hist:%s:%s" % (case["proto"], "earlier-stream" if st_[0] == "rx" else st_[1]) for st_ in case["prelude"]]
    ref = _deframe(case["proto"], bytes.fromhex(case["stream"]))
    labs += ["hist:%s:then:%s" % (case["proto"], t[2]) for t in ref["trace"] if t[0] == "delivered"]
    return labs


def _hist_replies(proto):
    """(operation, reply) pairs of the deterministic part: the reply the gateway gives, and other well-formed frames."""
    f = RW.sci_frame
    cmds = None
    if proto == "sci":
        out = []
        for idn in (0, 3, 15):
            for code in (0, 1):
                out.append(("info", f((idn << 4) | code, 0, 0, 0)))
        out.append(("info", f(0x57, 0, 0, 3)))                       # an error report answers the query
        out.append(("info", f(0x20, 0, 0, 0) + f(0x91, 0, 0, 0)))    # two status packets
        out.append(("send", f(0x40, 0, 0, 0)))
        out.append(("send", f(0x60, 0, 0, 0) + f(0x61, 0, 0, 0)))    # confirmation + explicit DALI NO
        out.append(("send", f(0x70, 0, 0, 0) + f(0x72, 0, 0, 0x33)))  # confirmation + backward frame
        out.append(("resetq", f(0xA0, 0, 0, 0)))
        return out
    info = [list(range(1, 21)), [0] * 20, [0xFF] * 20, [0, 0, 0, 0, 0, 1] + [2] * 8 + [3, 4] + [0x01, 0x70, 0xBE, 0x10]]
    out = [("info", RW.luba_frame(0x21, d)) for d in info]
    out.append(("info", RW.luba_frame(0x21, info[0]) * 2))
    out.append(("info", RW.luba_frame(0x2B, [0, 0x12, 0])))          # a settings reply answers the info query
    out.append(("settings", RW.luba_frame(0x2B, [0, 0x12, 0])))
    out.append(("settings", RW.luba_frame(0x2B, [1, 2, 3])))
    out.append(("settings", RW.luba_frame(0x21, info[0])))
    out.append(("send", RW.luba_event_sent(7, POOL16[1])))
    out.append(("send", RW.luba_event_sent(8, [0x03, 0x90]) + RW.luba_event_received([0x44])))
    out.append(("resetq", RW.luba_event_received([0x5A])))
    return out


def _hist_sweep_cases():
    kinds = _frame_kinds()
    good = {"luba": RW.luba_event_received([0xA5]), "sci": RW.sci_frame(0x02, 0, 0, 0x5A)}
    for proto in ("luba", "sci"):
        replies = _hist_replies(proto)
        judged = [(n, fr + good[proto]) for n, fr in kinds[proto]]
        judged += [(n, fr * 2 + good[proto] + fr) for n, fr in kinds[proto]]
        # the frames the history saw, again
        judged += [("history-reply-again", r + good[proto] + r) for _op, r in replies]
        if proto == "sci":
            # every status byte (all id nibbles x all codes), error frames with every error number
            for b0 in range(256):
                lo = 0
                fr = RW.sci_frame(b0, *POOL24[0]) if b0 & 15 == 8 else \
                    RW.sci_frame(b0, 0, POOL16[0][0] if b0 & 15 == 3 else 0, POOL16[0][1] if b0 & 15 == 3 else lo)
                judged.append(("status-byte", fr + good[proto]))
                if b0 & 15 == 7:
                    judged.append(("error", b"".join(RW.sci_frame(b0, 0, 0, e) for e in range(0, 7)) + good[proto]))
        for j, (op, reply) in enumerate(replies):
            for k, (name, s) in enumerate(judged):
                yield {"kind": "hist", "proto": proto, "prelude": [["op", op, (j + k) % 5, reply.hex()]],
                       "stream": s.hex(), "cuts": [1 + (j + k) % (len(s) - 1), len(s) // 2 + 1], "gaps": [0.05, 0.0],
                       "segs": [name]}
        # longer histories: several operations, earlier streams of every frame kind in between
        earlier = b"".join(fr for _n, fr in kinds[proto])
        for j, (op, reply) in enumerate(replies):
            op2, reply2 = replies[(j + 3) % len(replies)]
            for k, (name, s) in enumerate(judged[:2 * len(kinds[proto])]):
                pre = [["op", op, j % 5, reply.hex()], ["rx", earlier.hex()], ["op", op2, (j + 1) % 5, reply2.hex()]]
                if (j + k) % 2:
                    pre = [["rx", kinds[proto][k % len(kinds[proto])][1].hex()]] + pre[::-1]
                yield {"kind": "hist", "proto": proto, "prelude": pre, "stream": s.hex(),
                       "cuts": [2 + (j * 3 + k) % (len(s) - 2)], "gaps": [0.25], "segs": [name]}


def hist_strategy(proto):
    valid = _luba_valid() if proto == "luba" else _sci_valid()
    whole = st.one_of(valid, valid, valid, st.tuples(valid, st.integers(1, 255)).map(
        lambda t: ("bad-checksum", t[0][1][:-1] + bytes([t[0][1][-1] ^ t[1]]))))
    frames = st.lists(whole, min_size=0, max_size=3).map(lambda l: b"".join(b for _, b in l))
    if proto == "luba":
        natural = st.one_of(
            st.tuples(st.just("info"), _data(20, 20).map(lambda d: RW.luba_frame(0x21, d))),
            st.tuples(st.just("info"), st.sampled_from([list(range(1, 21)), [0] * 20]).map(lambda d: RW.luba_frame(0x21, d))),
            st.tuples(st.just("settings"), st.tuples(st.sampled_from([0, 0, 1]), st.sampled_from([0x12, 0x12, 0]), BYTE).map(
                lambda d: RW.luba_frame(0x2B, list(d)))),
            st.tuples(st.just("send"), st.tuples(BYTE, st.sampled_from(POOL16)).map(lambda t: RW.luba_event_sent(t[0], t[1]))),
        )
    else:
        natural = st.one_of(
            st.tuples(st.just("info"), st.tuples(st.integers(0, 15), st.sampled_from([0, 0, 1, 7])).map(
                lambda t: RW.sci_frame((t[0] << 4) | t[1], 0, 0, 3 if t[1] == 7 else 0))),
            st.tuples(st.just("send"), st.tuples(st.integers(0, 15), st.sampled_from([0, 0, 1])).map(
                lambda t: RW.sci_frame((t[0] << 4) | t[1], 0, 0, 0))),
        )
    step = st.one_of(
        st.tuples(natural, frames, st.integers(0, 4)).map(lambda t: ["op", t[0][0], t[2], (t[0][1] + t[1]).hex()]),
        st.tuples(natural, frames, st.integers(0, 4)).map(lambda t: ["op", t[0][0], t[2], (t[0][1] + t[1]).hex()]),
        st.tuples(st.sampled_from(TX_OPS[proto]), frames, st.integers(0, 4)).map(lambda t: ["op", t[0], t[2], t[1].hex()]),
        st.lists(whole, min_size=1, max_size=6).map(lambda l: ["rx", b"".join(b for _, b in l).hex()]),
    )

    def build(t):
        c, pre, again = t
        stream = bytes.fromhex(c["stream"])
        if again and pre:
            # what the history's gateway said is said again (in front of / behind the drawn stream)
            b = bytes.fromhex(pre[again[0] % len(pre)][-1])
            stream = b + stream if again[1] else stream + (bytes(30) if proto == "luba" else bytes((-len(stream)) % 5)) + b
        return {"kind": "hist", "proto": proto, "prelude": pre, "stream": stream.hex(), "cuts": c["cuts"][0],
                "gaps": c["gaps"][0], "segs": c["segs"]}
    return st.tuples(stream_strategy(proto, False), st.lists(step, min_size=1, max_size=4),
                     st.one_of(st.none(), st.tuples(st.integers(0, 3), st.booleans()))).map(build)


def _hist_sweep_shard(arg):
    k, nshards = arg
    res = Result()
    for idx, case in enumerate(_hist_sweep_cases()):
        if idx % nshards != k:
            continue
        res.count()
        vs = _judge_hist(case)
        if vs is None:
            res.excluded["set-aside:checksum-valid-frame-malformed-for-its-type"] += 1
            continue
        if _hist_nontrivial(case):
            res.nontrivial()
        for lab in _hist_classify(case):
            res.label(lab)
        for sig, msg in vs:
            res.violation(sig, case, msg)
    return res


# ------------------------------------------------------------------- strategies ----
BYTE = st.integers(0, 255)


def _data(lo, hi):
    return st.lists(BYTE, min_size=lo, max_size=hi)


def _luba_valid():
    ev = RW.luba_event
    return st.one_of(
        st.tuples(BYTE, _data(0, 4), st.integers(0, 63), st.integers(0, 65535)).map(
            lambda t: ("sent", RW.luba_event_sent(t[0], t[1], info=t[2], tick=t[3]))),
        st.tuples(BYTE, st.sampled_from(POOL16 + POOL24)).map(
            lambda t: ("sent", RW.luba_event_sent(t[0], t[1]))),
        st.tuples(BYTE, st.integers(0, 65535)).map(lambda t: ("backward", RW.luba_event_received([t[0]], tick=t[1]))),
        st.sampled_from(POOL16).map(lambda f: ("observed16", RW.luba_event_received(f))),
        st.sampled_from(POOL24).map(lambda f: ("observed24", RW.luba_event_received(f))),
        st.sampled_from(DT_PAIRS).map(lambda p: ("observed-dt-pair", RW.luba_event_received(p[0]) +
                                                 RW.luba_event_received(p[1]))),
        st.tuples(st.sampled_from([62, 63]), _data(0, 3)).map(lambda t: ("bus-error", ev(0x80 | t[0], t[1]))),
        st.tuples(st.sampled_from([0] + list(range(33, 62))), _data(0, 4)).map(
            lambda t: ("unknown-info", ev(0x80 | t[0], t[1]))),
        st.tuples(st.sampled_from([1, 3]), st.integers(0, 63), _data(0, 5)).map(
            lambda t: ("event-type-1-3", ev((t[0] << 6) | t[1], t[2]))),
        _data(1, 2).map(lambda d: ("tx-response", RW.luba_frame(0x33, d))),
        _data(20, 20).map(lambda d: ("device-info", RW.luba_frame(0x21, d))),
        _data(3, 3).map(lambda d: ("settings", RW.luba_frame(0x2B, d))),
        st.tuples(st.sampled_from(LUBA_HOST_CODES), _data(1, 20)).map(
            lambda t: ("host-code", RW.luba_frame(t[0], t[1]))),
        st.tuples(st.sampled_from(LUBA_UNKNOWN_CODES), _data(1, 20)).map(
            lambda t: ("unknown-command", RW.luba_frame(t[0], t[1]))),
        st.tuples(st.sampled_from(LUBA_HOST_CODES + [0x21, 0x00, 0x59]), _data(20, 20)).map(
            lambda t: ("max-length", RW.luba_frame(t[0], t[1]))),
        st.tuples(st.sampled_from([0x40, 0xC0, 0xBF, 0x80]), _data(16, 16)).map(
            lambda t: ("max-length", RW.luba_event(t[0], t[1]))),
    )


def _luba_malformed():
    return st.one_of(
        _data(1, 3).map(lambda d: ("malformed", RW.luba_frame(0x31, d))),
        _data(0, 0).map(lambda d: ("malformed", RW.luba_event(0x00, []))),
        st.tuples(st.integers(1, 32), _data(0, 4)).map(lambda t: ("malformed", RW.luba_event(0x80 | t[0], t[1]))),
        _data(3, 6).map(lambda d: ("malformed", RW.luba_frame(0x33, d))),
        st.sampled_from([18, 19, 5]).flatmap(lambda n: _data(n, n)).map(lambda d: ("malformed", RW.luba_frame(0x21, d))),
        st.sampled_from([1, 2, 4]).flatmap(lambda n: _data(n, n)).map(lambda d: ("malformed", RW.luba_frame(0x2B, d))),
    )


LUBA_NOISE = st.lists(st.one_of(BYTE, st.sampled_from([0x59, 0x59, 0x31, 0x33, 0x21, 0x2B, 0, 1, 2, 5, 8, 20, 21, 24])),
                      min_size=1, max_size=10).map(lambda d: ("noise", bytes(d)))


def _luba_segment():
    valid = _luba_valid()
    return st.one_of(
        valid, valid, valid,
        st.tuples(valid, st.integers(1, 255)).map(lambda t: ("bad-checksum", t[0][1][:-1] + bytes([t[0][1][-1] ^ t[1]]))),
        st.tuples(st.one_of(BYTE, st.sampled_from([0x31, 0x33, 0x21, 0x59])), BYTE, _data(0, 27)).map(
            lambda t: ("any-length", bytes([0x59, t[0], t[1]] + t[2]))),
        st.tuples(st.sampled_from([0x31, 0x21, 0x00]), st.integers(17, 27), _data(0, 30)).map(
            lambda t: ("any-length", bytes([0x59, t[0], t[1]] + t[2]))),
        st.tuples(valid, st.integers(1, 30)).map(lambda t: ("truncated", t[0][1][:max(1, len(t[0][1]) - t[1])])),
        LUBA_NOISE,
    )


def _luba_trailer():
    return st.one_of(
        BYTE.map(lambda v: RW.luba_event_received([v])),
        st.tuples(BYTE, st.sampled_from(POOL16)).map(lambda t: RW.luba_event_sent(t[0], t[1])),
        st.sampled_from(POOL16 + POOL24).map(RW.luba_event_received),
        _data(3, 3).map(lambda d: RW.luba_frame(0x2B, d)),
        _data(20, 20).map(lambda d: RW.luba_frame(0x21, d)),
    )


def _sci_valid():
    f = RW.sci_frame
    idn = st.integers(0, 15)
    return st.one_of(
        st.tuples(idn, st.sampled_from([0, 1]), _data(3, 3)).map(
            lambda t: ("status", f((t[0] << 4) | t[1], *t[2]))),
        st.tuples(idn, BYTE).map(lambda t: ("backward", f((t[0] << 4) | 2, 0, 0, t[1]))),
        st.tuples(idn, BYTE, _data(2, 2)).map(lambda t: ("backward-junk", f((t[0] << 4) | 2, t[2][0], t[2][1], t[1]))),
        st.tuples(idn, st.sampled_from(POOL16)).map(lambda t: ("observed16", f((t[0] << 4) | 3, 0, t[1][0], t[1][1]))),
        st.tuples(idn, st.sampled_from(POOL24)).map(lambda t: ("observed24", f((t[0] << 4) | 8, *t[1]))),
        st.sampled_from(DT_PAIRS).map(lambda p: ("observed-dt-pair", f(0x03, 0, *p[0]) + f(0x03, 0, *p[1]))),
        st.tuples(idn, st.sampled_from([4, 5, 6]), _data(3, 3)).map(
            lambda t: ("unsupported-kind", f((t[0] << 4) | t[1], *t[2]))),
        st.tuples(idn, st.integers(1, 5), _data(2, 2)).map(lambda t: ("error", f((t[0] << 4) | 7, t[2][0], t[2][1], t[1]))),
        st.tuples(idn, st.one_of(st.just(0), st.integers(6, 255)), _data(2, 2)).map(
            lambda t: ("error-undefined", f((t[0] << 4) | 7, t[2][0], t[2][1], t[1]))),
        st.tuples(idn, st.integers(9, 15), _data(3, 3)).map(
            lambda t: ("unknown-command", f((t[0] << 4) | t[1], *t[2]))),
    )


def _sci_segment():
    valid = _sci_valid()
    return st.one_of(
        valid, valid, valid,
        st.tuples(valid, st.integers(1, 255)).map(lambda t: ("bad-checksum", t[0][1][:-1] + bytes([t[0][1][-1] ^ t[1]]))),
        _data(5, 5).map(lambda d: ("noise5", bytes(d))),
        st.tuples(valid, st.integers(1, 4)).map(lambda t: ("truncated", t[0][1][:5 - t[1]])),
        _data(1, 9).map(lambda d: ("noise", bytes(d))),
    )


def _sci_trailer():
    f = RW.sci_frame
    return st.one_of(
        BYTE.map(lambda v: f(0x02, 0, 0, v)),
        st.sampled_from(POOL16).map(lambda p: f(0x13, 0, p[0], p[1])),
        st.sampled_from(POOL24).map(lambda p: f(0x28, *p)),
        st.integers(0, 15).map(lambda i: f(i << 4, 0, 0, 0)),
    )


LONG_COUNTS = [33, 40, 70, 150]
LONG_MAX_BYTES = 1400        # generated long streams ("several hundred bytes"); the sweep goes up to 3600


def _long_segments(frames, count, interleave):
    """Many repetitions of well-formed frames: one kind after the other, or taking turns."""
    if interleave:
        return [("long:" + "+".join(k for k, _ in frames), b"".join(b for _, b in frames) * count)]
    return [("long:" + k, b * count) for k, b in frames]


def _assemble(proto, segs, tailmode, trailer, cuts1, cuts2, gaps=None, pause=None):
    body = b"".join(b for _, b in segs)
    tail = {"mode": tailmode, "len": 0}
    if tailmode == "direct":
        body += trailer
        tail["len"] = len(trailer)
    elif tailmode == "flushed":
        if proto == "luba":
            body += bytes(30) + trailer
        else:
            body += bytes((-len(body)) % 5) + trailer
        tail["len"] = len(trailer)
        tail["must_deliver"] = True
    case = {"proto": proto, "stream": body.hex(), "cuts": [cuts1, cuts2], "segs": [l for l, _ in segs], "tail": tail}
    if gaps is not None:
        case["gaps"] = gaps
    if pause is not None:
        case["pause"] = pause
    return case


def stream_strategy(proto, with_malformed):
    seg = _luba_segment() if proto == "luba" else _sci_segment()
    trailer = _luba_trailer() if proto == "luba" else _sci_trailer()
    cuts = st.lists(st.integers(0, 4000), max_size=14)
    gaps = st.lists(st.sampled_from(GAPS), min_size=1, max_size=6)
    timing = st.tuples(gaps, gaps, st.sampled_from(GAPS))
    valid = _luba_valid() if proto == "luba" else _sci_valid()
    keep = st.just(1)
    if with_malformed and proto == "luba":
        # deliberately malformed-for-type frames (those streams are set aside) are kept in about one stream
        # in 40 only; elsewhere they are removed from the segment list before assembly
        seg = st.one_of(seg, seg, seg, seg, seg, _luba_malformed())
        keep = st.integers(0, 65535)

    def build(t):
        dirty = ((t[5] ^ 0x5BD1) * 40503) % 65521 % 40 == 0      # hashed: Hypothesis favours small integers
        segs = t[0] if dirty else [x for x in t[0] if x[0] != "malformed"]
        return _assemble(proto, segs, t[1], t[2], t[3], t[4], [t[6][0], t[6][1]], t[6][2])

    def build_long(t):
        frames, count, interleave, before, tailmode, tr, c1, c2, tm = t
        frames = list(frames)
        while len(frames) > 1 and sum(len(b) for _, b in frames) * 33 > LONG_MAX_BYTES:
            frames.pop()
        count = max(33, min(count, LONG_MAX_BYTES // sum(len(b) for _, b in frames)))
        segs = list(before) + _long_segments(frames, count, interleave)
        segs = [x for x in segs if x[0] != "malformed"]
        return _assemble(proto, segs, tailmode, tr, c1, c2, [tm[0], tm[1]], tm[2])

    normal = st.tuples(st.lists(seg, min_size=0, max_size=9),
                       st.sampled_from(["none", "direct", "flushed", "flushed"]), trailer, cuts, cuts, keep,
                       timing).map(build)
    # long streams: 33..150 repetitions of one to four well-formed frames (in blocks or taking turns), optionally
    # behind a few ordinary segments, with nothing draining the receiver's queues in between
    long_ = st.tuples(st.lists(valid, min_size=1, max_size=4), st.sampled_from(LONG_COUNTS), st.booleans(),
                      st.lists(seg, min_size=0, max_size=2), st.sampled_from(["none", "direct", "flushed"]), trailer,
                      cuts, cuts, timing).map(build_long)
    # one stream in about ten is a long one (hashed selector: Hypothesis favours small integers, and one_of()
    # would merge repeated branches)
    return st.integers(0, 65535).flatmap(lambda k: long_ if ((k ^ 0x3A7F) * 40503) % 65521 % 10 == 0 else normal)


def multi_strategy():
    combos = [["luba", "luba"], ["sci", "sci"], ["luba", "sci"], ["luba", "luba"], ["luba", "luba", "luba"],
              ["luba", "sci", "luba"], ["sci", "luba", "sci"]]
    # streams of the grammar, cut after 260 bytes (several receivers multiply the number of reads)
    per = {p: stream_strategy(p, False).map(lambda c: c["stream"][:520]) for p in ("luba", "sci")}
    size = st.one_of(st.integers(1, 6), st.integers(1, 6), st.integers(1, 40))
    sched = st.lists(st.tuples(st.integers(0, 2), size), min_size=2, max_size=90)
    gaps = st.lists(st.sampled_from(GAPS), min_size=1, max_size=6)

    def build(ps):
        return st.tuples(sched, gaps, *[per[p] for p in ps]).map(
            lambda t: {"kind": "multi", "rx": [{"proto": p, "stream": x} for p, x in zip(ps, t[2:])],
                       # taking turns is the default, the drawn number moves a read to another receiver
                       "schedule": [[(j + e[0]) % len(ps), e[1]] for j, e in enumerate(t[0])], "gaps": t[1]})
    return st.sampled_from(combos).flatmap(build)


def txmid_strategy(proto):
    ops = st.sampled_from(TX_OPS[proto])
    tx = st.lists(st.tuples(st.integers(0, 15), ops, st.integers(0, 4)), min_size=0, max_size=3)
    # aimed transmissions: (which of the frames the reference delivers, where inside it, operation, command)
    aimed = st.lists(st.tuples(st.integers(0, 40), st.integers(0, 30), ops, st.integers(0, 4)), min_size=1, max_size=3)

    def build(t):
        c, txs, aims = t
        stream = bytes.fromhex(c["stream"])
        n = len(stream)
        cuts = [x % (n + 1) for x in c["cuts"][0]]
        ref = _deframe(proto, stream)
        frames = [(x[1], 5 if proto == "sci" else 4 + stream[x[1] + 2]) for x in ref["trace"] if x[0] == "delivered"]
        at = []
        for f, o, op, cmdno in aims:
            if frames:
                a, ln = frames[f % len(frames)]
                cut = a + 1 + o % (ln - 1)
                cuts.append(cut)
                at.append((cut, op, cmdno))
        pts = sorted(set(cuts) | {0, n})
        out = [[k, op, cmdno] for k, op, cmdno in txs]
        out += [[pts.index(cut), op, cmdno] for cut, op, cmdno in at]
        if not out:
            out = [[1, TX_OPS[proto][0], 0]]
        return {"kind": "txmid", "proto": proto, "stream": c["stream"], "cuts": cuts, "gaps": c["gaps"][0], "tx": out}
    return st.tuples(stream_strategy(proto, False), tx, aimed).map(build)


def _sweep2_cases():
    """Deterministic part for several receivers / transmissions: every kind of frame cut at every position, with
    (a) a whole frame of every kind read by ANOTHER receiver in between, (b) every transmit operation in between."""
    kinds = _frame_kinds()
    good = {"luba": RW.luba_event_received([0xA5]), "sci": RW.sci_frame(0x02, 0, 0, 0x5A)}
    for pa in ("luba", "sci"):
        for pb in ("luba", "sci"):
            for na, fa in kinds[pa]:
                sa = fa + good[pa]
                for j, (nb, fb) in enumerate(kinds[pb]):
                    sb = fb + good[pb]
                    for k in range(1, len(fa)):
                        if (k + j) % 2 and len(fa) > 6:
                            continue        # long frames: every other cut per partner frame
                        yield {"kind": "multi", "rx": [{"proto": pa, "stream": sa.hex()}, {"proto": pb, "stream": sb.hex()}],
                               "schedule": [[0, k], [1, len(fb)], [0, len(fa) - k], [1, 2], [0, 3]],
                               "gaps": [0.0, 0.05], "segs": [na, nb]}
    for proto in ("luba", "sci"):
        for na, fa in kinds[proto]:
            sa = fa + good[proto]
            for k in range(1, len(fa)):
                for j, op in enumerate(sorted(set(TX_OPS[proto]))):
                    yield {"kind": "txmid", "proto": proto, "stream": sa.hex(), "cuts": [k], "gaps": [0.05],
                           "tx": [[1, op, (k + j) % 5]], "segs": [na]}
            # several transmissions, one before every read of a byte-by-byte feed
            yield {"kind": "txmid", "proto": proto, "stream": sa.hex(), "cuts": list(range(len(sa))), "gaps": [0.0],
                   "tx": [[k, TX_OPS[proto][k % len(TX_OPS[proto])], k % 5] for k in range(len(sa))], "segs": [na]}


def _aside2(case):
    if case["kind"] == "hist":
        return _deframe(case["proto"], bytes.fromhex(case["stream"]))["malformed"] or \
            not _prelude_ok(case["proto"], case["prelude"])
    if case["kind"] == "txmid":
        return _deframe(case["proto"], bytes.fromhex(case["stream"]))["malformed"]
    return any(_deframe(proto, st_)["malformed"] for proto, st_ in _rx_of(case))


def _sweep2_shard(arg):
    k, nshards = arg
    res = Result()
    for idx, case in enumerate(_sweep2_cases()):
        if idx % nshards != k:
            continue
        res.count()
        if _aside2(case):
            res.excluded["set-aside:checksum-valid-frame-malformed-for-its-type"] += 1
            continue
        if nontrivial2(case):
            res.nontrivial()
        for lab in classify2(case):
            res.label(lab)
        for sig, msg in run_case(dict(case, verbose="both")):
            res.violation(sig, dict(case, verbose="both"), msg)
    return res


def _hyp2_shard(arg):
    which, seed, n = arg
    res = Result()

    def rc(case):
        if _aside2(case):
            res.excluded["set-aside:checksum-valid-frame-malformed-for-its-type"] += 1
            return []
        return run_case(case)

    strat = multi_strategy() if which == "multi" else hist_strategy(which.split(":")[1]) if which.startswith("hist:") \
        else txmid_strategy(which.split(":")[1])
    hyp.search(strat, rc, res, n, seed, ID, nontrivial=_hist_nontrivial, classify=_hist_classify)
    return res


# ------------------------------------------------------------------------ shards ----
def _record(res, case, vs):
    """Violations of confirmed defects are counted, the rest is returned for the search."""
    keep = []
    for sig, msg in vs:
        if sig in CONFIRMED:
            res.excluded[sig] += 1
        else:
            keep.append((sig, msg))
    return keep


def _hyp_shard(arg):
    proto, seed, n = arg
    res = Result()

    def rc(case):
        if set_aside(case):
            res.excluded["set-aside:%s:checksum-valid-frame-malformed-for-its-type" % proto] += 1
            return []
        return _record(res, case, run_case(case))

    hyp.search(stream_strategy(proto, True), rc, res, n, seed, ID, nontrivial=nontrivial, classify=classify)
    return res


def _sweep_cases():
    """Deterministic part: every length byte 0..255 after 'Y' + command, with too few / exactly enough / too
    many following bytes, then (a) directly a good frame (b) idle bytes and a good frame."""
    good = RW.luba_event_received([0xA5])
    for cmd in (0x31, 0x00, 0x59):
        for ln in range(256):
            for fill, nfill in ((0x00, 0), (0x00, ln + 1), (0x5A, min(ln + 1, 40)), (0x59, 3)):
                body = bytes([0x59, cmd, ln]) + bytes([fill]) * nfill
                for mode in ("direct", "flushed"):
                    s = body + (bytes(30) if mode == "flushed" else b"") + good
                    yield {"proto": "luba", "stream": s.hex(), "cuts": [[3], [len(body)]],
                           "segs": ["sweep-length"], "tail": {"mode": mode, "len": len(good),
                                                              "must_deliver": mode == "flushed"}}
    # every command code with a valid checksum and a 1-byte payload, then a good frame
    for cmd in range(256):
        if cmd in (0x31, 0x33, 0x21, 0x2B):
            continue
        s = RW.luba_frame(cmd, [7]) + good
        yield {"proto": "luba", "stream": s.hex(), "cuts": [[2], [5]], "segs": ["sweep-command"],
               "tail": {"mode": "direct", "len": len(good)}}
    # every command code with a WRONG checksum (payloads of 0..3 bytes), then a good frame
    for cmd in range(256):
        for k, payload in enumerate(([], [7], [7, 0], [0, 0, 0x48])):
            s = RW.luba_frame(cmd, payload, bad_checksum=1 + (cmd + k) % 255) + good
            yield {"proto": "luba", "stream": s.hex(), "cuts": [[2], [len(s) - len(good)]], "segs": ["sweep-checksum"],
                   "tail": {"mode": "direct", "len": len(good)}}
    # every event status byte with a payload that is well-formed for it
    for status in range(256):
        et, info = status >> 6, status & 63
        data = [9, 0xFF, 0x00] if et == 0 else ([1] * (info // 8) if et == 2 and info in (8, 16, 24) else [])
        if et == 2 and 1 <= info <= 32 and info not in (8, 16, 24):
            continue
        if et == 2 and info in (16, 24):
            data = (POOL16[0] if info == 16 else POOL24[0])
        s = RW.luba_event(status, data) + good
        yield {"proto": "luba", "stream": s.hex(), "cuts": [[4], [9]], "segs": ["sweep-status"],
               "tail": {"mode": "direct", "len": len(good)}}
    # observed frames that decode to no known command
    yield {"proto": "luba", "stream": RW.luba_event_received(UNKNOWN16).hex(), "cuts": [], "segs": ["observed-unknown"]}
    yield {"proto": "luba", "stream": RW.luba_event_received(UNKNOWN24).hex(), "cuts": [], "segs": ["observed-unknown"]}
    # SCI: every status byte x valid checksum, followed by a good frame; and every checksum error
    sgood = RW.sci_frame(0x02, 0, 0, 0x5A)
    for b0 in range(256):
        for lo in (0, 1, 3, 5, 6, 0xFF):
            s = RW.sci_frame(b0, 0, POOL16[0][0] if b0 & 15 == 3 else 0xFF if b0 & 15 == 8 else 0,
                             POOL16[0][1] if b0 & 15 == 3 else lo if b0 & 15 != 8 else 0) + sgood
            if b0 & 15 == 8:
                s = RW.sci_frame(b0, *POOL24[0]) + sgood
            yield {"proto": "sci", "stream": s.hex(), "cuts": [[1], [4, 6]], "segs": ["sweep-status"],
                   "tail": {"mode": "direct", "len": 5}}
    for x in range(1, 256):
        s = RW.sci_frame(0x02, 0, 0, 0x11, bad_checksum=x) + sgood
        yield {"proto": "sci", "stream": s.hex(), "cuts": [[1], [4, 6]], "segs": ["sweep-checksum"],
               "tail": {"mode": "direct", "len": 5}}
    yield {"proto": "sci", "stream": RW.sci_frame(0x03, 0, *UNKNOWN16).hex(), "cuts": [], "segs": ["observed-unknown"]}
    yield {"proto": "sci", "stream": RW.sci_frame(0x08, *UNKNOWN24).hex(), "cuts": [], "segs": ["observed-unknown"]}
    # long streams: many repetitions of every well-formed frame kind, and mixtures, nothing drained in between
    kinds = _frame_kinds()
    for proto in ("luba", "sci"):
        good_ = good if proto == "luba" else sgood
        ks = kinds[proto]
        for count in (40, 70, 150):
            for name, fr in ks:
                s = fr * count + good_
                yield {"proto": proto, "stream": s.hex(), "cuts": [[len(fr) + 2, 7 * len(fr) - 1], [len(s) // 2 + 1]],
                       "gaps": [[0.25, 0.0], [5.0]], "pause": GAPS[1 + count % 3],
                       "segs": ["long:" + name], "tail": {"mode": "direct", "len": len(good_)}}
            # mixtures: all kinds taking turns; delivered kinds only; pairs of kinds
            mixes = [ks, [k for k in ks if k[0] in ("backward", "sent", "observed16", "observed24", "status", "error")]]
            mixes += [[ks[i], ks[(i + 1 + count % 3) % len(ks)]] for i in range(len(ks))]
            for mix in mixes:
                unit = b"".join(fr for _, fr in mix)
                reps = -(-count // len(mix)) if len(mix) > 2 else count
                s = unit * reps + good_
                yield {"proto": proto, "stream": s.hex(), "cuts": [[3, len(unit) + 1, len(s) - 2], [len(s) // 3, len(s) // 3 * 2 + 1]],
                       "gaps": [[0.05, 5.0, 0.0], [0.25]], "pause": GAPS[(count // 10) % 4],
                       "segs": ["long:" + "+".join(k for k, _ in mix)], "tail": {"mode": "direct", "len": len(good_)}}


def _frame_kinds():
    """One frame of every kind per protocol (well-formed ones of every type, plus dropped ones)."""
    return {
        "luba": [("backward", RW.luba_event_received([0x5A])),
                 ("sent", RW.luba_event_sent(7, POOL16[0])),
                 ("sent24", RW.luba_event_sent(9, POOL24[0])),
                 ("observed16", RW.luba_event_received(POOL16[1])),
                 ("observed16-twice", RW.luba_event_received(POOL16[8])),
                 ("observed24", RW.luba_event_received(POOL24[1])),
                 ("bus-error", RW.luba_event(0x80 | 63, [])),
                 ("event-type-1-3", RW.luba_event(0x40, [])),
                 ("tx-response", RW.luba_frame(0x33, [1, 0])),
                 ("device-info", RW.luba_frame(0x21, list(range(1, 21)))),
                 ("settings", RW.luba_frame(0x2B, [1, 2, 3])),
                 ("host-code", RW.luba_frame(0x32, [0, 16, 5, 0xFF, 0, 0, 0])),
                 ("unknown-command", RW.luba_frame(0x00, [1, 2])),
                 ("bad-checksum", RW.luba_frame(0x31, [0, 0, 0, 0x88, 0x11], bad_checksum=0x40))],
        "sci": [("status", RW.sci_frame(0x00, 0, 0, 0)), ("status1", RW.sci_frame(0x31, 0, 0, 0)),
                ("backward", RW.sci_frame(0x02, 0, 0, 0x5A)),
                ("observed16", RW.sci_frame(0x03, 0, *POOL16[1])),
                ("observed16-twice", RW.sci_frame(0x13, 0, *POOL16[8])),
                ("observed24", RW.sci_frame(0x08, *POOL24[1])),
                ("unsupported-kind4", RW.sci_frame(0x04, 1, 2, 3)), ("unsupported-kind5", RW.sci_frame(0x05, 1, 2, 3)),
                ("unsupported-kind6", RW.sci_frame(0x06, 1, 2, 3)),
                ("error", RW.sci_frame(0x07, 0, 0, 3)), ("error-undefined", RW.sci_frame(0x07, 0, 0, 9)),
                ("unknown-command", RW.sci_frame(0x0C, 1, 2, 3)),
                ("bad-checksum", RW.sci_frame(0x02, 0, 0, 0x11, bad_checksum=0x40))],
    }


def _sweep_shard(arg):
    k, nshards = arg
    res = Result()
    for idx, case in enumerate(_sweep_cases()):
        if idx % nshards != k:
            continue
        res.count()
        if set_aside(case):
            res.excluded["set-aside:%s:checksum-valid-frame-malformed-for-its-type" % case["proto"]] += 1
            continue
        if nontrivial(case):
            res.nontrivial()
        for lab in classify(case):
            res.label(lab)
        for sig, msg in run_case(dict(case, verbose="both")):
            res.violation(sig, dict(case, verbose="both"), msg)      # confirmed defects are reported here, once per signature
    return res


def run(ctx):
    ctx.pmap(_sweep_shard, [(k, 16) for k in range(16)])
    n_luba, n_sci = (1700, 800) if ctx.quick else (28000, 12000)
    shards = [("luba", ctx.seed * 1000 + k, n_luba) for k in range(12)] + \
             [("sci", ctx.seed * 1000 + 500 + k, n_sci) for k in range(4)]
    ctx.pmap(_hyp_shard, shards)
    ctx.pmap(_sweep2_shard, [(k, 16) for k in range(16)])
    n_multi, n_tx = (250, 300) if ctx.quick else (8000, 5000)
    ctx.pmap(_hyp2_shard, [("multi", ctx.seed * 1000 + 700 + k, n_multi) for k in range(4)] +
             [("txmid:luba", ctx.seed * 1000 + 800 + k, n_tx) for k in range(3)] +
             [("txmid:sci", ctx.seed * 1000 + 900, n_tx)])
    ctx.pmap(_hist_sweep_shard, [(k, 16) for k in range(16)])
    n_hist = 220 if ctx.quick else 6000
    ctx.pmap(_hyp2_shard, [("hist:luba", ctx.seed * 1000 + 950 + k, n_hist) for k in range(2)] +
             [("hist:sci", ctx.seed * 1000 + 960 + k, n_hist) for k in range(2)])
    ctx.result.extra["hypothesis_examples_receiver_histories"] = {"hist (2 luba + 2 sci)": n_hist}
    ctx.result.exhaustive = False
    ctx.result.extra["hypothesis_examples_several_receivers"] = {"multi (4 shards)": n_multi, "txmid (3 luba + 1 sci)": n_tx}
    ctx.result.extra["hypothesis_examples_per_shard"] = {"luba (12 shards)": n_luba, "sci (4 shards)": n_sci}
    ctx.result.extra["sweep"] = "every LUBA length byte 0..255 x 3 command bytes x 4 fillers x 2 tails; every LUBA " \
                                "command code; every LUBA event status byte; every SCI status byte; every SCI checksum error; " \
                                "40 / 70 / 150 repetitions of every well-formed frame kind and of mixtures (LUBA and SCI)"
