"""C17 - gateway loss or silence fails sends promptly and recovery is clean.

Three families of generated scenarios, all on the virtual-time loop with the real drivers:
  loss     HID drivers (Tridonic, hasseb): the device disappears (read error, end of file, write error,
           silently until the next write) at a generated time - before/after a write, between echo and
           answer, during the version/serial handshake, during the reconnect wait, repeatedly - with 0-3
           callers in flight, reconnect limits None/0/1/3, exceptions on/off; optionally it comes back.
  cancel   a caller is cancelled at a generated point of its send and 300 plain sends follow, so that
           Tridonic sequence numbers wrap past whatever the cancelled send left behind.
  mute     serial drivers (LUBA, SCI): the gateway stops confirming or stops answering.
Oracle: outcome of every send (CommunicationError only for sends in flight at a loss and only when
exceptions are on; otherwise the right answer), nobody hangs, no lock / permit / in-flight slot stays
taken, the status callback stream and the reconnect attempts follow the configured interval and limit,
the handshake is repeated before any command after a reconnect, serial sends end within the documented
timeout with the lock released.
"""
from hypothesis import strategies as st

from harness import hyp
from harness import scenario as sc
from harness.runner import Result, library_frame

ID = "C17"
LEVEL = "fault_enumeration"
RULE = ("Hypothesis scenarios of three families (loss / cancel+wrap / mute), distinct by fingerprint; non-trivial = a fault "
        "(loss, cancellation or mute) strikes while at least one caller is between its first wire write and its completion "
        "(measured from the trace), or a reconnect limit is exhausted, or the device returns")
ASSUMPTIONS = [
    "gateway conversation models of harness/gateways.py / gateways_serial.py; a vanished hidraw device makes read() fail "
    "(or return end of file) and write() fail; it may come back later under the same path",
    "a send issued while the driver is disconnected waits for reconnection by design; if the device never returns (or "
    "the reconnect limit is exhausted) such a caller is not counted as hanging",
    "with exceptions off a send is retried after reconnection, so its frame may appear on the wire more than once",
    "serial timeouts as documented in the driver: LUBA confirm 1.0 s / answer 25 ms, SCI confirm 0.1 s / answer 30 ms",
    "'failed' must be reported once the configured number of reconnect attempts (reconnect_limit) has been used up; "
    "repeated 'disconnected' reports are tolerated",
]

Q = ["qlevel", "qpresent", "qdtr0", "qstatus"]
N = ["dapc", "off", "reset", "dtcmd", "dtcmd", "dtquery"]


def in_flight_at(case, obs, t):
    """Callers that had started and not finished at relative time t."""
    out = []
    for ci, rec in enumerate(obs["callers"]):
        if "t_start" in rec and rec["t_start"] <= t and rec.get("t_done", 1e9) >= t:
            out.append(ci)
    return out


def judge_results(case, obs, drv, allow_comm_error, out):
    for ci, (cspec, rec) in enumerate(zip(case["callers"], obs["callers"])):
        where = "%s caller %d (%s %s, t0=%.3f)" % (drv, ci, cspec["kind"], [c["k"] for c in cspec["cmds"]][:4], cspec.get("t0", 0))
        if rec["status"] == "ok":
            cmds = [c for c in cspec["cmds"] if c["k"] not in ("sleep", "progress", "power")]
            for c, got in zip(cmds, rec["results"]):
                cmd = sc.build_cmd(c)
                oc = tuple(c.get("oc", ("silent",)))
                if cmd.response is None:
                    if got["type"] is not None:
                        out.append(("C17:%s:answer-for-non-query" % drv, "%s: %r" % (where, got)))
                    continue
                exp = ["none"] if oc[0] == "silent" else ["value", oc[1]]
                if case.get("answers_muted") and oc[0] == "value":
                    exp = ["none"]
                if case["family"] == "cancel" and drv in ("luba", "sci") and got["type"] is not None and got["raw"] == ["none"]:
                    # LUBA/SCI confirmations carry no usable identity: after a send was abandoned mid-way the next
                    # command may take its confirmation and time out early.  The answer is lost, nobody receives
                    # another command's data; tolerated (see DESIGN.md) and counted.
                    _LAST["answer_lost_after_cancel"] = _LAST.get("answer_lost_after_cancel", 0) + 1
                    continue
                if got["type"] is None or got["raw"][:len(exp)] != exp:
                    sig = "C17:%s:wrong-data-after-fault" % drv
                    if case["family"] == "cancel" and got["type"] is not None and got["raw"][0] == "value":
                        # whose data is it?  the scripted answer of a command of the cancelled caller -> the known
                        # "abandoned send" desynchronisation of the serial drivers (own signature)
                        theirs = [x["oc"][1] for cl in case["callers"] if cl.get("cancel") is not None
                                  for x in cl["cmds"] if x.get("oc", [""])[0] == "value"]
                        # ... or, once the exchange is out of step by one, the answer of this caller's previous query
                        k = cmds.index(c)
                        earlier = [x["oc"][1] for x in cmds[:k] if x.get("oc", [""])[0] == "value"]
                        if (got["raw"][1] in theirs or got["raw"][1] in earlier[-1:]) and drv in ("luba", "sci"):
                            sig = "C17:%s:answer-of-abandoned-send-taken-by-next-command" % drv
                    out.append((sig, "%s: command %s returned %r, expected raw %r" % (where, c, got, exp)))
        elif rec["status"] == "raised":
            name = rec["exception"]
            e = rec.get("_exc")
            lib = library_frame(e.__traceback__) if e is not None else None
            if name == "CommunicationError":
                if not allow_comm_error(ci, rec):
                    out.append(("C17:%s:unexpected-CommunicationError" % drv, "%s raised CommunicationError (%s)" % (where, lib)))
            elif name == "ScriptedError" and cspec.get("raise_at") is not None:
                pass
            elif name in ("TimeoutError",) and case["family"] == "mute":
                pass
            else:
                out.append(("C17:%s:send-raised:%s@%s" % (drv, name, lib), "%s raised %s" % (where, rec["exception_repr"])))
        elif rec["status"] == "cancelled" and not rec.get("cancel_requested"):
            out.append(("C17:%s:spurious-cancel" % drv, where))


# ------------------------------------------------------------------ loss ----
def judge_loss(case, obs):
    drv = case["driver"]
    out = []
    exceptions = case.get("exceptions", True)
    ev = sorted(case.get("events", []), key=lambda e: e["t"])
    losses = [e["t"] for e in ev if e["what"] in ("lose", "write_fails")]
    restores = [e["t"] for e in ev if e["what"] == "restore"]
    limit = case.get("reconnect_limit")
    interval = case.get("reconnect_interval", 1)
    present_at_end = bool(restores) and restores[-1] > (losses[-1] if losses else -1)
    if not losses:
        present_at_end = True

    def wants(ci):
        # the caller's own exceptions= argument, else the driver's exceptions_on_send attribute
        return case["callers"][ci].get("exceptions", exceptions)

    def allow_comm_error(ci, rec):
        # run_sequence() always propagates; send() only when the caller asked for exceptions
        if case["callers"][ci]["kind"] == "send" and not wants(ci):
            return False
        if case["callers"][ci]["kind"] == "txn" and not wants(ci):
            return False
        return bool(losses) and rec.get("t_done", 1e9) >= min(losses) - 1e-9

    judge_results(case, obs, drv, allow_comm_error, out)
    # ---- a send in flight when the gateway is lost FAILS when the caller asked for exceptions (it is not quietly
    #      repeated on the next connection): single-command callers whose frame was on its way and unanswered
    if len(losses) >= 1 and case.get("how") in ("error", "eof") and drv == "tridonic":
        t_loss = 1000.0 + losses[0]
        for ci, (cspec, rec) in enumerate(zip(case["callers"], obs["callers"])):
            real = [c for c in cspec["cmds"] if c["k"] not in ("sleep", "progress", "power")]
            if cspec["kind"] not in ("send", "txn") or len(real) != 1 or rec["status"] != "ok" or not wants(ci):
                continue
            key = sc.frame_key(sc.build_cmd(real[0]))
            written = [w["t"] for w in obs["wire"] if w["kind"] == "send" and (w["bits"], w["value"]) == key]
            if written and min(written) < t_loss - 1e-9 and rec.get("t_done", 0) + 1000.0 > t_loss + 1e-6 and len(written) > 1:
                out.append(("C17:%s:in-flight-send-retried-instead-of-failing:%s" % (drv, cspec["kind"]),
                            "%s caller %d (%s %s) had its frame written at t=%.3f, the gateway was lost at t=%.3f, and the "
                            "caller (exceptions requested) returned normally at t=%.3f after the frame was written again at %r"
                            % (drv, ci, cspec["kind"], real[0]["k"], min(written) - 1000.0, losses[0], rec["t_done"],
                               [round(x - 1000.0, 3) for x in written[1:]])))
    # ---- hangs
    status = [s for (_, s) in obs["status_log"]]
    failed = "failed" in status
    for ci, rec in enumerate(obs["callers"]):
        if rec["status"] != "pending":
            continue
        excusable = (not present_at_end) or failed or (limit is not None and not obs["_connected_at_end"])
        if not excusable:
            out.append(("C17:%s:caller-hangs" % drv, "%s caller %d (t0=%.3f) still pending at t=%.1f s although the device is back"
                        % (drv, ci, case["callers"][ci].get("t0", 0), obs["t_end"])))
    if not any(r["status"] == "pending" for r in obs["callers"]) and obs["locks_held"]:
        out.append(("C17:%s:resource-leak" % drv, "after every caller ended: %r" % (obs["locks_held"],)))
    # ---- status callbacks and reconnect policy
    if losses and obs["connected"] and case.get("how") in ("error", "eof", "silent"):
        noticed = any(s == "disconnected" for s in status)
        # a silent loss is only noticed at the next write or hang-up; the scenario always adds a hang-up
        if not noticed:
            out.append(("C17:%s:loss-not-reported" % drv, "device lost at t=%r but no 'disconnected' status; log %r" % (losses, obs["status_log"])))
    attempts = [(t, ok) for (t, ok) in obs["open_attempts"]]
    simple = len(losses) == 1 and not restores and case.get("how") in ("error", "eof", "silent") and \
        not any(e["what"] == "app_connect" for e in case.get("events", []))
    if simple and obs["connected"]:
        after = [(t, ok) for (t, ok) in attempts if t > 1000.0 + losses[0] + 1e-6]
        if limit is not None:
            # device absent for good: exactly `limit` attempts, spaced by the interval, then "failed"
            if len(after) != limit:
                out.append(("C17:%s:reconnect-attempts" % drv, "limit %r but %d reconnection attempts after the loss at %.3f: %r"
                            % (limit, len(after), losses[0], [round(t - 1000.0, 3) for t, _ in after])))
            if not failed:
                out.append(("C17:%s:failed-not-reported" % drv, "reconnect limit %r used up (attempts at %r) but 'failed' was never "
                            "reported; status log %r" % (limit, [round(t - 1000.0, 3) for t, _ in after],
                                                         [(round(t - 1000.0, 3), s_) for t, s_ in obs["status_log"]])))
        else:
            if len(after) < 3:
                out.append(("C17:%s:reconnect-attempts" % drv, "no limit configured but only %d reconnection attempts in %.0f s"
                            % (len(after), obs["t_end"])))
            if failed:
                out.append(("C17:%s:failed-without-limit" % drv, "'failed' reported although no reconnect limit is configured"))
        gaps = [round(b[0] - a[0], 6) for a, b in zip(after, after[1:])]
        if any(abs(g - interval) > 1e-6 for g in gaps):
            out.append(("C17:%s:reconnect-spacing" % drv, "attempts spaced %r, configured interval %r" % (gaps, interval)))
    # ---- 'failed' only after exactly `limit` attempts since the last successful connection (every episode)
    if case.get("how") in ("error", "eof", "silent") and obs["connected"]:
        marks = sorted([(t, 1, s_) for (t, s_) in obs["status_log"]] + [(t, 0, "attempt-ok" if ok else "attempt-failed") for (t, ok) in attempts]
                       + [(t, -1, "app-connect") for t in obs.get("app_connect_calls", [])])
        n_failed = 0
        over_limit = False
        for (t, _, what) in marks:
            if what == "connected":
                n_failed = 0
            elif what == "app-connect":
                n_failed = -1          # the application's own connect() is not one of the automatic retries
            elif what.startswith("attempt"):
                # an attempt counts as failed unless a 'connected' report follows it (an open that succeeds but
                # whose handshake write fails is a failed attempt too)
                n_failed += 1
                if limit is not None and n_failed > limit + 1 and not obs.get("app_connect_calls") and not over_limit:
                    over_limit = True
                    out.append(("C17:%s:failed-not-reported" % drv, "reconnection attempt at t=%.3f is number %d since the last successful "
                                "connection without 'failed' having been reported; configured limit %r; status log %r; attempts %r"
                                % (t - 1000.0, n_failed, limit, [(round(a - 1000.0, 3), b) for a, b in obs["status_log"]],
                                   [(round(a - 1000.0, 3), ok) for a, ok in attempts][:12])))
            elif what == "failed":
                if limit is None or n_failed != limit:
                    out.append(("C17:%s:failed-after-wrong-number-of-attempts" % drv,
                                "'failed' reported at t=%.3f after %d failed reconnection attempts since the last successful "
                                "connection; configured limit %r; status log %r" % (t - 1000.0, n_failed, limit,
                                                                                   [(round(a - 1000.0, 3), b) for a, b in obs["status_log"]])))
                n_failed = 0
        calls = [t for t in obs.get("app_connect_calls", [])
                 if any(abs(a - t) < 1e-9 and not ok for (a, ok) in attempts)]      # those made with the device absent
        if calls and limit is not None and not present_at_end:
            # every round of retries that ends without a connection is reported, also the second one
            n_reports = len([1 for (t, s_) in obs["status_log"] if s_ == "failed"])
            if failed and n_reports < 1 + len(calls):
                out.append(("C17:%s:failed-not-reported-again" % drv, "the application called connect() again at %r with the device "
                            "still absent; %d retry rounds ended without a connection but 'failed' was reported %d time(s); "
                            "status log %r" % ([round(t - 1000.0, 3) for t in calls], 1 + len(calls), n_reports,
                                               [(round(a - 1000.0, 3), b) for a, b in obs["status_log"]])))
        if present_at_end and not failed and obs["_connected_at_end"] is False:
            out.append(("C17:%s:never-reconnects" % drv, "device back since t=%.3f, 'failed' never reported, but the driver is still "
                        "disconnected at t=%.1f; status log %r" % (restores[-1], obs["t_end"], obs["status_log"][-4:])))
    # ---- a power-supply switch that returned normally has reached the gateway (with exceptions off it is repeated after the
    #      reconnection like any command, not dropped)
    for on in (True, False):
        asked = sum(1 for cspec, rec in zip(case["callers"], obs["callers"]) if rec["status"] == "ok"
                    for c in cspec["cmds"] if c["k"] == "power" and bool(c.get("on", True)) is on)
        seen_ = sum(1 for w in obs.get("wire_all", []) if w["kind"] == "power" and bool(w.get("on")) is on)
        if asked > seen_:
            out.append(("C17:%s:power-supply-switch-lost" % drv, "%d power_supply(%s) calls returned normally, the gateway received "
                        "%d such packets; events %r" % (asked, on, seen_, [(e["t"], e["what"]) for e in ev])))
            break
    # ---- while a connection is up nobody opens the device node a second time (a retry timer left over from the outage,
    #      a connect() by hand on a connected driver)
    if obs["connected"]:
        marks2 = sorted([(t, 1, s_) for (t, s_) in obs["status_log"]] + [(t, 0, "attempt") for (t, ok) in obs["open_attempts"]])
        up_since = None
        for (t, _, what) in marks2:
            if what == "connected":
                up_since = t
            elif what in ("disconnected", "failed"):
                up_since = None
            elif what == "attempt" and up_since is not None and t > up_since + 1e-9:
                out.append(("C17:%s:device-opened-again-while-connected" % drv, "the device node was opened at t=%.4f although the "
                            "connection made at t=%.4f was still up; status log %r; attempts %r"
                            % (t - 1000.0, up_since - 1000.0, [(round(a - 1000.0, 3), b) for a, b in obs["status_log"]],
                               [round(a - 1000.0, 4) for a, _ in obs["open_attempts"]])))
                break
    # ---- an outage does not open a caller's transaction to others: on each connection, no frame of another caller
    #      lies between the first and the last frame of a sequence / transaction caller (callers may be cancelled or
    #      fail while the device is away; the others keep what they hold)
    tags = obs.get("tags", {})
    seg = []
    segments = [seg]
    for w in obs.get("wire_all", []):
        if w["kind"] == "open":
            seg = []
            segments.append(seg)
        elif w["kind"] == "send":
            ci = tags.get("%d:%d" % (w["bits"], w["value"]))
            if ci is not None:
                seg.append(ci)
    for seg in segments:
        done = False
        for ci in sorted(set(seg)):
            if case["callers"][ci]["kind"] not in ("seq", "txn"):
                continue
            idx = [i for i, x in enumerate(seg) if x == ci]
            between = [x for x in seg[idx[0]:idx[-1] + 1] if x != ci]
            if between:
                out.append(("C17:%s:transaction-entered-by-another-caller" % drv,
                            "frames of callers %r were written between the first and the last frame of caller %d (%s) on one "
                            "connection: order of callers on the wire %r; events %r; cancellations %r"
                            % (sorted(set(between)), ci, case["callers"][ci]["kind"], seg,
                               [(e["t"], e["what"]) for e in ev], [(i, c["cancel"]) for i, c in enumerate(case["callers"]) if "cancel" in c])))
                done = True
                break
        if done:
            break
    # ---- every round of automatic retries is ONE chain: after each 'disconnected' report the attempts come one
    #      interval after the report and one interval after each other until 'connected' / 'failed' - also when the
    #      application had connected by hand in between.  (A connect() by hand while the device is absent starts a
    #      round of its own in the library as it stands: not judged then.)
    calls = obs.get("app_connect_calls", [])
    by_hand = {round(t, 9) for t in calls}
    hand_failed = any((round(t, 9) in by_hand) and not ok for (t, ok) in attempts)
    if obs["connected"] and not hand_failed:
        marks = sorted([(t, 1, s_) for (t, s_) in obs["status_log"]] +
                       [(t, 0, "attempt") for (t, ok) in attempts if round(t, 9) not in by_hand])
        last = None
        for (t, _, what) in marks:
            if what == "disconnected":
                last = t
            elif what in ("connected", "failed"):
                last = None
            elif what == "attempt" and last is not None:
                if abs((t - last) - interval) > 1e-6:
                    out.append(("C17:%s:reconnect-spacing" % drv, "reconnection attempt at t=%.4f comes %.4f s after the previous "
                                "attempt / the 'disconnected' report (t=%.4f); configured interval %r; attempts %r, connect() by hand "
                                "at %r, status log %r" % (t - 1000.0, t - last, last - 1000.0, interval,
                                                          [round(a - 1000.0, 4) for a, _ in attempts], [round(a - 1000.0, 4) for a in calls],
                                                          [(round(a - 1000.0, 3), b) for a, b in obs["status_log"]])))
                    break
                last = t
    # ---- a (re)sent device-type command carries its ENABLE DEVICE TYPE prefix on the connection it is written to:
    #      the retry after a loss must repeat the prefix, the gear behind the reconnected gateway has not seen it
    need = {}
    for cspec in case["callers"]:
        for c in cspec["cmds"]:
            if c["k"] in ("sleep", "progress", "power"):
                continue
            cmd = sc.build_cmd(c)
            if cmd.devicetype:
                need[sc.frame_key(cmd)] = cmd.devicetype
    prev = None
    for w in obs["wire_all"]:
        if w["kind"] == "open":
            prev = None
        elif w["kind"] == "send":
            key = (w["bits"], w["value"])
            if key in need and prev != (16, 0xC100 | need[key]):
                out.append(("C17:%s:devicetype-prefix-missing-after-reconnect" % drv,
                            "device-type command %d:%#x was written at t=%.3f %s, not directly after ENABLE DEVICE TYPE %d on the "
                            "same connection" % (key[0], key[1], w["t"] - 1000.0,
                                                 "as the first frame after a (re)open" if prev is None else "after frame %r" % (prev,),
                                                 need[key])))
                break
            prev = key
    # ---- handshake repeated before any command after each (re)open (Tridonic)
    if drv == "tridonic":
        state = None
        for w in obs["wire_all"]:
            if w["kind"] == "open":
                state = "opened"
                seen = set()
            elif w["kind"] == "init":
                seen.add(w["what"])
            elif w["kind"] == "send":
                if state == "opened" and seen != {0, 2}:
                    out.append(("C17:tridonic:command-before-handshake", "a command was written after (re)opening the device before the "
                                "version/serial handshake completed (init writes seen: %r)" % sorted(seen)))
                    break
    if drv == "tridonic" and obs["_connected_at_end"] and obs.get("_ident") != ("2.5", "DEADBEEF"):
        out.append(("C17:tridonic:handshake-state-corrupted", "connected with firmware_version/serial = %r, the gateway reports "
                    "('2.5', 'DEADBEEF'); init writes %r" % (obs.get("_ident"), [w["what"] for w in obs["wire_all"] if w["kind"] == "init"][-4:])))
    if present_at_end and losses and not failed and obs["_connected_at_end"] is False and (limit is None):
        out.append(("C17:%s:never-reconnects" % drv, "device back since t=%.3f, no reconnect limit, but the driver is still "
                    "disconnected at t=%.1f; status log %r; loop exceptions %r" % (restores[-1], obs["t_end"], obs["status_log"][-4:], obs["loop_exceptions"][:1])))
    return out


# ---------------------------------------------------------------- cancel ----
def judge_cancel(case, obs):
    drv = case["driver"]
    out = []
    judge_results(case, obs, drv, lambda ci, rec: False, out)
    for ci, rec in enumerate(obs["callers"]):
        if rec["status"] == "pending":
            out.append(("C17:%s:caller-hangs" % drv, "%s caller %d still pending at t=%.1f s" % (drv, ci, obs["t_end"])))
    if not any(r["status"] == "pending" for r in obs["callers"]) and obs["locks_held"]:
        out.append(("C17:%s:resource-leak-after-cancel" % drv, "after a cancelled send and %d further sends: %r"
                    % (sum(len(c["cmds"]) for c in case["callers"][1:]), obs["locks_held"])))
    return out


# ------------------------------------------------------------------ mute ----
def judge_mute(case, obs):
    drv = case["driver"]
    out = []
    judge_results(case, obs, drv, lambda ci, rec: False, out)
    confirm = 1.0 if drv == "luba" else 0.1
    answer = 0.025 if drv == "luba" else 0.030
    for ci, (cspec, rec) in enumerate(zip(case["callers"], obs["callers"])):
        n = len([c for c in cspec["cmds"] if c["k"] not in ("sleep", "progress", "power")])
        if rec["status"] == "pending":
            out.append(("C17:%s:caller-hangs" % drv, "%s caller %d still pending at t=%.1f s with a mute gateway" % (drv, ci, obs["t_end"])))
        elif "t_done" in rec and "t_start" in rec:
            # every command may wait for the transaction lock behind the others, then at most confirm + answer timeouts
            budget = (2 * confirm + answer + 0.2) * sum(len(c["cmds"]) + 1 for c in case["callers"]) + 0.5
            if rec["t_done"] - rec["t_start"] > budget:
                out.append(("C17:%s:timeout-exceeded" % drv, "%s caller %d took %.3f s, documented timeouts allow %.3f s"
                            % (drv, ci, rec["t_done"] - rec["t_start"], budget)))
    if not any(r["status"] == "pending" for r in obs["callers"]) and obs["locks_held"]:
        out.append(("C17:%s:lock-held-after-timeout" % drv, "%r" % (obs["locks_held"],)))
    return out


_LAST = {}


def case_second_connect(case):
    """case: {"family": "second-connect", "driver": "luba"|"sci", "cut": k, "verbose": bool}
    The gateway falls silent k bytes into its first reply (cable loose, gateway rebooting): connect() gives up.  The
    gateway talks again, the program calls connect() once more on the same driver object: that connection comes up
    and the driver works (nothing of the half-received packet lingers)."""
    from harness.gateways_serial import SerialSim
    from harness import verbose
    from dali.gear import general as g
    drv = case["driver"]
    verbose.set(bool(case.get("verbose")))
    sim = SerialSim(drv)
    out = []
    try:
        sim.gw.mute_after_bytes = case["cut"]
        t1 = sim.loop.create_task(sim.driver.connect())
        sim.tasks.append(t1)
        sim.drain(max_rounds=4000, max_virtual=60.0)
        if not t1.done():
            return [("C17:%s:connect-hangs" % drv, "first connect() (reply cut after %d bytes) still pending after 60 s" % case["cut"])]
        first = "raised %s" % type(t1.exception()).__name__ if t1.exception() is not None else "returned"
        # the gateway is back
        sim.gw.mute = sim.gw.mute_answers = False
        sim.gw.cut = False
        sim.gw.mute_after_bytes = None
        sim.gw.pending[:] = []
        t2 = sim.loop.create_task(sim.driver.connect())
        sim.tasks.append(t2)
        sim.drain(max_rounds=4000, max_virtual=60.0)
        where = "%s: first connect() %s (the gateway's first reply was cut after %d bytes), gateway back, second connect()" % (drv, first, case["cut"])
        if not t2.done():
            return [("C17:%s:second-connect-hangs" % drv, "%s still pending after 60 s" % where)]
        if t2.exception() is not None:
            e = t2.exception()
            return [("C17:%s:second-connect-fails:%s" % (drv, type(e).__name__), "%s raised %r (in %s)" % (where, e, library_frame(e.__traceback__)))]
        if not sim.driver.is_connected:
            return [("C17:%s:second-connect-not-connected" % drv, "%s returned but is_connected is False" % where)]
        q = g.QueryActualLevel(5)
        sim.expect(q, ("value", 0x6B))
        t3 = sim.loop.create_task(sim.driver.send(q))
        sim.tasks.append(t3)
        sim.drain(max_rounds=4000, max_virtual=30.0)
        if not t3.done():
            out.append(("C17:%s:caller-hangs" % drv, "%s: a query sent afterwards never completes" % where))
        elif t3.exception() is not None:
            out.append(("C17:%s:send-raised:%s" % (drv, type(t3.exception()).__name__), "%s: a query sent afterwards raised %r" % (where, t3.exception())))
        else:
            got = sc.describe_response(t3.result())
            if got.get("raw") != ["value", 0x6B]:
                out.append(("C17:%s:wrong-data-after-fault" % drv, "%s: a query answered 0x6b afterwards returned %r" % (where, got)))
    finally:
        sim.close()
        verbose.set(False)
    return out


def run_case(case):
    fam = case["family"]
    if fam == "second-connect":
        return case_second_connect(case)

    def inspect(sim, obs):
        if case["driver"] in sc.HID:
            obs["open_attempts"] = list(sim.gw.open_attempts)
            obs["_connected_at_end"] = sim.driver.connected.is_set()
            obs["_ident"] = (getattr(sim.driver, "firmware_version", None), getattr(sim.driver, "serial", None))
            obs["wire_all"] = list(sim.gw.wire)
    obs = sc.run(case, hooks={"inspect": inspect})
    # non-triviality measured from the trace
    faults = [e["t"] for e in case.get("events", [])] + [c["cancel"] for c in case["callers"] if c.get("cancel") is not None]
    hit = False
    for t in faults:
        if in_flight_at(case, obs, t):
            hit = True
    _LAST["fault_in_flight"] = hit
    _LAST["status"] = [s for (_, s) in obs.get("status_log", [])]
    if not obs.get("connected") and fam != "loss":
        return [("C17:%s:connect-failed" % case["driver"], "driver did not connect")]
    return {"loss": judge_loss, "cancel": judge_cancel, "mute": judge_mute}[fam](case, obs)


# ------------------------------------------------------------ strategies ----
def _cmd(draw, a, kinds):
    k = draw(st.sampled_from(kinds))
    c = {"k": k, "a": a}
    if sc.build_cmd(c).response is not None:
        c["oc"] = ["value", draw(st.integers(0, 255))] if draw(st.booleans()) else ["silent"]
    return c


@st.composite
def loss_case(draw, driver=None):
    drv = driver or draw(st.sampled_from(["tridonic", "hasseb"]))
    exceptions = draw(st.booleans())
    callers = []
    for ci in range(draw(st.integers(0, 3))):
        kind = draw(st.sampled_from(["send", "send", "seq", "txn"]))       # txn: own transaction, in_transaction=True sends
        cmds = [_cmd(draw, 2 + ci * 9 + j, Q + N) for j in range(1 if kind == "send" else draw(st.integers(1, 3)))]
        callers.append({"kind": kind, "cmds": cmds, "t0": draw(st.sampled_from([0.0, 0.0, 0.01, 0.03, 0.06, 0.5, 1.2, 2.5]))})
        if kind == "seq" and draw(st.booleans()):
            cmds.insert(draw(st.integers(0, len(cmds))), {"k": "sleep", "d": draw(st.sampled_from([0.02, 0.3]))})
        if kind == "txn" and drv == "tridonic" and draw(st.integers(0, 2)) == 0:
            # the interface's bus power supply is switched inside the transaction: one more packet that can be the one whose
            # write fails
            cmds.insert(draw(st.integers(0, len(cmds))), {"k": "power", "on": draw(st.booleans())})
        if kind in ("send", "txn") and draw(st.integers(0, 2)) == 0:
            callers[-1]["exceptions"] = draw(st.booleans())      # said at the call (exceptions=...), overriding the driver's default
        # (hasseb reports carry no identity: an abandoned QUERY's answer cannot be told from the next query's - documented)
        if draw(st.integers(0, 3)) == 0 and not (drv == "hasseb" and any("oc" in c for c in cmds)):
            # the application gives up on this caller at some point (often while the device is away)
            callers[-1]["cancel"] = callers[-1]["t0"] + draw(st.sampled_from([0.05, 0.15, 0.3, 0.45, 0.8, 1.3]))
    t_loss = draw(st.sampled_from([0.0, 0.0005, 0.01, 0.02, 0.03, 0.04, 0.045, 0.05, 0.06, 0.07, 0.09, 0.2]))
    how = draw(st.sampled_from(["error", "eof", "silent", "write_fails"]))
    events = []
    if how == "write_fails":
        events.append({"t": t_loss, "what": "write_fails"})
        if draw(st.booleans()):
            events[-1]["nth"] = draw(st.integers(1, 4))      # not at a quiescent point: the n-th write from then on
    elif how == "silent":
        events.append({"t": t_loss, "what": "lose", "notify": False})
        events.append({"t": t_loss + draw(st.sampled_from([0.001, 0.05, 0.4])), "what": "hup"})
    else:
        events.append({"t": t_loss, "what": "lose", "notify": True, "eof": how == "eof"})
    limit = draw(st.sampled_from([None, None, 0, 1, 3]))
    interval = draw(st.sampled_from([0.5, 1]))
    back = draw(st.sampled_from(["never", "soon", "during-wait", "late", "flaky-handshake", "lost-during-handshake",
                                 "lost-during-handshake", "by-hand", "present-but-dead"]))
    if back == "present-but-dead" and how == "write_fails":
        back = "never"
    if back == "present-but-dead":
        # the device node is back for good but every write to it fails (firmware hung): each attempt opens the node
        # and fails at the first write of the handshake - those are failed attempts like any other
        events.append({"t": round(t_loss + 0.35, 5), "what": "restore"})
        events.append({"t": round(t_loss + 0.351, 5), "what": "write_fails"})
        back = "never"
    if back == "by-hand" and how not in ("error", "eof"):
        back = "soon"
    if back == "by-hand":
        # the device is back while the driver still waits for its next attempt; the application connects by hand at
        # once; the device goes again before that attempt would have come - and returns much later or never
        # (the by-hand connect() may come just before the sleeping retry timer fires: 0.996 / 0.999 of the interval)
        f1, f2, f3 = draw(st.sampled_from([(0.2, 0.25, 0.7), (0.3, 0.35, 0.9), (0.1, 0.5, 0.6), (0.3, 0.31, 1.4),
                                           (0.5, 0.996, 3.3), (0.9, 0.999, 2.6), (0.5, 0.9985, 1.7)]))
        events.append({"t": round(t_loss + f1 * interval, 5), "what": "restore"})
        events.append({"t": round(t_loss + f2 * interval, 5), "what": "app_connect"})
        events.append({"t": round(t_loss + f3 * interval, 5), "what": "lose", "notify": True})
        if draw(st.booleans()):
            events.append({"t": round(t_loss + (f3 + 2.6) * interval, 5), "what": "restore"})
            back = "late"
        else:
            back = "never"
        by_hand = True
    else:
        by_hand = False
    if back == "lost-during-handshake" and how == "write_fails":
        back = "soon"
    if back == "never" and not by_hand and limit is not None and how in ("error", "eof") and draw(st.booleans()):
        t_again = t_loss + (limit + 1) * interval + 0.7
        events.append({"t": round(t_again, 4), "what": "app_connect"})
        if draw(st.booleans()):
            events.append({"t": round(t_again + (limit + 2) * interval + 0.7, 4), "what": "app_connect"})
    if back != "never" and not by_hand:
        t_back = t_loss + {"soon": 0.35, "during-wait": interval * 1.5 + 0.31, "late": interval * 2.2 + 0.31,
                           "flaky-handshake": 0.35, "lost-during-handshake": 0.2}[back]
        events.append({"t": t_back, "what": "restore"})
        if back == "lost-during-handshake":
            # the device vanishes again while the version/serial handshake of the reconnection is under way
            # (reconnection attempts run at detection time + k * interval; reports arrive 1..5 ms after a write)
            for k in (1, 2):
                t_a = t_loss + k * interval
                off = draw(st.sampled_from([0.0004, 0.002, 0.0035, 0.0045, 0.0055, 0.007, 0.012]))
                events.append({"t": round(t_a + off, 5), "what": "lose", "notify": True})
                events.append({"t": round(t_a + off + 0.2, 5), "what": "restore"})
                if draw(st.booleans()):
                    break
        if back == "flaky-handshake":
            # the device is back but writes fail for a while (e.g. still enumerating): the handshake write fails
            events.append({"t": t_back + 0.001, "what": "write_fails"})
            events.append({"t": t_back + interval + 0.2, "what": "restore"})
        if back != "flaky-handshake" and draw(st.booleans()):
            # further loss / return cycles: the reconnect budget must be fresh after every successful reconnection
            t2 = t_back
            for _ in range(draw(st.integers(1, 3))):
                t2 = t2 + interval * 3 + draw(st.sampled_from([0.0, 0.02, 0.5]))
                events.append({"t": t2, "what": "lose", "notify": True})
                t2 = t2 + draw(st.sampled_from([0.2, 0.4]))
                events.append({"t": t2, "what": "restore"})
        # a probe after everything: recovery must be clean
        t_probe = max(e["t"] for e in events) + interval * 5 + 1
        callers.append({"kind": "send", "cmds": [{"k": "qlevel", "a": 60, "oc": ["value", 0xA7]}], "t0": t_probe})
        callers.append({"kind": "send", "cmds": [{"k": "reset", "a": 61}], "t0": t_probe})
    case = {"family": "loss", "driver": drv, "how": how, "callers": callers, "events": events, "exceptions": exceptions,
            "reconnect_limit": limit, "reconnect_interval": interval, "lat": draw(st.lists(st.floats(0, 0.999), max_size=12)),
            "tie": draw(st.booleans()), "drain_virtual": 60.0,
            "horizon": max([e["t"] for e in events] + [c["t0"] for c in callers]) + interval * 6 + 2}
    sn = draw(st.sampled_from([None, None, "oneshot", "raising", "both"]))
    if sn:
        case["status_neighbours"] = sn      # other listeners to the connection status, registered before the monitor
    if draw(st.integers(0, 2)) == 0:
        case["glob"] = True       # the device path is a pattern: an unplugged gateway's node does not exist at all
        if draw(st.booleans()):
            for e in events:      # ... and it comes back under another number (USB re-enumeration)
                if e["what"] == "restore" and draw(st.booleans()):
                    e["renamed"] = True
    if drv == "tridonic":
        case["seq0"] = draw(st.sampled_from([1, 200, 255]))
    return case


@st.composite
def cancel_case(draw, driver=None):
    drv = driver or draw(st.sampled_from(["tridonic", "hasseb", "luba", "sci"]))
    # hasseb reports carry no sequence number: an answer to an abandoned query cannot be told from the next
    # query's answer (the driver documents this); the cancelled command is therefore not a query there
    first = _cmd(draw, 3, (Q if drv != "hasseb" else []) + ["reset", "dapc", "dtcmd"])
    kind = draw(st.sampled_from(["send", "seq"]))
    callers = [{"kind": kind, "cmds": [first] + ([_cmd(draw, 4, Q if drv != "hasseb" else ["off"])] if kind == "seq" else []), "t0": 0.0,
                "cancel": draw(st.sampled_from([0.0, 0.0001, 0.002, 0.01, 0.02, 0.03, 0.041, 0.05, 0.062, 0.08]))}]
    if draw(st.booleans()):
        callers[0]["cancel_with_report"] = True      # the timeout fires in the iteration that reads the next report
    n = 300
    cmds = [{"k": "dapc", "a": i % 64, "p": (i * 7) % 254} for i in range(n)]
    if draw(st.booleans()):
        cmds[draw(st.integers(0, n - 1))] = {"k": "qlevel", "a": 9, "oc": ["value", 0x42]}
    if draw(st.booleans()):
        # the follow-up traffic starts with queries whose own outcome differs from the abandoned command's:
        # a report that still arrives for the abandoned command must not be handed to them
        for j in range(draw(st.integers(1, 3))):
            oc = draw(st.sampled_from([["silent"], ["silent"], ["value", 0x17 + j]]))
            cmds[j] = {"k": ["qstatus", "qlevel", "qpresent"][j], "a": 20 + j, "oc": oc}
    callers.append({"kind": "seq", "cmds": cmds, "t0": draw(st.sampled_from([0.0, 0.03, 0.2]))})
    if drv == "hasseb" and draw(st.booleans()):
        # an abandoned QUERY on hasseb is judged when its late report arrives while nobody is waiting (the follow-up
        # traffic starts well after it): the report must then be forgotten, not handed to the next query
        callers[0]["cmds"][0] = _cmd(draw, 3, Q)
        callers[0]["cancel"] = draw(st.sampled_from([0.0001, 0.002, 0.01, 0.02]))
        callers[0].pop("cancel_with_report", None)
        callers[1]["t0"] = 0.2
    case = {"family": "cancel", "driver": drv, "callers": callers, "lat": draw(st.lists(st.floats(0, 0.999), max_size=8)),
            "tie": draw(st.booleans()), "drain_virtual": 120.0}
    if drv == "tridonic":
        case["seq0"] = draw(st.sampled_from([1, 100, 255]))
    return case


@st.composite
def mute_case(draw, driver=None):
    drv = driver or draw(st.sampled_from(["luba", "sci"]))
    callers = []
    for ci in range(draw(st.integers(1, 3))):
        kind = draw(st.sampled_from(["send", "seq"]))
        cmds = [_cmd(draw, 2 + ci * 9 + j, Q + ["dapc", "reset", "dtcmd", "dtquery", "dttwice"])
                for j in range(1 if kind == "send" else draw(st.integers(1, 3)))]
        callers.append({"kind": kind, "cmds": cmds, "t0": draw(st.sampled_from([0.0, 0.01, 0.05, 0.3]))})
    what = draw(st.sampled_from(["mute", "mute_answers", "mute_mid"]))
    if what == "mute_mid":
        # silence begins in the middle of a packet: its first byte(s) are the last thing the host hears
        events = [{"t": draw(st.sampled_from([-0.001, 0.0, 0.004, 0.02, 0.04])), "what": "mute_mid",
                   "bytes": draw(st.integers(1, 6))}]
        for c in callers:
            for x in c["cmds"]:
                if "oc" in x:
                    x["oc"] = ["silent"]
        # later traffic must still get its (timely) "no answer": nobody may wait for the rest of that packet for ever
        callers.append({"kind": "send", "cmds": [{"k": "qlevel", "a": 50, "oc": ["silent"]}], "t0": 3.0})
        callers.append({"kind": "seq", "cmds": [{"k": "dapc", "a": 51, "p": 9}, {"k": "qstatus", "a": 52, "oc": ["silent"]}], "t0": 6.5})
    elif what == "mute_answers":
        # the gateway keeps confirming but never reports an answer: every query must come back as "no answer"
        events = [{"t": -0.001, "what": "mute_answers"}]
    else:
        events = [{"t": draw(st.sampled_from([-0.001, 0.0, 0.004, 0.016, 0.02, 0.03, 0.04, 0.05, 0.06, 0.075])), "what": "mute"}]
        for c in callers:           # an answer may or may not already be under way: only silent outcomes are judged
            for x in c["cmds"]:
                if "oc" in x:
                    x["oc"] = ["silent"]
    if what == "mute" and draw(st.booleans()):
        # the gateway comes back to life: later traffic gets its own, correct answers (nothing of the failed
        # exchanges may linger in the driver)
        t_un = events[0]["t"] + draw(st.sampled_from([1.6, 2.5, 4.0]))
        events.append({"t": round(t_un, 4), "what": "unmute"})
        k = 0
        for tt in (t_un + 4.0, t_un + 4.3, t_un + 6.0):
            kind2 = draw(st.sampled_from(["send", "seq"]))
            cm = [{"k": draw(st.sampled_from(Q)), "a": 30 + k, "oc": ["value", 0x40 + k]}]
            k += 1
            if kind2 == "seq":
                cm.append({"k": "dapc", "a": 30 + k, "p": 7})
                cm.append({"k": draw(st.sampled_from(Q)), "a": 31 + k, "oc": ["value", 0x60 + k]})
                k += 2
            callers.append({"kind": kind2, "cmds": cm, "t0": round(tt, 4)})
    case = {"family": "mute", "driver": drv, "callers": callers, "events": events,
            "lat": draw(st.lists(st.floats(0, 0.999), max_size=12)), "tie": draw(st.booleans()), "drain_virtual": 60.0}
    if what == "mute_answers":
        case["answers_muted"] = True
    return case


def features(case):
    f = ["family:" + case["family"], "driver:" + case["driver"]]
    if _LAST.get("fault_in_flight"):
        f.append("fault-while-caller-in-flight")
    for e in case.get("events", []):
        f.append("event:" + e["what"] + (":silent" if e.get("notify") is False else ":eof" if e.get("eof") else ""))
    if case.get("glob"):
        f.append("device-path-is-a-glob-pattern")
    if any(e["what"] == "unmute" for e in case.get("events", [])):
        f.append("gateway-talks-again-after-a-silence")
    if any(e["what"] == "app_connect" for e in case.get("events", [])):
        f.append("application-calls-connect-again-after-failed")
    if any(c.get("cancel_with_report") for c in case["callers"]):
        f.append("cancellation-coincides-with-a-report")
    if any(e.get("renamed") for e in case.get("events", [])):
        f.append("device-back-under-another-node-name")
    if case["family"] == "loss":
        f.append("limit:%r" % case.get("reconnect_limit"))
        f.append("exceptions:%s" % case.get("exceptions"))
        if "failed" in _LAST.get("status", []):
            f.append("status:failed-reported")
        if _LAST.get("status", []).count("connected") > 1:
            f.append("status:reconnected")
    return sorted(set(f))


def nontrivial(case):
    f = features(case)
    return "fault-while-caller-in-flight" in f or "status:failed-reported" in f or "status:reconnected" in f


def reducer(case):
    import copy
    for i in range(len(case["callers"]) - 1, -1, -1):
        c = copy.deepcopy(case)
        del c["callers"][i]
        yield c
    # events are not reduced: a loss without its hang-up / restore is not a scenario the generator produces
    for i, cl in enumerate(case["callers"]):
        if len(cl["cmds"]) > 1:
            c = copy.deepcopy(case)
            c["callers"][i]["cmds"] = cl["cmds"][:len(cl["cmds"]) // 2]
            yield c


def _shard(arg):
    fam, driver, seed, n = arg
    res = Result()
    if fam == "second-connect":
        for cut in range(1, 26):
            for vb in (False, True):
                case = {"family": "second-connect", "driver": driver, "cut": cut, "verbose": vb}
                res.count()
                res.nontrivial()
                res.label("second-connect:" + driver)
                for sig, msg in run_case(case):
                    res.violation(sig, case, msg)
        res.sample(case, cls="second connect after a failed first")
        return res
    strat = {"loss": loss_case, "cancel": cancel_case, "mute": mute_case}[fam](driver)
    hyp.search(strat, run_case, res, n, seed, ID, nontrivial=nontrivial, classify=features, shrink=False, reducer=reducer)
    return res


def run(ctx):
    q = ctx.quick
    s = ctx.seed * 1000
    shards = []
    for k in range(8):
        shards.append(("loss", ["tridonic", "hasseb"][k % 2], s + k, 1800 if q else 30000))
    for k, drv in enumerate(["tridonic", "tridonic", "hasseb", "luba", "sci"]):
        shards.append(("cancel", drv, s + 20 + k, 10 if q else 200))
    for k in range(4):
        shards.append(("mute", ["luba", "sci"][k % 2], s + 40 + k, 400 if q else 15000))
    shards.append(("second-connect", "luba", s, 1))
    shards.append(("second-connect", "sci", s, 1))
    ctx.pmap(_shard, shards)
