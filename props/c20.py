"""C20 - observed bus traffic is reported once, decoded in context, paired up.

Tridonic HID: histories of bus transactions by other masters (plain, query+answer, query+silence,
query+framing error, config command sent twice / once / interrupted by another frame or by a backward
frame, ENABLE DEVICE TYPE + extended command, 24-bit commands and events, unknown frames), each gap
chosen clearly shorter (<= 0.1 s) or clearly longer (>= 0.3 s) than the watcher's 0.2 s timeout,
interleaved with the driver's own sends, with 0-3 subscribers joining and leaving.  A reference
watcher written here from the property statement turns the timed stream of gateway reports (as
recorded by the harness at delivery) into the expected callback stream.
LUBA / SCI: observed forward frames must reach every subscribed child queue exactly once, in order,
decoded with the device type of the immediately preceding ENABLE DEVICE TYPE frame.
"""
from hypothesis import strategies as st

from harness import hyp
from harness import ref_wire as RW
from harness import scenario as sc
from harness.runner import Result, library_frame

ID = "C20"
LEVEL = "exploration"
RULE = ("Hypothesis histories of up to 8 bus transactions + own sends + subscriber changes, distinct by fingerprint; "
        "non-trivial = the history contains a pairing decision (query or send-twice command) that is resolved by each of at "
        "least two different mechanisms among {answer, timeout, next forward frame, repeat, backward frame}, or a device-type "
        "context, or a subscriber joining/leaving mid-history")
ASSUMPTIONS = [
    "the Tridonic watcher's timeout is 0.2 s measured from the last report it processed; generated gaps are <= 0.1 s or "
    ">= 0.3 s so that no decision depends on the exact boundary",
    "a command object is compared by its frame and by equality of its fingerprint with dali.command.from_frame(frame, "
    "devicetype=<expected context>, dev_inst_map=<the driver's map>): C20 judges the context and the pairing, C01/C03 the decoding",
    "a subscriber 'subscribed at the time' means registered when the report is issued (invoke time); (un)subscriptions are "
    "generated at instants distinct from report and timeout instants",
    "a backward frame or bus-status report between ENABLE DEVICE TYPE and the following forward frame is not generated",
    "hasseb cannot observe the bus: only its own commands are reported, once each, with their response",
]


def _load():
    import dali.gear.general, dali.gear.led, dali.gear.colour, dali.gear.emergency  # noqa
    import dali.device.general, dali.device.pushbutton, dali.device.occupancy, dali.device.light  # noqa
    from dali import command, frame
    return command, frame


def cmd_fp(c):
    if c is None:
        return None
    return "%s|%d|%#x|%s" % (type(c).__name__, len(c.frame), c.frame.as_integer, str(c))


def resp_fp(r):
    if r is None:
        return None
    d = sc.describe_response(r)
    return "%s|%s" % (d["type"], d["raw"])


# ---------------------------------------------------------- reference watcher ----
def ref_watch(reports, dmap):
    """reports: [(t, kind, bits, value)] with kind in forward/backward/error/noframe (already in delivery order).
    Returns the expected callback stream [(t_invoke, cmd_fp, resp_fp, error_flag)]."""
    command, frame = _load()
    out = []
    pending = None        # (cmd, "twice" | "query")
    dt = 0
    t_prev = None

    def decode(bits, value, dt_):
        return command.from_frame(frame.ForwardFrame(bits, value), devicetype=dt_, dev_inst_map=dmap)

    def resolve_timeout(t_fire):
        nonlocal pending
        cmd, kind = pending
        if kind == "twice":
            out.append((t_fire, cmd_fp(cmd), None, True))
        else:
            out.append((t_fire, cmd_fp(cmd), resp_fp(cmd.response(None)), False))
        pending = None

    for (t, kind, bits, value) in reports:
        if pending is not None and t_prev is not None and t - t_prev > 0.2:
            resolve_timeout(t_prev + 0.2)
        t_prev = t
        if kind == "ignored":
            continue
        if kind == "reset":
            # the device was lost and re-opened: a new watcher starts from scratch - nothing announced on the old
            # connection may colour what is decoded on the new one (histories are generated so that nothing is
            # pending when the device disappears)
            pending = None
            dt = 0
            t_prev = None
            continue
        if pending is not None:
            cmd, pk = pending
            if pk == "twice":
                if kind == "forward":
                    if (len(cmd.frame), cmd.frame.as_integer) == (bits, value):
                        out.append((t, cmd_fp(cmd), None, False))
                        pending = None
                        continue
                    out.append((t, cmd_fp(cmd), None, True))
                    pending = None            # and the new frame is processed below
                else:
                    out.append((t, cmd_fp(cmd), None, True))
                    pending = None
                    continue
            else:
                if kind == "noframe":
                    out.append((t, cmd_fp(cmd), resp_fp(cmd.response(None)), False))
                    pending = None
                    continue
                if kind in ("backward", "error"):
                    bf = frame.BackwardFrame(value) if kind == "backward" else frame.BackwardFrameError(255)
                    out.append((t, cmd_fp(cmd), resp_fp(cmd.response(bf)), False))
                    pending = None
                    continue
                out.append((t, cmd_fp(cmd), resp_fp(cmd.response(None)), False))
                pending = None
        if kind == "forward":
            cmd = decode(bits, value, dt)
            dt = 0
            if cmd.sendtwice or cmd.response:
                pending = (cmd, "twice" if cmd.sendtwice else "query")
            else:
                out.append((t, cmd_fp(cmd), None, False))
            if type(cmd).__name__ == "EnableDeviceType" and bits == 16:
                dt = value & 0xFF
        # a backward frame / error / noframe with nothing pending is dropped
    if pending is not None:
        resolve_timeout(t_prev + 0.2)
    return out


def tridonic_reports(delivered):
    """Decode the delivered 64-byte reports with the reference decoder."""
    out = []
    for (t, rep) in delivered:
        d = RW.tridonic_decode(rep)
        if d["origin"] not in ("observed", "own"):
            continue
        k = d["kind"]
        if k == "forward":
            out.append((t, "forward", d["bits"], d["value"]))
        elif k == "backward":
            out.append((t, "backward", 8, d["value"]))
        elif k == "framing-error":
            out.append((t, "error", 8, 255))
        elif k == "no-answer":
            out.append((t, "noframe", 0, 0))
        else:
            out.append((t, "ignored", 0, 0))
    return out


# -------------------------------------------------------------------- cases ----
def build_map(entries):
    from dali.device.helpers import DeviceInstanceTypeMapper
    m = DeviceInstanceTypeMapper()
    for s, i, t in entries:
        m.add_type(short_address=s, instance_number=i, instance_type=t)
    return m


def run_case(case):
    _load()
    drv = case["driver"]
    subs = {}
    handles = {}
    dmap = build_map(case.get("map", []))

    def after_connect(sim):
        if drv in sc.HID:
            sim.driver.dev_inst_map = dmap
        elif case.get("map_given", "in-place" if len(case.get("map", [])) % 2 else "assigned") == "in-place" \
                and getattr(sim.driver, "dev_inst_map", None) is not None:
            # the program fills the table the driver came with (empty at connect time) through the public attribute
            for s_, i_, t_ in case.get("map", []):
                sim.driver.dev_inst_map.add_type(short_address=s_, instance_number=i_, instance_type=t_)
        else:
            sim.driver.dev_inst_map = dmap
            sim.protocol.dev_inst_map = dmap

    shared_log = []
    parked = {}

    def shared_fn(d, c, r, e):
        # ONE function object registered by several subscribers: every registration must be served separately
        shared_log.append((cmd_fp(c), resp_fp(r), bool(e)))

    def call(sim, ev):
        k = ev["id"]
        if ev["op"] == "sub":
            if k in handles:
                return
            subs.setdefault(k, {"log": [], "spans": [], "shared": bool(ev.get("shared"))})
            subs[k]["spans"].append([sim.loop.time(), None])
            if drv in sc.HID and ev.get("drop_handle"):
                # the subscriber does not keep what register() returned (it never intends to unsubscribe)
                sim.driver.bus_traffic.register(
                    lambda d, c, r, e, k=k: subs[k]["log"].append((sim.loop.time(), cmd_fp(c), resp_fp(r), bool(e))))
                import gc
                gc.collect()
                handles[k] = None
                return
            if drv in sc.HID:
                if subs[k]["shared"]:       # a subscriber keeps its kind when it re-subscribes
                    handles[k] = sim.driver.bus_traffic.register(shared_fn)
                elif ev.get("oneshot"):
                    # a subscriber that wants one report only: it unregisters itself from inside its callback.  What it
                    # gets itself is not judged (reports of the same instant may or may not slip through); the others'
                    # reports and the driver's own work must not be disturbed
                    subs[k]["unjudged"] = True

                    def once(d, c, r, e, k=k):
                        subs[k]["log"].append((sim.loop.time(), cmd_fp(c), resp_fp(r), bool(e)))
                        h = handles.get(k)
                        if h is not None:
                            handles[k] = None
                            h.unregister()
                    handles[k] = sim.driver.bus_traffic.register(once)
                elif ev.get("raises"):
                    def bad(d, c, r, e, k=k, m=ev["raises"]):
                        subs[k]["log"].append((sim.loop.time(), cmd_fp(c), resp_fp(r), bool(e)))
                        if len(subs[k]["log"]) % m == 0:
                            raise RuntimeError("scripted subscriber failure")
                    handles[k] = sim.driver.bus_traffic.register(bad)
                else:
                    handles[k] = sim.driver.bus_traffic.register(
                        lambda d, c, r, e, k=k: subs[k]["log"].append((sim.loop.time(), cmd_fp(c), resp_fp(r), bool(e))))
            elif k in parked:
                # the very queue object that was taken out before is put back (pause / resume of a subscription)
                handles[k] = parked.pop(k)
                sim.protocol.queue_rx_dali.add_handler(handles[k])
            else:
                handles[k] = sim.driver.new_dali_rx_queue()
        else:
            if k not in handles or handles[k] is None:
                return
            subs[k]["spans"][-1][1] = sim.loop.time()
            if drv in sc.HID:
                handles.pop(k).unregister()
            else:
                q = handles.pop(k)
                _drain_queue(q, subs[k], sim.loop.time())
                sim.protocol.queue_rx_dali.del_handler(q)
                if k % 2 == 0:
                    parked[k] = q

    def _drain_queue(q, sub, t):
        while not q.empty():
            sub["log"].append((t, cmd_fp(q.get_nowait()), None, False))

    def inspect(sim, obs):
        obs["delivered"] = list(sim.delivered)
        for k, q in handles.items():
            if drv not in sc.HID and q is not None:
                _drain_queue(q, subs[k], sim.loop.time())

    del _BLOCKS[:]
    for e in case.get("events", []):
        if e.get("what") == "block":
            _BLOCKS.append((1000.0 + e["t"], 1000.0 + e["t"] + e["d"]))
    obs = sc.run(case, hooks={"after_connect": after_connect, "call": call, "inspect": inspect})
    if not obs.get("connected"):
        return [("C20:%s:connect-failed" % drv, "driver did not connect")]
    out = []
    for ci, rec in enumerate(obs["callers"]):
        if rec["status"] not in ("ok",):
            out.append(("C20:%s:own-send-%s" % (drv, rec["status"]), "own send %d: %s %s" % (ci, rec["status"], rec.get("exception_repr", ""))))
    unexpected = [x for x in obs["loop_exceptions"] if "scripted subscriber failure" not in x]
    if unexpected:
        out.append(("C20:%s:unhandled-exception" % drv, "; ".join(unexpected[:2])))
    if out:
        return out
    if drv == "tridonic":
        reports = tridonic_reports(obs["delivered"])
        reopened = [w["t"] for w in obs["wire"] if w["kind"] == "open"][1:]
        if reopened:
            reports = sorted(reports + [(t, "reset", 0, 0) for t in reopened], key=lambda x: x[0])
        exp = ref_watch(reports, dmap)
        own = {k: v for k, v in subs.items() if not v.get("shared") and not v.get("unjudged")}
        shared = {k: v for k, v in subs.items() if v.get("shared")}
        out = compare_callbacks(drv, exp, own, obs)
        if shared and not out:
            import collections
            want = collections.Counter()
            clash = False
            for k, sub in shared.items():
                if _boundary_clash([t for (t, c, r, e) in exp], sub["spans"]):
                    clash = True
                for (t, c, r, e) in exp:
                    if any(a < t and (b is None or t < b) for a, b in sub["spans"]):
                        want[(c, r, e)] += 1
            got = collections.Counter(shared_log)
            if not clash and got != want:
                diff = {str(k)[:120]: (got.get(k, 0), want.get(k, 0)) for k in set(got) | set(want) if got.get(k, 0) != want.get(k, 0)}
                out.append(("C20:tridonic:shared-callback-registrations", "%d registrations of one callback function: (got, expected) "
                            "deliveries differ for %r" % (len(shared), dict(list(diff.items())[:3]))))
        return out
    if drv == "hasseb":
        exp = []
        for ci, (cspec, rec) in enumerate(zip(case["callers"], obs["callers"])):
            for c in cspec["cmds"]:
                cmd = sc.build_cmd(c)
                exp.append(cmd)
        return compare_hasseb(exp, {k: v for k, v in subs.items() if not v.get("unjudged")}, obs, case)
    return compare_serial(drv, case, subs, obs, dmap)


_BLOCKS = []      # [(from, to)] virtual-time windows in which the application kept the loop busy (set per case)


def _boundary_clash(times, spans):
    edges = [x for a, b in spans for x in (a, b) if x is not None]
    if any(lo - 1e-6 <= x <= hi + 0.25 for x in edges for lo, hi in _BLOCKS):
        return True       # (un)subscribed while the loop was busy or catching up: what was pending then is not judged
    return any(abs(t - x) < 1e-6 for t in times for x in edges)


def compare_callbacks(drv, exp, subs, obs):
    out = []
    for k, sub in sorted(subs.items()):
        if _boundary_clash([t for (t, c, r, e) in exp], sub["spans"]):
            continue      # a report issued at the very instant of a (un)subscription: order undefined, not judged
        want = []
        for (t, c, r, e) in exp:
            if any(a < t and (b is None or t < b) for a, b in sub["spans"]):
                want.append((c, r, e))
        got = [(c, r, e) for (t, c, r, e) in sub["log"]]
        if got != want:
            # root cause classification: first difference
            n = min(len(got), len(want))
            i = next((j for j in range(n) if got[j] != want[j]), n)
            g = got[i] if i < len(got) else None
            w = want[i] if i < len(want) else None
            if g is None:
                kind = "report-missing"
            elif w is None:
                kind = "extra-report"
            elif g[0] != w[0]:
                kind = "wrong-command-or-context" if g[0].split("|")[1:3] == w[0].split("|")[1:3] else "wrong-order-or-duplicate"
            elif g[1] != w[1]:
                kind = "wrong-response-pairing"
            else:
                kind = "wrong-error-flag"
            out.append(("C20:%s:%s" % (drv, kind), "subscriber %d (subscribed %r): report %d is %r, reference watcher expects %r; "
                        "got %d reports, expected %d" % (k, [(round(a - 1000, 3), b and round(b - 1000, 3)) for a, b in sub["spans"]],
                                                          i, g, w, len(got), len(want))))
            break
    return out


def compare_hasseb(exp_cmds, subs, obs, case):
    out = []
    # own commands (incl. the ENABLE DEVICE TYPE prefix) are reported once each, in wire order
    wire = [w for w in obs["wire"] if w["kind"] == "send"]
    for k, sub in sorted(subs.items()):
        if sub["spans"] != [[sub["spans"][0][0], None]] or sub["spans"][0][0] > 1000.0:
            continue        # only subscribers present from the start are judged for hasseb
        got = [c.split("|")[1:3] for (t, c, r, e) in sub["log"]]
        want = [[str(w["bits"]), "%#x" % w["value"]] for w in wire]
        if got != want:
            out.append(("C20:hasseb:own-traffic-report", "subscriber %d saw %r, wire order was %r" % (k, got, want)))
            continue
        # each own command is reported as good, together with what its caller was told (None for a command without answer)
        frame_oc = {}
        for cspec in case["callers"]:
            for c in cspec["cmds"]:
                cmd = sc.build_cmd(c)
                frame_oc["%d|%#x" % (len(cmd.frame), cmd.frame.as_integer)] = (cmd, tuple(c.get("oc", ("silent",))))
        from dali import frame as _frame
        for (t, c, r, e) in sub["log"]:
            key = "|".join(c.split("|")[1:3])
            if e:
                out.append(("C20:hasseb:own-command-reported-as-failed", "subscriber %d: %s reported with the error flag set" % (k, c)))
                break
            if key in frame_oc:
                cmd, oc = frame_oc[key]
                if cmd.response is None:
                    want_r = None
                else:
                    bf = None if oc[0] == "silent" else _frame.BackwardFrame(oc[1]) if oc[0] == "value" else _frame.BackwardFrameError(oc[1] if len(oc) > 1 else 0)
                    want_r = resp_fp(cmd.response(bf))
                if (r is None) != (want_r is None) or (r is not None and want_r is not None and r.split("|")[0] != want_r.split("|")[0]) or \
                        (oc[0] in ("silent", "value") and r != want_r):
                    out.append(("C20:hasseb:own-command-reported-with-wrong-response", "subscriber %d: %s reported with %r, its caller "
                                "was told %r" % (k, c, r, want_r)))
                    break
    return out


def compare_serial(drv, case, subs, obs, dmap):
    command, frame = _load()
    out = []
    # reference: observed forward frames in delivery order, decoded with the immediately preceding EDT's type
    dfr = RW.luba_deframe if drv == "luba" else RW.sci_deframe
    exp = []
    dt = 0
    # the reference deframes the whole byte stream (a frame may span several reads); a frame is timed by the
    # read that completed it
    stream = b""
    seen = 0
    timed = []
    for (t, chunk) in obs["delivered"]:
        stream += bytes(chunk)
        allobs = dfr(stream)["observed"]
        for fb in allobs[seen:]:
            timed.append((t, fb))
        seen = len(allobs)
    for (t, fb) in timed:
        for fb in [fb]:
            bits = 8 * len(fb)
            value = int.from_bytes(bytes(fb), "big")
            cmd = command.from_frame(frame.ForwardFrame(bits, value), devicetype=dt, dev_inst_map=dmap)
            exp.append((t, cmd_fp(cmd)))
            dt = (value & 0xFF) if (bits == 16 and type(cmd).__name__ == "EnableDeviceType") else 0
    for k, sub in sorted(subs.items()):
        if _boundary_clash([t for (t, c) in exp], sub["spans"]):
            continue
        want = [c for (t, c) in exp if any(a < t and (b is None or t < b) for a, b in sub["spans"])]
        got = [c for (t, c, r, e) in sub["log"]]
        if got != want:
            n = min(len(got), len(want))
            i = next((j for j in range(n) if got[j] != want[j]), n)
            g = got[i] if i < len(got) else None
            w = want[i] if i < len(want) else None
            kind = "frame-missing" if g is None else "extra-frame" if w is None else \
                "wrong-context" if g.split("|")[1:3] == w.split("|")[1:3] else "wrong-order-or-duplicate"
            out.append(("C20:%s:%s" % (drv, kind), "queue %d: item %d is %r, expected %r (got %d, expected %d)"
                        % (k, i, g, w, len(got), len(want))))
            break
    return out


# --------------------------------------------------------------- strategies ----
PLAIN16 = [0x0105, 0xFE80, 0x0300, 0xFF06, 0x85A0 & 0xFFFF]            # DAPC / Off / ... (no answer, not twice)
QUERY16 = [0x01A0, 0x0390, 0xFF91, 0x0599, 0x07C0]                     # QueryActualLevel, QueryStatus, Present, DT, groups
TWICE16 = [0x0120, 0xFF2A, 0x0340 | 5, 0xA500, 0xA700, 0x0580]         # Reset, SetMax, SetScene, Initialise, Randomise, SetShort
DTEXT = [(6, 0x01E0), (8, 0xFFE2), (8, 0x03FA), (1, 0x05E0), (8, 0x01F2)]  # (device type, extended command)
F24 = [0xFFFE00 | 0x1D, 0x01FE30, 0xC13005, 0x03FE00 | 0x35, 0x010800 | 0x8D, 0xC10000]
EVENTS = [0x028401, 0x068402, 0x800405, 0x860C03, 0xC20400 | 9, 0x02900A, 0x040C05]
UNKNOWN = [(16, 0xCB00), (16, 0xA001 & 0xFFFF), (24, 0x01FEF0), (24, 0xE1FE00)]


@st.composite
def transaction(draw):
    """One bus transaction by another master: list of (dt_offset, kind, bits, value)."""
    k = draw(st.sampled_from(["plain", "query+answer", "query+silence", "query+error", "twice", "once", "interrupted",
                              "twice+backward", "twice+noise+again", "twice-other-length", "dt+ext", "dt-alone", "f24", "event", "unknown", "stray-backward", "busok"]))
    small = draw(st.sampled_from([0.012, 0.02, 0.05, 0.1]))
    if k == "plain":
        return [(0, "forward", 16, draw(st.sampled_from(PLAIN16)))]
    if k.startswith("query"):
        q = draw(st.sampled_from(QUERY16 + [0x01FE30, 0xFFFE00 | 0x35, 0x03028B, 0x03028B]))   # ... QueryEventScheme (enumerated answer)
        bits = 24 if q > 0xFFFF else 16
        t = [(0, "forward", bits, q)]
        if k == "query+answer":
            t.append((small, "backward", 8, draw(st.integers(0, 255))))
        elif k == "query+error":
            t.append((small, "error", 8, 0))
        return t
    if k == "twice-other-length":
        # the "repeat" has the same numeric value but another frame length: not a repeat
        c = draw(st.sampled_from(TWICE16))
        return [(0, "forward", 16, c), (small, "forward", 24, c)] if draw(st.booleans()) else \
            [(0, "forward", 24, c), (small, "forward", 16, c)]
    if k == "twice+noise+again":
        # the repeat is replaced by a backward frame (intact or garbled); the same forward frame follows once more
        c = draw(st.sampled_from(TWICE16 + [0xFFFE1D]))
        bits = 24 if c > 0xFFFF else 16
        noise = (small, "error", 8, 0) if draw(st.booleans()) else (small, "backward", 8, draw(st.integers(0, 255)))
        t = [(0, "forward", bits, c), noise, (2 * small, "forward", bits, c)]
        if draw(st.booleans()):
            t.append((3 * small, "forward", bits, c))
        return t
    if k in ("twice", "once", "interrupted", "twice+backward"):
        c = draw(st.sampled_from(TWICE16 + [0xFFFE1D]))
        bits = 24 if c > 0xFFFF else 16
        t = [(0, "forward", bits, c)]
        if k == "twice":
            t.append((small, "forward", bits, c))
        elif k == "interrupted":
            t.append((small, "forward", 16, draw(st.sampled_from(PLAIN16 + QUERY16 + TWICE16))))
        elif k == "twice+backward":
            t.append((small, "backward", 8, draw(st.integers(0, 255))))
        return t
    if k == "dt+ext" and draw(st.integers(0, 4)) == 0:
        # something else is on the bus between the announcement and the extended opcode: the announcement is spent
        dt, ext = draw(st.sampled_from(DTEXT))
        return [(0, "forward", 16, 0xC100 | dt), (small, "forward", 16, draw(st.sampled_from([0x0105, 0xFE80, 0x0300]))),
                (2 * small, "forward", 16, ext)]
    if k == "dt+ext":
        dt, ext = draw(st.sampled_from(DTEXT))
        if draw(st.integers(0, 3)) == 0:
            # an application-extended query with an enumerated answer (QUERY ASSIGNED COLOUR), any answer byte
            return [(0, "forward", 16, 0xC108), (small, "forward", 16, 0x03FC), (2 * small, "backward", 8, draw(st.integers(0, 255)))]
        mid = draw(st.sampled_from(["none", "none", "backward", "error", "damaged"]))
        if mid == "none":
            return [(0, "forward", 16, 0xC100 | dt), (small, "forward", 16, ext)]
        # something that is no forward frame shows up between the announcement and the extended opcode (a stray
        # backward frame, a collision, a gateway packet damaged on the serial line): the announcement still stands
        between = {"backward": (small, "backward", 8, draw(st.integers(0, 255))), "error": (small, "error", 8, 0),
                   "damaged": (small, "damaged", 0, draw(st.integers(1, 255)))}[mid]
        return [(0, "forward", 16, 0xC100 | dt), between, (2 * small, "forward", 16, ext)]
    if k == "dt-alone":
        return [(0, "forward", 16, 0xC100 | draw(st.sampled_from([1, 6, 8])))]
    if k == "f24":
        return [(0, "forward", 24, draw(st.sampled_from(F24)))]
    if k == "event":
        return [(0, "forward", 24, draw(st.sampled_from(EVENTS)))]
    if k == "unknown":
        b, v = draw(st.sampled_from(UNKNOWN))
        return [(0, "forward", b, v)]
    if k == "stray-backward":
        return [(0, "backward", 8, draw(st.integers(0, 255)))]
    return [(0, "busok", 0, 0)]


@st.composite
def case_strategy(draw, driver=None):
    drv = driver or draw(st.sampled_from(["tridonic", "tridonic", "luba", "sci", "hasseb"]))
    inject = []
    callers = []
    events = []
    t = 0.05
    n = draw(st.integers(1, 8))
    own_pool = ["dapc", "qlevel", "reset", "dtcmd", "dtquery", "qpresent"]
    for i in range(n):
        if drv != "hasseb":
            tr = draw(transaction())
            as_own = drv == "tridonic" and draw(st.integers(0, 4)) == 0
            if drv in ("luba", "sci"):
                tr = [x for x in tr if x[1] in ("forward", "backward", "damaged")]
            else:
                tr = [x for x in tr if x[1] != "damaged"]
            own_one = draw(st.integers(0, len(tr) - 1)) if (drv == "tridonic" and len(tr) >= 2 and draw(st.integers(0, 5)) == 0) else None
            for j_, (dt_, kind, bits, value) in enumerate(tr):
                d = {"t": round(t + dt_, 4), "kind": kind if kind != "busok" else "busok", "bits": bits, "value": value}
                if drv == "tridonic":
                    if as_own or (own_one == j_ and kind == "forward"):
                        # DALI USB firmware quirk documented in hid.py: a foreign frame identical to the interface's most
                        # recent transmission is reported as if it were its own (mode 0x12, stale sequence number)
                        d["as_own"] = True
                        d["seq"] = 0xEE
                    inject.append(d)
                elif kind == "forward":
                    inject.append(d)
                elif kind in ("backward", "damaged"):
                    inject.append(d)
            if drv == "tridonic" and len(tr) == 2 and tr[1][0] <= 0.1 and draw(st.integers(0, 5)) == 0:
                # the application keeps the loop busy across the watcher's deadline: the second report became readable
                # in time (tr[1][0] after the first) but is read late, together with the expired timer
                events.append({"t": round(t + tr[1][0] / 2, 5), "what": "block", "d": 0.3})
                t += 0.65      # nothing else on the bus until the watcher has caught up and its own (late) deadline is over
            t += max([x[0] for x in tr] + [0]) if tr else 0
        if draw(st.integers(0, 3)) == 0 or drv == "hasseb":
            # an own send in the gap after the transaction (the bus is idle)
            t += 0.31
            k = draw(st.sampled_from(own_pool))
            c = {"k": k, "a": 10 + i}
            if sc.build_cmd(c).response is not None:
                c["oc"] = ["value", draw(st.integers(0, 255))] if draw(st.booleans()) else ["silent"]
                if drv == "hasseb" and draw(st.integers(0, 3)) == 0:
                    c["oc"] = ["error", draw(st.sampled_from([0, 0x55, 0xFF]))]      # several units answered at once
            callers.append({"kind": "send", "cmds": [c], "t0": round(t, 4)})
            t += 0.2
            if drv in ("luba", "sci", "tridonic") and draw(st.integers(0, 2)) == 0:
                # another master sends the very command the driver has just sent itself
                cmd_ = sc.build_cmd(c)
                t += 0.31
                inject.append({"t": round(t, 4), "kind": "forward", "bits": len(cmd_.frame), "value": cmd_.frame.as_integer,
                               "same_as_own": True})
                if cmd_.sendtwice:
                    inject.append({"t": round(t + 0.02, 4), "kind": "forward", "bits": len(cmd_.frame), "value": cmd_.frame.as_integer})
                t += 0.31
        t += draw(st.sampled_from([0.03, 0.06, 0.1, 0.31, 0.5, 0.9]))
    if drv == "tridonic" and draw(st.integers(0, 3)) == 0:
        # the gateway is unplugged and comes back in the middle of the history.  The last frame seen on the old
        # connection leaves nothing pending (plain command or ENABLE DEVICE TYPE), nothing is in flight.
        t += 0.35
        last = draw(st.sampled_from([0xC108, 0xC106, 0xC101, 0xC108, 0x0105]))
        inject.append({"t": round(t, 4), "kind": "forward", "bits": 16, "value": last})
        t += 0.35
        events.append({"t": round(t, 4), "what": "lose", "notify": draw(st.booleans())})
        if not events[-1]["notify"]:
            events.append({"t": round(t + 0.05, 4), "what": "hup"})
        events.append({"t": round(t + 0.3, 4), "what": "restore"})
        lost = [e for e in events if e["what"] == "lose"][-1]
        t_open = t + (0.0 if lost["notify"] else 0.05) + 1.0      # noticed at once or at the hang-up; retry one interval later
        if draw(st.booleans()):
            # another master talks while the driver is still doing its version/serial handshake on the new connection
            if draw(st.booleans()):
                for off in draw(st.lists(st.sampled_from([0.0007, 0.0021, 0.0034, 0.0052, 0.0068, 0.0085]), min_size=1, max_size=3, unique=True)):
                    inject.append({"t": round(t_open + off, 5), "kind": "forward", "bits": 16,
                                   "value": draw(st.sampled_from([0x0105, 0xFE80, 0x0300, 0xFF06])), "during_handshake": True})
            else:
                # a whole transaction of another master: query and its answer / a configuration command and its repeat
                off = draw(st.sampled_from([0.0007, 0.0021, 0.0034, 0.0052]))
                if draw(st.booleans()):
                    inject.append({"t": round(t_open + off, 5), "kind": "forward", "bits": 16, "value": draw(st.sampled_from(QUERY16)),
                                   "during_handshake": True})
                    inject.append({"t": round(t_open + off + 0.013, 5), "kind": "backward", "bits": 8, "value": draw(st.integers(0, 255))})
                else:
                    c = draw(st.sampled_from(TWICE16))
                    inject.append({"t": round(t_open + off, 5), "kind": "forward", "bits": 16, "value": c, "during_handshake": True})
                    inject.append({"t": round(t_open + off + 0.02, 5), "kind": "forward", "bits": 16, "value": c})
        t += 2.0           # reconnection attempt one interval (1 s) after the loss was noticed, then the handshake
        for j in range(draw(st.integers(1, 3))):
            dt_, ext = draw(st.sampled_from(DTEXT))
            if j == 0 or draw(st.booleans()):
                inject.append({"t": round(t, 4), "kind": "forward", "bits": 16, "value": ext})    # no announcement
            else:
                tr = [x for x in draw(transaction()) if x[1] != "damaged"]
                for (d_, kind, bits, value) in tr:
                    inject.append({"t": round(t + d_, 4), "kind": kind, "bits": bits, "value": value})
                t += max([x[0] for x in tr] + [0])
            t += draw(st.sampled_from([0.05, 0.31, 0.5]))
    if drv in ("luba", "sci") and draw(st.integers(0, 2)) == 0:
        fw = [x for x in inject if x["kind"] == "forward"]
        if fw:
            # one observed frame reaches the host in two reads, and the program starts a transmission in between
            x = draw(st.sampled_from(fw))
            gap = draw(st.sampled_from([0.002, 0.006, 0.012]))
            x["split"] = [draw(st.integers(1, 6)), gap]
            if not any(abs(c["t0"] - x["t"]) < 0.5 for c in callers):
                k = draw(st.sampled_from(["dapc", "qlevel", "reset"]))
                c = {"k": k, "a": 40}
                if k == "qlevel":
                    c["oc"] = ["value", 0x33]
                callers.append({"kind": "send", "cmds": [c], "t0": round(x["t"] + gap / 2, 5)})
    if drv in ("luba", "sci") and draw(st.integers(0, 7)) == 0:
        # a busy line and a listener that is slow to read its queue: 150 more observed frames in a row (queues are
        # read out by the harness only at the end)
        for j in range(150):
            inject.append({"t": round(t + 0.02 * j, 4), "kind": "forward", "bits": 16, "value": PLAIN16[j % 4] if j % 5 else (0x0200 | (j & 0xFF))})
        t += 0.02 * 150 + 0.1
    # subscribers: some from the start, some joining / leaving at odd instants
    nsub = draw(st.integers(0, 3))
    for k in range(nsub):
        t_in = draw(st.sampled_from([-0.01, -0.01, 0.07131, 0.41773, 0.93917]))
        events.append({"t": t_in, "what": "call", "op": "sub", "id": k})
        if drv in ("tridonic", "hasseb") and draw(st.integers(0, 4)) == 0:
            events[-1]["raises"] = draw(st.integers(1, 3))      # this subscriber's callback fails on every m-th report
        elif drv in ("tridonic", "hasseb") and draw(st.integers(0, 3)) == 0:
            events[-1]["drop_handle"] = True
            continue
        elif drv in ("tridonic", "hasseb") and draw(st.integers(0, 3)) == 0:
            events[-1]["oneshot"] = True
            continue
        elif drv == "tridonic" and k >= 1 and draw(st.integers(0, 2)) == 0:
            events[-1]["shared"] = True
            if draw(st.booleans()):
                events.append({"t": t_in, "what": "call", "op": "sub", "id": k + 10, "shared": True})
        if draw(st.integers(0, 2)) == 0:
            events.append({"t": round(max(t_in, 0) + draw(st.sampled_from([0.13771, 0.55133, 1.21777, 2.03911])), 5), "what": "call", "op": "unsub", "id": k})
            if draw(st.booleans()):
                events.append({"t": round(max(t_in, 0) + 2.77139, 5), "what": "call", "op": "sub", "id": k})
    case = {"driver": drv, "callers": callers, "inject": inject, "events": events, "lat": draw(st.lists(st.floats(0, 0.999), max_size=10)),
            "tie": True, "drain_virtual": 5.0, "horizon": round(t + 1.0, 3),
            "map": draw(st.sampled_from([[], [[1, 1, 1], [3, 3, 3]], [[1, 1, 4], [2, 4, 1], [3, 3, 1]]]))}
    if drv != "hasseb":
        # events of the very instances the table names (so that the table matters), any event data
        for (s_, i_, t_) in case["map"]:
            if draw(st.booleans()):
                t += 0.31
                inject.append({"t": round(t, 4), "kind": "forward", "bits": 24,
                               "value": (s_ << 17) | 0x8000 | (i_ << 10) | draw(st.sampled_from([0, 1, 2, 5, 9, 0x155, 0x3FF]))})
        case["horizon"] = round(t + 1.0, 3)
    if drv == "tridonic":
        case["seq0"] = draw(st.sampled_from([1, 77, 255]))
    return case


def features(case):
    f = ["driver:" + case["driver"]]
    kinds = [x["kind"] for x in case.get("inject", [])]
    if kinds.count("backward"):
        f.append("has:backward")
    if "error" in kinds:
        f.append("has:framing-error")
    if any(x["kind"] == "forward" and x["bits"] == 16 and (x["value"] >> 8) == 0xC1 for x in case.get("inject", [])):
        f.append("has:device-type-context")
    if any(x["kind"] == "forward" and x["bits"] == 24 and not (x["value"] >> 16) & 1 for x in case.get("inject", [])):
        f.append("has:event")
    if case["callers"]:
        f.append("has:own-send")
    if any(e.get("what") == "lose" for e in case.get("events", [])):
        f.append("device-lost-and-back-mid-history")
    if any(e.get("raises") for e in case.get("events", [])):
        f.append("subscriber-whose-callback-raises")
    if any(e.get("oneshot") for e in case.get("events", [])):
        f.append("subscriber-that-unregisters-itself-in-its-callback")
    if any(e.get("drop_handle") for e in case.get("events", [])):
        f.append("subscriber-that-does-not-keep-its-handle")
    if any(x.get("same_as_own") for x in case.get("inject", [])):
        f.append("other-master-repeats-the-drivers-own-command")
    if any(e.get("what") == "block" for e in case.get("events", [])):
        f.append("loop-kept-busy-across-a-watcher-deadline")
    if any(x.get("split") for x in case.get("inject", [])):
        f.append("observed-frame-split-over-two-reads-with-own-send-between")
    if any(x.get("during_handshake") for x in case.get("inject", [])):
        f.append("traffic-during-reconnect-handshake")
    if any(e.get("op") == "unsub" for e in case.get("events", [])):
        f.append("subscriber-leaves")
    if any(e.get("op") == "sub" and e["t"] > 0 for e in case.get("events", [])):
        f.append("subscriber-joins-late")
    f.append("subscribers:%d" % len(set(e["id"] for e in case.get("events", []) if e.get("op") == "sub")))
    return sorted(set(f))


def nontrivial(case):
    f = features(case)
    return len(case.get("inject", [])) >= 3 and any(x in f for x in ("has:device-type-context", "subscriber-leaves",
                                                                     "subscriber-joins-late", "has:backward", "has:own-send"))


def _shard(arg):
    driver, seed, n = arg
    res = Result()
    hyp.search(case_strategy(driver), run_case, res, n, seed, ID, nontrivial=nontrivial, classify=features)
    return res


def run(ctx):
    n = 900 if ctx.quick else 8000       # (900: the dimensions added over the rounds had diluted earlier catches at 300)
    drivers = ["tridonic"] * 8 + ["luba"] * 3 + ["sci"] * 3 + ["hasseb"] * 2
    ctx.pmap(_shard, [(drivers[k], ctx.seed * 1000 + k, n) for k in range(16)])
