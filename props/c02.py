"""C02 - every constructible command or event decodes back to itself; illegal arguments are rejected.

Generator: every concrete class in Command._commands (discovered at run time) x its legal argument
space, described as JSON (class path + abstract destination / instance byte / parameters / event keywords).
Thorough tier: complete products; quick tier: every class x a seeded sample that always contains the
boundaries.  Illegal arguments: one legal tuple per class, mutated at each argument position with each
member of that position's illegal pool.

Oracle: type(decoded) is type(constructed); destination, parameters, instance, event fields and str() equal;
for illegal arguments the constructor must raise (any exception) - returning an object is the violation.
"""
import importlib
import itertools

import os

from harness.runner import Result, library_frame

ID = "C02"
LEVEL = "exploration"
RULE = ("(class, canonical legal argument tuple) pairs - complete product in the thorough tier, seeded sample incl. "
        "boundaries in the quick tier; every legal case is non-trivial and distinct by construction; illegal cases = "
        "(class, argument position, illegal value) and are counted in the histogram")
ASSUMPTIONS = [
    "ReservedInstance(b) is not a constructor input (the property quantifies over the 196 legal instance bytes); "
    "Device() (0xFE) on an instance command is the stated exclusion",
    "bool arguments are ints in Python and are not counted as illegal",
    "OccupancyEvent integer data above 15 and unknown sensor_type strings are not among the ranges the statement lists "
    "and are not demanded to raise",
    "an Instance object passed as destination is not 'an address of the wrong kind' in the statement's sense and is not tested",
]

MODULES = ["dali.gear.general", "dali.gear.led", "dali.gear.emergency", "dali.gear.incandescent",
           "dali.gear.converter", "dali.gear.colour", "dali.device.general", "dali.device.pushbutton",
           "dali.device.occupancy", "dali.device.light"]


def _load():
    for m in MODULES:
        importlib.import_module(m)
    import dali.device.helpers  # noqa
    from dali import command, frame, address
    return command, frame, address


def class_by_path(path):
    mod, name = path.rsplit(".", 1)
    return getattr(importlib.import_module(mod), name, None)


def kind_of(c):
    """Constructor family of a concrete command class (by the class that defines __init__)."""
    for k in c.__mro__:
        if "__init__" in k.__dict__:
            return k.__name__
    return "?"


# ---------------------------------------------------- argument builders ----
def build_dest(address, d):
    k = d[0]
    if k == "int":
        return d[1]
    if k == "gshort":
        return address.GearShort(d[1])
    if k == "ggroup":
        return address.GearGroup(d[1])
    if k == "gbcast":
        return address.GearBroadcast()
    if k == "gunaddr":
        return address.GearBroadcastUnaddressed()
    if k == "dshort":
        return address.DeviceShort(d[1])
    if k == "dgroup":
        return address.DeviceGroup(d[1])
    if k == "dbcast":
        return address.DeviceBroadcast()
    if k == "dunaddr":
        return address.DeviceBroadcastUnaddressed()
    if k in ("gobj", "dobj"):     # a bus-device-like object carrying its address in .address_obj
        class _Dev:
            pass
        o = _Dev()
        o.address_obj = address.GearShort(d[1]) if k == "gobj" else address.DeviceShort(d[1])
        return o
    if k == "raw":      # illegal-pool values
        return {"none": None, "float": 1.5, "str": "5", "bytes": b"\x05", "baseaddr": address.Address()}.get(d[1], d[1])
    if k == "num":
        return lookalike(d)
    if k == "renum":
        # an address object built with a legal number whose public number attribute was changed afterwards
        _, kind, legal, now = d
        o = build_dest(address, [kind, legal])
        setattr(o, "group" if kind in ("ggroup", "dgroup") else "address", now)
        return o
    raise ValueError(d)


def lookalike(d):
    """["num", kind, n]: a value that compares (and hashes) equal to the int n but is not an int."""
    import decimal
    import fractions
    _, kind, n = d
    return {"float": float, "fraction": fractions.Fraction, "decimal": decimal.Decimal,
            "complex": complex}[kind](n)


def legal_twin(case):
    """The same case with every numeric look-alike replaced by the int it equals (None if there is none)."""
    found = []

    def rep(v, dest=False):
        if isinstance(v, list) and len(v) == 3 and v[0] == "num":
            found.append(v)
            return ["int", v[2]] if dest else v[2]
        if isinstance(v, list):
            return [rep(x) for x in v]
        if isinstance(v, dict):
            return {k: rep(x) for k, x in v.items()}
        return v
    out = {k: (rep(v, dest=(k == "dest")) if k != "illegal" else None) for k, v in case.items()}
    out.pop("illegal")
    return out if found else None


def unraw(v):
    return lookalike(v) if isinstance(v, list) and len(v) == 3 and v[0] == "num" else v


class _MyInt(int):
    """an int subclass of the application's own (a validated scene number, a numpy-like scalar)"""


def num(case, v):
    """A numeric constructor argument in the form the case names: case["intform"] = "intenum" hands a plain int over as
    the member of an enum.IntEnum (a program's named scenes / groups / levels), "intsub" as an int subclass."""
    v = unraw(v)
    form = case.get("intform")
    if form and isinstance(v, int) and not isinstance(v, bool):
        if form == "intenum":
            import enum
            return enum.IntEnum("Named", {"MEMBER": v}).MEMBER
        if form == "intsub":
            return _MyInt(v)
    return v


LOOKALIKES = [("float-integral", "float"), ("fraction", "fraction"), ("decimal", "decimal"), ("complex", "complex")]


def bad_ints(top):
    """Out-of-range integers for a field whose legal values are 0..top: both sides, the neighbouring powers of
    two and the byte-sized values that have a meaning elsewhere in the protocol (MASK 255, 254, 127/128)."""
    pool = [("neg", -1), ("neg-2", -2), ("neg-byte", -256), ("neg-big", -2 ** 31), ("above", top + 1), ("above+1", top + 2),
            ("x2-1", 2 * (top + 1) - 1), ("x2", 2 * (top + 1)), ("x4", 4 * (top + 1)), ("127", 127), ("128", 128),
            ("254", 254), ("255", 255), ("256", 256), ("257", 257), ("65535", 65535), ("big", 2 ** 31)]
    seen = set()
    for tag, v in pool:
        if (v < 0 or v > top) and v not in seen:
            seen.add(v)
            yield tag, v


def dest_equal(address, obj_dest, d):
    """Is obj_dest the address object d denotes?"""
    exp = build_dest(address, d)
    if isinstance(exp, int):
        exp = address.GearShort(exp)
    if hasattr(exp, "address_obj"):
        exp = exp.address_obj
    return type(obj_dest) is type(exp) and obj_dest == exp


INST_FLAGS = {0x00: "InstanceNumber", 0x80: "InstanceGroup", 0xC0: "InstanceType",
              0x20: "FeatureInstanceNumber", 0xA0: "FeatureInstanceGroup", 0x60: "FeatureInstanceType"}
INST_SPECIAL = {0xFC: "FeatureDevice", 0xFD: "FeatureInstanceBroadcast", 0xFE: "Device", 0xFF: "InstanceBroadcast"}
LEGAL_INSTANCE_BYTES = [b for b in range(256) if (b & 0xE0) in INST_FLAGS or b in INST_SPECIAL]   # 196
assert len(LEGAL_INSTANCE_BYTES) == 196


def build_instance(address, byte):
    if byte in INST_SPECIAL:
        return getattr(address, INST_SPECIAL[byte])()
    return getattr(address, INST_FLAGS[byte & 0xE0])(byte & 0x1F)


GEAR_DESTS = [["gshort", a] for a in range(64)] + [["ggroup", g] for g in range(16)] + [["gbcast"], ["gunaddr"]] + \
             [["int", a] for a in range(64)] + [["gobj", a] for a in (0, 1, 31, 62, 63)]
DEV_DESTS = [["dshort", a] for a in range(64)] + [["dgroup", g] for g in range(32)] + [["dbcast"], ["dunaddr"]] + \
            [["dobj", a] for a in (0, 63)]

SCHEMES = ["device", "device_instance", "device_group", "instance", "instance_group"]


def scheme_kwargs(scheme, a, b):
    """Event addressing keywords for a scheme; a, b are field values."""
    if scheme == "device":
        return {"short_address": a}
    if scheme == "device_instance":
        return {"short_address": a, "instance_number": b}
    if scheme == "device_group":
        return {"device_group": a}
    if scheme == "instance":
        return {"instance_number": b}
    if scheme == "instance_group":
        return {"instance_group": a}
    raise ValueError(scheme)


def scheme_fields(scheme):
    """Ranges of (a, b) for a scheme."""
    return {"device": (range(64), [None]), "device_instance": (range(64), range(32)),
            "device_group": (range(32), [None]), "instance": ([None], range(32)),
            "instance_group": (range(32), [None])}[scheme]


# -------------------------------------------------------------- run_case ----
def construct(case):
    command, frame, address = _load()
    cls = class_by_path(case["cls"])
    if cls is None:
        raise LookupError(case["cls"])
    fam = case["fam"]
    if fam == "_StandardCommand":
        return cls(build_dest(address, case["dest"]), *[num(case, x) for x in case.get("params", [])], **case.get("extra_kw", {}))
    if fam == "DAPC":
        return cls(build_dest(address, case["dest"]), num(case, case["power"]))
    if fam == "_SpecialCommand":
        return cls(*[num(case, x) for x in case.get("params", [])])
    if fam == "_ShortAddrSpecialCommand":
        return cls(num(case, case["address"]))
    if fam == "Initialise":
        return cls(**{k: num(case, v) for k, v in case["kw"].items()})
    if fam == "_StandardDeviceCommand":
        return cls(build_dest(address, case["dest"]))
    if fam == "_StandardInstanceCommand":
        inst = case["inst"]
        inst = build_instance(address, inst) if isinstance(inst, int) and not case.get("rawinst") else \
            build_dest(address, ["raw", inst]) if not isinstance(inst, list) else build_dest(address, inst)
        return cls(build_dest(address, case["dest"]), inst)
    if fam in ("_SpecialDeviceCommand", "_SpecialDeviceCommandOneParam", "_SpecialDeviceCommandTwoParam"):
        return cls(*[num(case, x) for x in case.get("params", [])])
    if fam in ("_Event", "UnknownEvent", "AmbiguousInstanceType"):
        kw = dict(case["kw"])
        if case.get("occ_tuple"):
            from dali.device.occupancy import OccupancyEvent
            # strings as a program gets them at run time (parsed, decoded, joined): equal to the documented
            # words but not the interned literals of anybody's source code
            kw["data"] = OccupancyEvent.EventData(*[bytes(x, "ascii").decode("ascii").lower() if isinstance(x, str) else x
                                                    for x in case["occ_tuple"]])
        for k, v in list(kw.items()):
            if isinstance(v, list) and v and v[0] in ("raw", "num"):
                kw[k] = build_dest(address, v)
            if isinstance(v, list) and v and v[0] == "dshort":
                kw[k] = address.DeviceShort(v[1])
            elif isinstance(v, list) and v and v[0] == "inst":
                kw[k] = build_instance(address, v[1])
            elif isinstance(v, list) and v and v[0] in ("dgroup", "dbcast", "dunaddr", "gshort", "ggroup", "gbcast", "gunaddr"):
                kw[k] = build_dest(address, v)
        return cls(**kw)
    raise ValueError(fam)


def construct_with_dest(case, dest_obj):
    """construct(case) with the given destination object instead of a freshly built one."""
    command, frame, address = _load()
    cls = class_by_path(case["cls"])
    fam = case["fam"]
    if fam == "_StandardCommand":
        return cls(dest_obj, *[unraw(x) for x in case.get("params", [])])
    if fam == "DAPC":
        return cls(dest_obj, unraw(case["power"]))
    if fam == "_StandardDeviceCommand":
        return cls(dest_obj)
    if fam == "_StandardInstanceCommand":
        return cls(dest_obj, build_instance(address, case["inst"]))
    raise ValueError(fam)


SCAN_ENDS = ("close", "throw", "drop", "complete", "close-then-clear")
SCAN_ADDRESSES = ([0, 3], 2, [[5, 9]], [63, 63])


def abandon_scan(dmap, spec):
    """A bus scan (autodiscover) was started on this mapper earlier and given up - nothing on the bus answered, the
    driver's run_sequence was cancelled (generator closed), the driver raised into it, or the generator was just
    dropped; "complete": it ran to its end with no answers.  Either way the mapper is the application's to fill by
    hand afterwards (expectation: add_type()/get_type() are documented without reference to any scan)."""
    steps, end, addresses = spec
    if isinstance(addresses, list) and len(addresses) == 2:
        addresses = tuple(addresses)
    elif isinstance(addresses, list):
        addresses = list(addresses[0])
    g = dmap.autodiscover(addresses) if steps % 2 else dmap.autodiscover(addresses=addresses)
    try:
        next(g)
        if end == "complete":
            for _ in range(1000):
                g.send(None)
            raise AssertionError("autodiscover with no answers does not end")
        for _ in range(steps - 1):
            g.send(None)
    except StopIteration:
        return
    if end in ("close", "close-then-clear"):
        g.close()
        if end == "close-then-clear":
            dmap.clear()
    elif end == "throw":
        try:
            g.throw(OSError("bus gone"))
        except (OSError, StopIteration):
            pass
    del g


EVENT_FIELDS = ("short_address", "instance_number", "instance_group", "device_group", "instance_type", "event_data")


def run_case(case):
    if case.get("fam") == "address":
        return address_ctor_case(case)
    command, frame, address = _load()
    cls = class_by_path(case["cls"])
    name = case["cls"].rsplit(".", 1)[1]
    if cls is None:
        return [("C02:class-missing:" + name, "%s no longer exists" % case["cls"])]
    if case.get("illegal"):
        tw = legal_twin(case)
        if tw is not None:
            # the int the look-alike equals has been used legally just before (a program that mixes both)
            try:
                construct(tw)
            except Exception:  # noqa - judged in the legal cases
                pass
        try:
            obj = construct(case)
        except Exception as e:  # noqa - any exception raised by the library is a rejection
            if library_frame(e.__traceback__) is None and not (
                    isinstance(e, TypeError) and str(case.get("illegal", "")).startswith(("surplus", "parameter-missing"))):
                raise   # raised by the harness itself: a harness bug, not a rejection
            return []      # (a TypeError for a wrong number of arguments is raised at the call itself)
        try:
            fr = "%#x" % obj.frame.as_integer
        except Exception:  # noqa
            fr = "?"
        return [("C02:illegal-accepted:%s:%s" % (case["fam"], case["illegal"]),
                 "%s accepted illegal argument (%s) and built frame %s" % (name, case["illegal"], fr))]
    where = "%s%s" % (name, {k: v for k, v in case.items() if k not in ("cls", "fam")})
    try:
        obj = construct(case)
    except Exception as e:  # noqa
        return [("C02:legal-construct-raised:%s:%s" % (name, type(e).__name__), "%s: %r" % (where, e))]
    out = []
    try:
        if "dest" in case and case["dest"][0] in ("gshort", "ggroup", "dshort", "dgroup") and case.get("sibling") is not None:
            # the caller keeps using ITS address object (walks it over the addresses while preparing a batch):
            # a command built earlier still carries the destination it was given
            twin = construct(case).frame
            d0 = build_dest(address, case["dest"])
            c2 = dict(case)
            late = construct_with_dest(c2, d0)
            fld = "group" if case["dest"][0] in ("ggroup", "dgroup") else "address"
            setattr(d0, fld, (getattr(d0, fld) + 1) % (16 if case["dest"][0] == "ggroup" else 32))
            lf = late.frame
            if (len(lf), lf.as_integer) != (len(twin), twin.as_integer):
                out.append(("C02:frame-follows-callers-address-object:" + case["fam"],
                            "%s: frame %#x after the caller renumbered its address object, %#x when built from a fresh one"
                            % (where, lf.as_integer, twin.as_integer)))
        if "dest" in case and case["dest"][0] == "int" and case.get("sibling") is not None:
            # the destination object a command hands out belongs to that command: renumbering it (the lamp was
            # re-addressed) does not touch commands built later for the same integer
            first = construct(case)
            want = (len(first.frame), first.frame.as_integer)
            try:
                first.destination.address = (case["dest"][1] + 1) % 64
            except Exception:  # noqa - read-only would be fine
                pass
            later = construct(case)
            if (len(later.frame), later.frame.as_integer) != want:
                out.append(("C02:integer-destination-shared-between-commands:" + case["fam"],
                            "%s: after the .destination of an earlier command for the same integer was renumbered, a new "
                            "command gets frame %#x instead of %#x" % (where, later.frame.as_integer, want[1])))
            try:
                first.destination.address = case["dest"][1]
            except Exception:  # noqa
                pass
        f = obj.frame
        if case.get("sibling"):
            # a second object of the same class is built while this one is still in use: each keeps its own frame
            before = (len(f), f.as_integer)
            sib = construct(dict(case["sibling"], cls=case["cls"], fam=case["fam"]))
            now = (len(obj.frame), obj.frame.as_integer)
            if now != before or (len(f), f.as_integer) != before:
                out.append(("C02:frame-changed-by-building-another-object:" + case["fam"],
                            "%s: frame was %#x, is %#x after %s was built" % (where, before[1], now[1], sib)))
            sf = sib.frame
            alone = construct(dict(case["sibling"], cls=case["cls"], fam=case["fam"])).frame
            if (len(sf), sf.as_integer) != (len(alone), alone.as_integer) or obj.frame.as_integer != before[1]:
                out.append(("C02:frame-changed-by-building-another-object:" + case["fam"],
                            "%s: sibling frame %#x vs %#x when built again" % (where, sf.as_integer, alone.as_integer)))
        dmap = None
        if "maptype" in case:
            from dali.device.helpers import DeviceInstanceTypeMapper
            dmap = DeviceInstanceTypeMapper()
            kw = case["kw"]
            sa = kw["short_address"]
            sa = sa[1] if isinstance(sa, list) else sa
            if case.get("map_preset"):
                # the map is preset through the constructor, our pair first among several
                inum = kw["instance_number"]
                preset = {(sa, inum): case["maptype"]}
                for k_, (s_, i_) in enumerate(case["map_preset"]):
                    if (s_, i_) != (sa, inum):
                        preset[(s_, i_)] = (case["maptype"] + 1 + k_) % 32
                dmap = DeviceInstanceTypeMapper(initial=preset)
            if case.get("map_scan"):
                abandon_scan(dmap, case["map_scan"])
            # a bus-wide map is kept up to date over time: the pair may have been recorded with another type before
            if not case.get("map_preset"):
                for prev in case.get("map_history", []):
                    dmap.add_type(short_address=sa, instance_number=kw["instance_number"], instance_type=prev)
                dmap.add_type(short_address=sa, instance_number=kw["instance_number"], instance_type=case["maptype"])
        dec = command.from_frame(frame.ForwardFrame(len(f), f.as_integer), devicetype=obj.devicetype, dev_inst_map=dmap)
    except Exception as e:  # noqa
        return [("C02:decode-raised:%s:%s" % (name, type(e).__name__), "%s: %r" % (where, e))]
    if type(dec) is not type(obj):
        return [("C02:decodes-to-other-class:" + name, "%s (frame %#x) decodes to %s: %s"
                 % (where, f.as_integer, type(dec).__name__, dec))]
    fam = case["fam"]
    try:
        if "dest" in case:
            if not dest_equal(address, obj.destination, case["dest"]):
                out.append(("C02:constructed-destination:" + fam, "%s: object holds %s" % (where, obj.destination)))
            if not (type(dec.destination) is type(obj.destination) and dec.destination == obj.destination):
                out.append(("C02:destination:" + fam, "%s: decoded destination %s" % (where, dec.destination)))
        for attr in ("param", "power", "address", "broadcast", "param_1", "param_2"):
            has_o, has_d = hasattr(obj, attr), hasattr(dec, attr)
            if has_o != has_d or (has_o and getattr(obj, attr) != getattr(dec, attr)):
                out.append(("C02:%s:%s" % (attr, fam), "%s: constructed %r decoded %r"
                            % (where, getattr(obj, attr, None), getattr(dec, attr, None))))
        if fam == "_StandardCommand" and case.get("params") and obj.param != case["params"][0]:
            out.append(("C02:constructed-param:" + fam, "%s: object holds param %r" % (where, obj.param)))
        if fam == "DAPC":
            exp = {"OFF": 0, "MASK": 255}.get(case["power"], case["power"])
            if obj.power != exp:
                out.append(("C02:constructed-power", "%s: object holds %r" % (where, obj.power)))
        if fam == "_StandardInstanceCommand":
            want = build_instance(address, case["inst"])
            if not (type(obj.instance) is type(want) and obj.instance == want):
                out.append(("C02:constructed-instance", "%s: object holds %s" % (where, obj.instance)))
            if not (type(dec.instance) is type(obj.instance) and dec.instance == obj.instance):
                out.append(("C02:instance:" + type(obj.instance).__name__, "%s: decoded instance %s" % (where, dec.instance)))
        if fam in ("_SpecialDeviceCommandOneParam",) and obj.param != case["params"][0]:
            out.append(("C02:constructed-param:" + fam, "%s: object holds %r" % (where, obj.param)))
        if fam == "_SpecialDeviceCommandTwoParam" and [obj.param_1, obj.param_2] != case["params"]:
            out.append(("C02:constructed-param:" + fam, "%s: object holds %r,%r" % (where, obj.param_1, obj.param_2)))
        if fam in ("_Event", "UnknownEvent", "AmbiguousInstanceType"):
            kw = case["kw"]
            for fld in EVENT_FIELDS:
                a, b = getattr(obj, fld), getattr(dec, fld)
                if fld == "short_address":
                    same = (a is None and b is None) or (a is not None and b is not None and a == b)
                else:
                    same = a == b
                if not same:
                    out.append(("C02:event-%s:%s" % (fld, name), "%s: constructed %r decoded %r" % (where, a, b)))
            # the object reports what it was given
            sa = kw.get("short_address")
            sa = sa[1] if isinstance(sa, list) else sa
            got_sa = obj.short_address.address if obj.short_address is not None else None
            if got_sa != sa or obj.instance_number != kw.get("instance_number") or \
                    obj.instance_group != kw.get("instance_group") or obj.device_group != kw.get("device_group"):
                out.append(("C02:constructed-event-fields:" + name, "%s: object reports sa=%r in=%r ig=%r dg=%r"
                            % (where, got_sa, obj.instance_number, obj.instance_group, obj.device_group)))
            if name == "LightEvent" and obj.illuminance != kw["data"]:
                out.append(("C02:constructed-event-data:LightEvent", "%s: illuminance %r" % (where, obj.illuminance)))
            if name == "OccupancyEvent":
                if case.get("occ_tuple"):
                    exp = tuple(case["occ_tuple"])
                else:
                    d = kw["data"]
                    exp = (bool(d & 1), bool(d & 2), bool(d & 4), "movement" if d & 8 else "presence")
                if tuple(obj.event_data) != exp:
                    out.append(("C02:constructed-event-data:OccupancyEvent", "%s: event_data %r expected %r"
                                % (where, tuple(obj.event_data), exp)))
            if name in ("UnknownEvent", "AmbiguousInstanceType") and obj.event_data != kw.get("data"):
                out.append(("C02:constructed-event-data:" + name, "%s: event_data %r" % (where, obj.event_data)))
            if name == "UnknownEvent" and obj.instance_type != kw.get("instance_type", 0):
                out.append(("C02:constructed-event-type:UnknownEvent", "%s: instance_type %r" % (where, obj.instance_type)))
        so, sd = str(obj), str(dec)
        if so != sd:
            out.append(("C02:str:" + fam, "%s: str %r vs decoded %r" % (where, so, sd)))
        # a copy of the object (copy.copy / copy.deepcopy / a pickle round trip, as a queue between processes makes) is
        # the same command: same class, same frame, same text
        if case.get("copies", (len(so) + obj.frame.as_integer) % 4 == 0) and not case.get("intform"):
            import copy
            import pickle
            for how, fn in (("copy.copy", copy.copy), ("copy.deepcopy", copy.deepcopy),
                            ("pickle round trip", lambda o: pickle.loads(pickle.dumps(o))),
                            ("pickle protocol 0 round trip", lambda o: pickle.loads(pickle.dumps(o, protocol=0))),
                            ("pickle protocol 2 round trip", lambda o: pickle.loads(pickle.dumps(o, protocol=2)))):
                try:
                    c = fn(obj)
                except Exception as e:  # noqa
                    out.append(("C02:copy-raised:%s:%s" % (fam, type(e).__name__), "%s: %s raised %r" % (where, how, e)))
                    break
                if type(c) is not type(obj) or len(c.frame) != len(obj.frame) or c.frame.as_integer != obj.frame.as_integer \
                        or str(c) != so:
                    out.append(("C02:copy-differs:" + fam, "%s: %s gives %s with frame %#x (%s), the original is %s with frame %#x (%s)"
                                % (where, how, type(c).__name__, c.frame.as_integer, c, type(obj).__name__, obj.frame.as_integer, so)))
                    break
    except Exception as e:  # noqa
        if library_frame(e.__traceback__) is None:
            raise
        out.append(("C02:attribute-raised:%s:%s" % (name, type(e).__name__), "%s: %r" % (where, e)))
    return out


# ---------------------------------------------------------- enumeration ----
def classes():
    command, frame, address = _load()
    out = []
    for c in command.Command._commands:
        if c.__name__.startswith("_"):
            continue            # an abstract helper class in the list of commands: reported by run(), not exercised
        out.append((c.__module__ + "." + c.__qualname__, kind_of(c), c))
    return out


def pick(seq, k, seed, always=()):
    """Deterministic sample of about k items of seq (always including the listed indices)."""
    seq = list(seq)
    if k is None or len(seq) <= k:
        return seq
    step = len(seq) / float(k)
    idx = sorted(set([int((i + (seed % 7) / 7.0) * step) % len(seq) for i in range(k)] +
                     [i % len(seq) for i in always] + [0, len(seq) - 1]))
    return [seq[i] for i in idx]


def legal_cases(path, fam, cls, quick, seed):
    """Yield legal case dicts for one class."""
    base = {"cls": path, "fam": fam}
    k = (lambda n: n) if quick else (lambda n: None)
    if fam == "_StandardCommand":
        for d in GEAR_DESTS:
            if cls._hasparam:
                for p in (pick(range(16), 6, seed, (0, 15)) if quick else range(16)):
                    yield dict(base, dest=d, params=[p])
            else:
                yield dict(base, dest=d)
    elif fam == "DAPC":
        for d in (pick(GEAR_DESTS, 40, seed, (63, 64, 79, 80, 81, 82)) if quick else GEAR_DESTS):
            for p in list(range(256)) + ["OFF", "MASK"]:
                yield dict(base, dest=d, power=p)
    elif fam == "_SpecialCommand":
        if cls._hasparam:
            for p in range(256):
                yield dict(base, params=[p])
        else:
            yield dict(base)
    elif fam == "_ShortAddrSpecialCommand":
        for a in list(range(64)) + ["MASK"]:
            yield dict(base, address=a)
    elif fam == "Initialise":
        yield dict(base, kw={"broadcast": True})
        yield dict(base, kw={"broadcast": False})
        yield dict(base, kw={})
        yield dict(base, kw={"broadcast": False, "address": None})
        for a in range(64):
            yield dict(base, kw={"address": a})
            yield dict(base, kw={"broadcast": False, "address": a})
    elif fam == "_StandardDeviceCommand":
        for d in DEV_DESTS:
            yield dict(base, dest=d)
    elif fam == "_StandardInstanceCommand":
        insts = [b for b in LEGAL_INSTANCE_BYTES if b != 0xFE]
        if quick:
            dests = pick(DEV_DESTS, 12, seed, (0, 63, 64, 95, 96, 97))
            insts = pick(insts, 40, seed, (0, 31, 32, 63, 64, 95, 96, 127, 128, 159, 160, 191, 192, 193, 194))
        else:
            dests = DEV_DESTS
        for d in dests:
            for b in insts:
                yield dict(base, dest=d, inst=b)
    elif fam == "_SpecialDeviceCommand":
        yield dict(base)
    elif fam == "_SpecialDeviceCommandOneParam":
        for p in range(256):
            yield dict(base, params=[p])
    elif fam == "_SpecialDeviceCommandTwoParam":
        A = pick(range(256), 24, seed, (0, 1, 127, 128, 254, 255)) if quick else range(256)
        for a in A:
            for b in (pick(range(256), 24, seed + 1, (0, 1, 127, 128, 254, 255)) if quick else range(256)):
                yield dict(base, params=[a, b])
    elif fam in ("_Event", "UnknownEvent", "AmbiguousInstanceType"):
        name = cls.__name__
        for case in event_cases(base, name, cls, quick, seed):
            yield case
    elif fam == "Command":
        return   # UnknownGearCommand / UnknownDeviceCommand are built from frames, not arguments (covered by C01)
    else:
        raise ValueError("unknown constructor family %s for %s" % (fam, path))


def event_cases(base, name, cls, quick, seed):
    def addressing(scheme_list=SCHEMES, dense=True):
        for scheme in scheme_list:
            A, B = scheme_fields(scheme)
            if quick or not dense:
                A = pick(A, 6, seed, (0, 1, 31, 62, 63))
                B = pick(B, 5, seed, (0, 1, 30, 31))
            for a in A:
                for b in B:
                    yield scheme, scheme_kwargs(scheme, a, b)

    if name == "AmbiguousInstanceType":
        for scheme, kw in addressing(["device_instance"]):
            for data in (pick(range(1024), 20, seed, (0, 1, 1022, 1023)) if quick else pick(range(1024), 128, seed)):
                yield dict(base, kw=dict(kw, data=data))
        return
    if name == "UnknownEvent":
        implemented = {1: [3, 10, 16, 1023, 512], 3: [16, 17, 1023, 0x3F0, 32]}   # data invalid for the type
        types = [0, 2, 5, 6, 17, 30, 31]
        for scheme, kw in addressing(dense=False):
            datas = pick(range(1024), 12, seed, (0, 1, 1022, 1023))
            for t in types:
                for data in datas:
                    c = dict(base, kw=dict(kw, instance_type=t, data=data))
                    if scheme == "device_instance":
                        c["maptype"] = t
                    yield c
            for t, ds in implemented.items():
                for data in ds:
                    c = dict(base, kw=dict(kw, instance_type=t, data=data))
                    if scheme == "device_instance":
                        c["maptype"] = t
                    yield c
        return
    itype = cls._instance_type
    for scheme, kw in addressing():
        extra = {"maptype": itype} if scheme == "device_instance" else {}
        if name == "OccupancyEvent":
            for d in range(16):
                yield dict(base, kw=dict(kw, data=d), **extra)
                tup = [bool(d & 1), bool(d & 2), bool(d & 4), "movement" if d & 8 else "presence"]
                yield dict(base, kw=dict(kw), occ_tuple=tup, **extra)
        elif name == "LightEvent":
            datas = pick(range(1024), 16, seed, (0, 1, 511, 512, 1022, 1023)) if quick else \
                (range(1024) if scheme != "device_instance" else pick(range(1024), 64, seed, (0, 1023)))
            for d in datas:
                yield dict(base, kw=dict(kw, data=d), **extra)
        else:   # push-button events: the event information is fixed by the class
            yield dict(base, kw=dict(kw), **extra)
            # ... the shared 'data' keyword is accepted and has no say (whatever value is passed)
            for d in (0, 1, 2, 5, 9, 11, 1023):
                if (d + kw.get("short_address", 0) if isinstance(kw.get("short_address", 0), int) else d) % 3 == 0 or d in (0, 1):
                    yield dict(base, kw=dict(kw, data=d), pb_data=True, **extra)
            if scheme == "device":
                yield dict(base, kw=dict(kw, short_address=["dshort", kw["short_address"]]), **extra)


ILL_INT = [("neg", -1), ("big", 2 ** 31), ("none", ["raw", "none"]), ("float", ["raw", "float"]),
           ("str", ["raw", "str"]), ("bytes", ["raw", "bytes"])]


def illegal_cases(path, fam, cls):
    base = {"cls": path, "fam": fam}

    def raw(v):
        return v

    if fam in ("_StandardCommand", "DAPC"):
        legal = dict(base, dest=["gshort", 5])
        if fam == "DAPC":
            legal["power"] = 100
        elif cls._hasparam:
            legal["params"] = [3]
        for tag, v in [("int-" + t, ["int", x]) for t, x in bad_ints(63)] + \
                      [(t, ["num", k, 5]) for t, k in LOOKALIKES] + [
                       ("none", ["raw", "none"]), ("float", ["raw", "float"]), ("str", ["raw", "str"]),
                       ("bytes", ["raw", "bytes"]), ("device-short", ["dshort", 5]), ("device-group", ["dgroup", 5]),
                       ("device-broadcast", ["dbcast"]), ("device-unaddressed", ["dunaddr"]), ("base-address", ["raw", "baseaddr"])]:
            yield dict(legal, dest=v, illegal="destination:" + tag)
        for kind_, top_ in (("gshort", 63), ("ggroup", 15)):
            for tag, x in bad_ints(top_):
                yield dict(legal, dest=["renum", kind_, 5, x], illegal="destination:%s-renumbered-%s" % (kind_, tag))
        if fam == "_StandardCommand":
            # surplus arguments: a second positional one for a command without parameter, a third for one with,
            # unknown keywords
            n_ok = 1 if cls._hasparam else 0
            for extra in (0, 1, 3, 15, 0x90, None):
                yield dict(legal, params=[3] * n_ok + [extra], illegal="surplus-positional:%r" % (extra,))
            for kwname in ("param", "address", "devicetype", "power"):
                yield dict(legal, extra_kw={kwname: 3}, illegal="surplus-keyword:" + kwname)
            if cls._hasparam:
                yield dict(legal, params=[], illegal="parameter-missing")
        if fam == "DAPC":
            for tag, v in list(bad_ints(255)) + [("none", None), ("float", 1.5), ("str", "5"), ("other-str", "ON")] + \
                    [(t, ["num", k, 100]) for t, k in LOOKALIKES]:
                yield dict(legal, power=v, illegal="power:" + tag)
        elif cls._hasparam:
            for tag, v in list(bad_ints(15)) + [("none", None), ("float", 1.5), ("str", "5")] + \
                    [(t, ["num", k, 3]) for t, k in LOOKALIKES]:
                yield dict(legal, params=[v], illegal="param:" + tag)
    elif fam == "_SpecialCommand" and cls._hasparam:
        for tag, v in list(bad_ints(255)) + [("none", None), ("float", 1.5), ("str", "5"), ("bytes", b"\x05")] + \
                [(t, ["num", k, 5]) for t, k in LOOKALIKES]:
            yield dict(base, params=[v if not isinstance(v, bytes) else "\x05"], illegal="param:" + tag)
    elif fam == "_ShortAddrSpecialCommand":
        for tag, v in list(bad_ints(63)) + [("none", None), ("float", 1.5), ("str", "5"), ("other-str", "mask")] + \
                [(t, ["num", k, 5]) for t, k in LOOKALIKES]:
            yield dict(base, address=v, illegal="address:" + tag)
    elif fam == "Initialise":
        for tag, v in list(bad_ints(63)) + [("float", 1.5), ("str", "5")] + [(t, ["num", k, 5]) for t, k in LOOKALIKES]:
            yield dict(base, kw={"address": v}, illegal="address:" + tag)
        yield dict(base, kw={"broadcast": True, "address": 5}, illegal="address-with-broadcast")
    elif fam in ("_StandardDeviceCommand", "_StandardInstanceCommand"):
        legal = dict(base, dest=["dshort", 5])
        if fam == "_StandardInstanceCommand":
            legal["inst"] = 3
        for tag, v in [("int", ["int", 5]), ("int-neg", ["int", -1]), ("none", ["raw", "none"]), ("float", ["raw", "float"]),
                       ("str", ["raw", "str"]), ("gear-short", ["gshort", 5]), ("gear-group", ["ggroup", 5]),
                       ("gear-broadcast", ["gbcast"]), ("gear-unaddressed", ["gunaddr"]), ("base-address", ["raw", "baseaddr"])]:
            yield dict(legal, dest=v, illegal="destination:" + tag)
        for kind_, top_ in (("dshort", 63), ("dgroup", 31)):
            for tag, x in bad_ints(top_):
                yield dict(legal, dest=["renum", kind_, 5, x], illegal="destination:%s-renumbered-%s" % (kind_, tag))
        if fam == "_StandardInstanceCommand":
            for tag, v in [("int", 5), ("none", "none"), ("str", "str"), ("float", "float")]:
                yield dict(legal, inst=v, rawinst=True, illegal="instance:" + tag) if isinstance(v, int) else \
                    dict(legal, inst=v, illegal="instance:" + tag)
            for tag, v in [("device-address", ["dshort", 3]), ("gear-address", ["gshort", 3])]:
                yield dict(legal, inst=v, illegal="instance:" + tag)
    elif fam == "_SpecialDeviceCommandOneParam":
        for tag, v in list(bad_ints(255)) + [("none", None), ("float", 1.5), ("str", "5")] + \
                [(t, ["num", k, 7]) for t, k in LOOKALIKES]:
            yield dict(base, params=[v], illegal="param:" + tag)
    elif fam == "_SpecialDeviceCommandTwoParam":
        for tag, v in list(bad_ints(255)) + [("none", None), ("float", 1.5), ("str", "5")] + \
                [(t, ["num", k, 7]) for t, k in LOOKALIKES]:
            yield dict(base, params=[v, 7], illegal="param1:" + tag)
            yield dict(base, params=[7, v], illegal="param2:" + tag)
    elif fam in ("_Event", "UnknownEvent", "AmbiguousInstanceType"):
        name = cls.__name__
        data = {"OccupancyEvent": 5, "LightEvent": 100}.get(name)
        dkw = {} if data is None else {"data": data}
        if name == "UnknownEvent":
            dkw = {"instance_type": 9, "data": 100}
        if name == "AmbiguousInstanceType":
            dkw = {"data": 100}
        field_max = {"short_address": 63, "instance_number": 31, "instance_group": 31, "device_group": 31}
        for scheme in (SCHEMES if name != "AmbiguousInstanceType" else ["device_instance"]):
            legal = scheme_kwargs(scheme, 3, 2)
            for fld in legal:
                for tag, v in list(bad_ints(field_max[fld])) + [("float", 1.5), ("str", "5")] + \
                        [(t, ["num", k, 3 if fld != "instance_number" else 2]) for t, k in LOOKALIKES]:
                    kw = dict(legal, **dkw)
                    kw[fld] = v
                    yield dict(base, kw=kw, illegal="%s:%s:%s" % (scheme, fld, tag))
        # an address object of the wrong kind where the source short address belongs
        for tag, v in [("device-group", ["dgroup", 5]), ("device-broadcast", ["dbcast"]), ("device-unaddressed", ["dunaddr"]),
                       ("gear-short", ["gshort", 5]), ("gear-group", ["ggroup", 5]), ("gear-broadcast", ["gbcast"]),
                       ("instance-number", ["inst", 0x03]), ("instance-group", ["inst", 0x83]), ("instance-broadcast", ["inst", 0xFF])]:
            kw = dict(dkw, short_address=v)
            if name == "AmbiguousInstanceType":
                kw["instance_number"] = 2
            yield dict(base, kw=kw, illegal="short_address:" + tag)
            if name not in ("AmbiguousInstanceType",):
                yield dict(base, kw=dict(kw, instance_number=2), illegal="short_address+instance:" + tag)
        if name != "AmbiguousInstanceType":
            yield dict(base, kw=dict(dkw), illegal="no-addressing")
            yield dict(base, kw=dict(dkw, short_address=3, device_group=2), illegal="short+device-group")
            yield dict(base, kw=dict(dkw, short_address=3, instance_group=2), illegal="short+instance-group")
            yield dict(base, kw=dict(dkw, device_group=3, instance_number=2), illegal="device-group+instance-number")
            yield dict(base, kw=dict(dkw, device_group=3, instance_group=2), illegal="device-group+instance-group")
            yield dict(base, kw=dict(dkw, instance_group=3, instance_number=2), illegal="instance-group+instance-number")
        if name == "LightEvent":
            for tag, v in list(bad_ints(1023)) + [("none", None), ("float", 1.5), ("str", "5")] + \
                    [(t, ["num", k, 100]) for t, k in LOOKALIKES]:
                yield dict(base, kw={"short_address": 3, "data": v}, illegal="illuminance:" + tag)
        if name == "OccupancyEvent":
            for tag, v in [("none", None), ("float", 1.5), ("str", "5")]:
                yield dict(base, kw={"short_address": 3, "data": v}, illegal="occupancy-data:" + tag)
        if name == "UnknownEvent":
            for tag, v in list(bad_ints(31)) + [("float", 1.5), ("str", "5")] + [(t, ["num", k, 9]) for t, k in LOOKALIKES]:
                yield dict(base, kw={"short_address": 3, "instance_type": v, "data": 5}, illegal="instance_type:" + tag)
                yield dict(base, kw={"instance_number": 3, "instance_type": v, "data": 5}, illegal="instance_type(instance scheme):" + tag)
            for tag, v in list(bad_ints(1023)) + [("float", 1.5), ("str", "5")] + [(t, ["num", k, 100]) for t, k in LOOKALIKES]:
                yield dict(base, kw={"short_address": 3, "instance_type": 9, "data": v}, illegal="data:" + tag)
        if name == "AmbiguousInstanceType":
            for tag, v in list(bad_ints(1023)) + [("float", 1.5), ("str", "5")] + [(t, ["num", k, 100]) for t, k in LOOKALIKES]:
                yield dict(base, kw={"short_address": 3, "instance_number": 2, "data": v}, illegal="data:" + tag)


ADDRESS_CTORS = [("GearShort", 63), ("GearGroup", 15), ("DeviceShort", 63), ("DeviceGroup", 31),
                 ("InstanceNumber", 31), ("InstanceGroup", 31), ("InstanceType", 31),
                 ("FeatureInstanceNumber", 31), ("FeatureInstanceGroup", 31), ("FeatureInstanceType", 31)]


def address_ctor_case(case):
    """case: {"fam": "address", "cls": name, "arg": value or ["raw", tag], "illegal": tag?}"""
    command, frame, address = _load()
    cls = getattr(address, case["cls"], None)
    if cls is None:
        return [("C02:class-missing:" + case["cls"], "dali.address.%s no longer exists" % case["cls"])]
    arg = case["arg"]
    arg = build_dest(address, arg) if isinstance(arg, list) else arg
    try:
        o = cls(arg)
    except Exception as e:  # noqa
        if case.get("illegal"):
            return []
        return [("C02:legal-construct-raised:%s:%s" % (case["cls"], type(e).__name__), "%s(%r): %r" % (case["cls"], arg, e))]
    if case.get("illegal"):
        return [("C02:illegal-accepted:address:%s:%s" % (case["cls"], case["illegal"]),
                 "dali.address.%s(%r) was accepted (holds %r)" % (case["cls"], arg, getattr(o, "address", getattr(o, "group", getattr(o, "value", None)))))]
    held = getattr(o, "address", getattr(o, "group", getattr(o, "value", None)))
    if held != arg:
        return [("C02:constructed-address:" + case["cls"], "dali.address.%s(%r) holds %r" % (case["cls"], arg, held))]
    return []


def _address_shard(arg):
    res = Result()
    res.exhaustive = True
    for name, top in ADDRESS_CTORS:
        for v in range(top + 1):
            case = {"fam": "address", "cls": name, "arg": v}
            res.count()
            res.nontrivial()
            for sig, msg in address_ctor_case(case):
                res.violation(sig, case, msg)
        for tag, v in list(bad_ints(top)) + [(t, ["num", k, 5]) for t, k in LOOKALIKES] + [
                       ("none", ["raw", "none"]),
                       ("float", ["raw", "float"]), ("str", ["raw", "str"]), ("bytes", ["raw", "bytes"])]:
            case = {"fam": "address", "cls": name, "arg": v, "illegal": tag}
            res.count()
            res.nontrivial()
            res.label("illegal:address")
            for sig, msg in address_ctor_case(case):
                res.violation(sig, case, msg)
    res.sample({"fam": "address", "cls": "GearGroup", "arg": 16, "illegal": "above"}, cls="address-constructor")
    return res


def _shard(arg):
    if arg == "addresses":
        return _address_shard(arg)
    paths, quick, seed = arg
    res = Result()
    res.exhaustive = not quick
    allc = {p: (fam, c) for p, fam, c in classes()}
    for path in paths:
        fam, cls = allc[path]
        n = 0
        first = prev = None
        for case in legal_cases(path, fam, cls, quick, seed):
            n += 1
            if "maptype" in case and n % 3 == 0:
                case["map_preset"] = [[(n * 7) % 64, (n * 3) % 32], [63, 31], [0, 0]][: 1 + n % 3]
                res.label("legal:map-preset-through-constructor")
            if "maptype" in case and n % 2 and not case.get("map_preset"):
                # every other device/instance event is decoded under a map whose entry was updated
                case["map_history"] = [(case["maptype"] + 1 + n % 5) % 32, 0][: 1 + n % 2]
                res.label("legal:map-with-history")
            if first is None:
                first = case
            if prev is not None:
                case["sibling"] = prev
            prev = {k: v for k, v in case.items() if k not in ("cls", "fam", "sibling", "map_history")}
            for sig, msg in run_case(case):
                res.violation(sig, case, msg)
            # the same numbers handed over as members of an IntEnum / instances of an int subclass (every third case)
            if n % 3 == 0 and any(isinstance(x, int) and not isinstance(x, bool)
                                  for x in list(case.get("params", [])) + [case.get("power"), case.get("address")]
                                  + list((case.get("kw") or {}).values())):
                form = "intenum" if n % 2 else "intsub"
                c2 = dict({k: v for k, v in case.items() if k != "sibling"}, intform=form)
                res.count()
                res.nontrivial()
                res.label("legal:numbers-as-" + form)
                for sig, msg in run_case(c2):
                    res.violation(sig + ":" + form, c2, msg)
            if "maptype" in case and n % 4 == 1:
                spec = [1 + (n // 4) % 4, SCAN_ENDS[(n // 4 + seed) % len(SCAN_ENDS)], SCAN_ADDRESSES[(n // 8) % len(SCAN_ADDRESSES)]]
                if case.get("map_preset") and spec[1] == "close-then-clear":
                    spec[1] = "close"           # clear() would (rightly) drop the preset entries too
                c2 = dict({k: v for k, v in case.items() if k != "sibling"}, map_scan=spec)
                res.count()
                res.nontrivial()
                res.label("legal:map-after-scan-" + spec[1])
                for sig, msg in run_case(c2):
                    res.violation(sig + ":after-abandoned-scan", c2, msg)
        res.count(n)
        res.nontrivial(n=n)
        res.label("legal:" + fam, n)
        ni = 0
        for case in illegal_cases(path, fam, cls):
            ni += 1
            for sig, msg in run_case(case):
                res.violation(sig, case, msg)
        res.count(ni)
        res.nontrivial(n=ni)
        res.label("illegal:" + fam, ni)
        if first is not None:
            res.sample(first, cls=fam)
    return res


def optimized_illegal_cases(k=0, nshards=1):
    """Runs under `python -O` (see __main__): every illegal-argument case again.  Validation written with `assert`
    disappears there; a production interpreter started with -O / PYTHONOPTIMIZE must reject the same arguments."""
    out = []
    n = 0
    for i, (path, fam, cls) in enumerate(classes()):
        if i % nshards != k:
            continue
        for case in illegal_cases(path, fam, cls):
            n += 1
            for sig, msg in run_case(case):
                out.append([sig + ":python-O", case, msg])
    address = _load()[2]
    for name, top in (ADDRESS_CTORS if k == 0 else []):
        for tag, v in list(bad_ints(top)) + [("none", ["raw", "none"]), ("float", ["raw", "float"]), ("str", ["raw", "str"])]:
            case = {"fam": "address", "cls": name, "arg": v, "illegal": tag}
            n += 1
            for sig, msg in address_ctor_case(case):
                out.append([sig + ":python-O", case, msg])
    return {"n": n, "violations": out[:50]}


def _optimized_shard(k):
    import json as _json
    import subprocess
    import sys as _sys
    from harness.runner import REPO, VERIF
    res = Result()
    env = dict(os.environ, PYTHONHASHSEED="0", VERIF_REPO=REPO, PYTHONPATH=VERIF)
    r = subprocess.run([_sys.executable, "-O", "-B", os.path.abspath(__file__), "--optimized", str(k)], env=env,
                       capture_output=True, text=True, cwd=VERIF)
    if r.returncode != 0:
        if "/dali/" in r.stderr:
            res.violation("C02:optimized-interpreter-fails", {"kind": "python -O"}, r.stderr[-800:])
            return res
        raise RuntimeError("python -O subprocess failed: " + r.stderr[-1500:])
    d = _json.loads(r.stdout)
    res.count(d["n"])
    res.nontrivial(n=d["n"])
    res.label("illegal:under-python-O", d["n"])
    for sig, case, msg in d["violations"]:
        res.violation(sig, dict(case, python_O=True), msg + " [interpreter started with -O]")
    return res


def run(ctx):
    command = _load()[0]
    helpers = [c.__module__ + "." + c.__qualname__ for c in command.Command._commands if c.__name__.startswith("_")]
    if helpers:
        ctx.result.violation("C02:abstract-class-listed-as-command", {"fam": "registry", "classes": helpers[:5]},
                             "Command._commands (the commands the library implements) lists abstract helper classes: %r" % helpers[:8])
    ctx.pmap(_optimized_shard, list(range(16)))
    allc = classes()
    # heavy classes (instance commands, two-param specials, light events) get their own shard
    paths = [p for p, fam, c in allc]
    heavy = [p for p, fam, c in allc if fam in ("_StandardInstanceCommand", "_SpecialDeviceCommandTwoParam", "DAPC")
             or p.endswith("LightEvent")]
    light = [p for p in paths if p not in heavy]
    shards = [([p], ctx.quick, ctx.seed) for p in heavy]
    for k in range(0, len(light), 8):
        shards.append((light[k:k + 8], ctx.quick, ctx.seed))
    shards.append("addresses")
    ctx.pmap(_shard, shards)
    ctx.result.extra["classes"] = len(paths)


if __name__ == "__main__":
    import sys as _sys
    if "--optimized" in _sys.argv:
        import json as _json
        _sys.path.insert(0, os.environ.get("VERIF_REPO", "/repo"))
        _sys.path.insert(1, os.path.dirname(os.path.dirname(os.path.abspath(__file__))))
        assert not __debug__
        print(_json.dumps(optimized_illegal_cases(int(_sys.argv[_sys.argv.index("--optimized") + 1]), 16), default=repr))
