"""C11 - memory values decode any raw bytes totally and per the DiiA/IEC layout.

Oracle: harness/ref_memory.py - a hand-transcribed memory map (bank, locations, access type,
width, decoding kind, MASK/TMASK support, range limits) with its own decoders written on
lists of ints.  Nothing in the oracle imports or introspects the library.

(a) decode   every declared value class x raw byte strings: from_list / check_raw /
             raw_to_value never raise and agree with the reference decoder, flags exactly
             where the reference has them.  Complete for widths 1 and 2 (both tiers; every class of that width -
             the evidence lists the 2-byte ones), boundary set + strided 3-byte sweep + Hypothesis for wider values;
             the boundary set holds, for EVERY byte position, each of 0x00 0x01 0x7f 0x80 0xfe 0xff between zeros,
             between 0xff and between unremarkable bytes (a rule that belongs to one byte must not leak to another
             position: ref_memory.edge_raws).  Strings: NUL and
             single bytes >= 0x80 at every position, and non-ASCII TEXT - well-formed UTF-8
             characters of 2, 3 and 4 bytes (and UTF-16/Latin-1/double-byte ones, and ill-formed
             look-alikes) at every position, full field / directly before / behind the NUL.
             Every byte string is decoded through from_list from the bank image held as a list, tuple, bytes,
             bytearray, a list with None at every location that is not the value's own, images that end right
             behind the value or are longer than a bank (all forms for generated cases and replays, taking turns
             in the enumerations); all must give the reference's result and leave the caller's object unchanged.
             The class methods that take one value's raw bytes (check_raw, raw_to_value, is_valid) are also handed the
             same bytes as a bytearray and as an instance of a bytes subclass: same answer as for bytes, nothing raised,
             the caller's object unchanged (every MASK / TMASK result, every generated / replayed case, every tenth case of the
             enumerations).
(d) history  fresh interpreters in which a program declares its own banks and values of every width 1..8
             (NumericValue signed/unsigned, energy.ScaledNumericValue; with/without MASK/TMASK support) before,
             between and after importing the library's bank modules in several orders: afterwards every library
             value decodes the boundary probes exactly as in-process (everything imported first), and the program's
             own values decode per the reference for their declared width/flags.
(e) limits   values declared by the program with range limits: NumericValue (signed / unsigned, widths 1, 2, 3, 4, 8) and
             ScaledNumericValue x MASK/TMASK support x (min_value, max_value) pairs - none, 0, 1, -1, the type's extremes
             and their neighbours, min == max, an empty range, one side open: 1-byte values over all 256 byte strings,
             wider ones over their boundary sets, plus Hypothesis (width 1..8, limits and bytes near every edge); judged
             by the reference (MASK, TMASK, then range limits -> Invalid).  The same kind of values is declared in the
             fresh-interpreter histories of (d) (group "limits").
(f) declare  what is accepted / refused when a value is declared: banks with / without lock byte and latch byte, values
             with per-location (mixed) access types at ascending / descending / scattered locations, several bases:
             a lockable location at ANY position of the value is refused (LockingNotSupported) iff the bank has no lock
             byte, a location that already belongs to a value (or is the bank's own 0x00 / 0x02) at any position is
             refused (MemoryLocationOverlap), everything else is accepted; afterwards the bank's location map holds
             exactly the accepted values and no lockable location in a bank without lock byte.  Deterministic sweep
             (every position x every other access type, all type combinations up to 3 locations) + Hypothesis sequences.
(g) edits    objects the caller edits afterwards: every value_to_raw(...) result (numbers, 'MASK', 'TMASK', strings) is
             appended to (image = A.value_to_raw('TMASK'); image += B.value_to_raw(500)), and - when it is mutable -
             overwritten, cleared, zero-filled, reversed in place; raw buffers handed IN (a bytearray to check_raw /
             is_valid / raw_to_value, a list / bytearray bank image to from_list) are edited by the caller after the
             call.  Afterwards the class - and the other classes of its bank - must decode and encode exactly as before
             (check_raw / raw_to_value / from_list of the MASK and TMASK patterns and a few numbers, value_to_raw of
             the literals and numbers).  Every library class, the signed ones declared here, a few declared by the
             program.
(h) family   a generated family of the program's own declarations (harness.ref_memory.family(seed), ~190 values in 16 banks):
             base classes NumericValue / FixedScaleNumericValue (signed too) / TemperatureValue / StringValue / BinaryValue /
             VersionNumberValue / energy.ScaledNumericValue; derived from the abstract base, from a shipped concrete value
             (oem.CRI, oem.InputPowerNominal, ...) or from another value of the family with another width / signedness / limits
             / MASK-TMASK support / scale; 1..12 locations ascending, descending, with gaps, scattered, up to 0xFE; each access
             type, none, mixed; default / reset given; MemoryRange / tuple / list / single location; banks with / without lock
             and latch byte.  The reference fixes what each means (an attribute the class body does not set is the parent's;
             flag patterns of the value's OWN width and sign; bytes from the locations in declared order): layout read back,
             decode of all byte strings (1 byte) / the boundary set, inverse for plain numbers and strings.
(i) first use the same family in FRESH interpreters with the order of first use arranged: every parent decoded before the
             derived class is declared; everything declared and the derived classes decoded before what they derive from;
             each declaration in its own order; optionally after the abstract base classes themselves interpreted loose bytes
             (NumericValue.check_raw(b"\\x12\\x34") ...).  Every decode of every phase - shipped parents included - must be
             the reference's.
(b) inverse  raw_to_value(value_to_raw(x)) == x for plain numbers (table kind "uint"/"cct")
             over all in-range numbers (<= 2 bytes) or a sample, and for strings of every
             length 0..len.
(c) layout   bank, location range, per-location access type and width of every class equal
             the table row; no overlap inside a bank object; NVM_RW_L only in banks with a
             lock byte; random 255-byte bank images decoded through cls.from_list versus the
             reference decoder applied at the TABLE's offsets.
"""
import numbers

from harness import ref_memory as RM
from harness.runner import Result

ID = "C11"
LEVEL = "exploration"
RULE = ("(class, raw) pairs: complete enumeration of all byte strings for every 1- and 2-byte value "
        "(distinct by construction), boundary sets (all-ones, all-ones-1, min-1, min, max, max+1, sign "
        "boundaries, each of 0x00 0x01 0x7f 0x80 0xfe 0xff at every byte position between zeros / 0xff / unremarkable bytes, "
        "every scale byte x value boundaries, NUL / 0x80+ at every string position and pair of "
        "positions, well-formed 2-/3-/4-byte UTF-8 characters and other multi-byte encodings' characters at every "
        "string position - full field, directly before and behind the NUL - plus ill-formed look-alikes, generated "
        "non-ASCII text encoded as UTF-8 / Latin-1 / UTF-16), a strided sweep of 3-byte values and Hypothesis byte strings for wider ones; non-trivial "
        "= the reference result is a flag, or the number lies on an edge of its valid range, or the scale "
        "byte is at the edge of its window, or a string contains NUL / non-ASCII bytes, or it is a special "
        "code (CCT 0xFFFE, version 0xFF); inverse: (class, in-range number) and (class, ASCII string) pairs; "
        "layout: one case per table row and per bank object plus generated 255-byte bank images; every decode case "
        "x the form the bank image is handed over in (list / tuple / bytes / bytearray / None elsewhere / shorter / "
        "longer) and, for check_raw / raw_to_value / is_valid, the raw bytes handed over as bytes / bytearray / an "
        "instance of a bytes subclass; history: (declaration/import history in a fresh interpreter, value class, boundary byte string), "
        "non-trivial = the reference says MASK or TMASK; limits: (declaration with min_value / max_value, byte string), "
        "non-trivial as for decode; declare: (bank flags, sequence of declarations with per-location access types), "
        "non-trivial = some declaration has to be refused or mixes access types; caller's edits: (value class, argument of "
        "value_to_raw - 'MASK' / 'TMASK' / a number / a string - or byte string handed in as bytearray / list image) x the "
        "in-place edits += / item assignment / clear / fill / reverse, non-trivial = a MASK / TMASK literal or a buffer handed in; "
        "declared by a program: (declaration of the generated family of the run's seed, byte string - all 256 for one-byte "
        "values, boundary set + a few pseudo-random ones for wider) + layout read back + inverse arguments; in fresh "
        "interpreters: (order of first use, declaration, boundary byte string) for 5 (thorough: 6) orders")
ASSUMPTIONS = [
    "memory map and decoding rules are my hand transcription of IEC 62386-102 9.10.6/9.10.7 and DiiA "
    "251/252/253 (harness/ref_memory.py); the texts are not in the sandbox - rows marked 'pinned' or with "
    "pinned_fields only detect changes; ref_memory.DISAGREEMENTS lists where the library and my reading of "
    "the standard differ (each pinned to the library, none claimed by the statement)",
    "energy values: a scale byte outside -6..+6 together with the TMASK pattern in the value bytes may be "
    "reported as Invalid or as TMASK (statement silent); every other input has exactly one accepted result",
    "strings: a byte >= 0x80 located after the terminating NUL may be ignored or reported as Invalid",
    "numbers must compare equal exactly (int / Decimal; a float is accepted only if it is exactly equal); "
    "booleans must be bool, strings must be str",
    "'plain number' = table kind uint or cct (the library's NumericValue without a scaling/offset/version "
    "subclass); in-range = within min/max and below the MASK/TMASK patterns",
    "string inverse is checked both directly on value_to_raw's bytes and after storing those bytes over a "
    "field previously filled with 0xFF / 'Z' (a short write leaves the tail untouched)",
    "from_list accepts the bank contents as any sequence indexable by location address (list, tuple, bytes, "
    "bytearray), with None at locations that do not belong to the value, ending anywhere behind the value's last "
    "location or longer than 255 entries - all of which the library accepts today; what it does when one of the "
    "value's OWN locations is None or missing is not judged",
    "check_raw / raw_to_value / is_valid take 'raw bytes': bytes, a bytearray or an instance of a bytes subclass holding "
    "the same data must give the same answer (identical flag / None / bool, equal value of the same type) - the unchanged "
    "library does for every value class; lists / tuples of ints and memoryviews are not exercised (today a list never "
    "matches the MASK / TMASK pattern and strings cannot be decoded from either)",
    "declaration histories: a program may declare banks and values of its own with MemoryBank, MemoryRange / "
    "MemoryLocation, NumericValue and dali.memory.energy.ScaledNumericValue and the class attributes the library's own "
    "modules use (bank, locations, signed, mask_supported, tmask_supported, max_value, unit), at any point relative to "
    "importing the library's bank modules; bank numbers 100..159 are the program's",
    "declared limits: min_value / max_value are inclusive bounds on the decoded integer (signed when the value is "
    "signed), None = no bound, 0 is a bound like any other; MASK / TMASK (when supported) win over the limits; for a "
    "ScaledNumericValue the limits apply to the unsigned number behind the scale byte",
    "declaration-time rules: a refused declaration raises MemoryLocationOverlap / LockingNotSupported - the one that "
    "applies, either when both do; what a bank keeps of a REFUSED declaration is not judged except that no lockable "
    "location may be registered in a bank without lock byte: later declarations that touch the refused value's "
    "locations may be accepted or refused as overlapping; a value that lists one location twice is not generated",
    "what value_to_raw returns and what the caller handed in are the caller's objects: editing them in place afterwards "
    "(+=, item assignment, clear, slice assignment, reverse) must not change any later result of check_raw / raw_to_value / "
    "from_list / value_to_raw of that class or of another class of the bank - 'interpretation' depends on the declaration and "
    "the bytes only; the unchanged library returns immutable bytes everywhere and keeps no reference to its arguments",
    "signed MASK/TMASK patterns are exercised on values declared by the check itself (the library declares "
    "no signed value), using only the public declaration mechanism",
    "generated family (harness/ref_memory.py family()): a value class derived from another value class - abstract base, shipped "
    "value, the program's own - has the parent's mask_supported / tmask_supported / signed / min_value / max_value / "
    "scaling_factor unless its class body sets them (None removes a limit), and its MASK / TMASK patterns are those of its own "
    "number of locations and signedness; limits of a FixedScaleNumericValue / TemperatureValue apply to the stored number (as "
    "for the shipped ControlGearPowerFactor / ControlGearTemperature); only combinations the documentation settles are generated "
    "(no signed temperature / version / scaled value, one-byte booleans, one- or two-byte versions, no limits on strings / "
    "booleans / versions); the unchanged library accepts every declaration and decodes every byte string as the reference says",
    "the abstract value classes may be used on loose bytes (NumericValue.check_raw(b'..'), TemperatureValue.raw_to_value, ...): "
    "a number without limits or flags, big-endian unsigned; temperature minus 60; text up to the first NUL; 0/1 booleans; x.y "
    "versions; scale byte + number - the unchanged library does; what any class decodes never depends on which class was "
    "used first",
]

_FLAGNAMES = {"Invalid": RM.INVALID, "MASK": RM.MASK, "TMASK": RM.TMASK}


# ------------------------------------------------------------------ library ----
_LIB = {}


def _lib():
    """Discover the library's banks and value classes at run time."""
    if _LIB:
        return _LIB
    import importlib
    import pkgutil
    import dali.memory
    from dali.memory import location
    mods = {}
    import_errors = {}
    for m in pkgutil.iter_modules(dali.memory.__path__):
        name = "dali.memory." + m.name
        try:
            mods[name] = importlib.import_module(name)
        except Exception as e:  # noqa - e.g. MemoryLocationOverlap / LockingNotSupported raised by a declaration
            if name == "dali.memory.location":
                raise
            import_errors[name] = "%s: %s" % (type(e).__name__, e)
    cand = {}
    for modname in sorted(mods):
        for attr, v in sorted(vars(mods[modname]).items()):
            if isinstance(v, location.MemoryBank):
                cand.setdefault(id(v), []).append((attr, modname, v))
    banks = {}
    for lst in cand.values():
        pick = lst[0]
        for attr, modname, v in lst:
            if RM.BANKS.get(attr, {}).get("module") == modname:
                pick = (attr, modname, v)
        banks[pick[0]] = (pick[2], pick[1])
    classes = {}
    bank_ids = {}
    for bk in sorted(banks):
        bank = banks[bk][0]
        bank_ids[id(bank)] = bk
        for cls in bank.values:
            key = "%s.%s" % (bk, cls.__name__)
            while key in classes:
                key += "'"
            classes[key] = cls
    # value classes that hang on a bank object which is not a module attribute
    stack = [location.MemoryValue]
    seen = set()
    while stack:
        c = stack.pop()
        for s in c.__subclasses__():
            if s in seen:
                continue
            seen.add(s)
            stack.append(s)
            if hasattr(s, "locations") and hasattr(s, "bank") and str(s.__module__).startswith("dali.") \
                    and id(s.bank) not in bank_ids:
                classes["?%s.%s" % (s.__module__, s.__name__)] = s
    _LIB.update(location=location, mods=mods, banks=banks, classes=classes, import_errors=import_errors)
    return _LIB


_SYN = {}


def _synthetic():
    """Signed values declared through the library's own declaration mechanism (the shipped map has none)."""
    if _SYN:
        return _SYN
    L = _lib()
    loc = L["location"]
    bank = loc.MemoryBank(250, 0xFE, has_lock=True, has_latch=True)
    specs = [
        # name, first, last, mask, tmask, min, max
        ("SynS8", 0x03, 0x03, True, True, -100, 100),
        ("SynS8t", 0x04, 0x04, False, True, None, None),
        ("SynS16", 0x05, 0x06, True, True, -1000, 0x7FFD),
        ("SynS16m", 0x07, 0x08, True, False, None, None),
        ("SynS16n", 0x09, 0x0A, False, False, -5, 5),
        ("SynS24", 0x0B, 0x0D, True, True, None, 0x7FFFFD),
        ("SynS32", 0x0E, 0x11, True, True, -0x7FFFFFFF, None),
    ]
    rows, classes = {}, {}
    for name, first, last, mask, tmask, lo, hi in specs:
        cls = type(name, (loc.NumericValue,), dict(
            bank=bank, locations=loc.MemoryRange(first, last, type_=loc.MemoryType.RAM_RO),
            signed=True, mask_supported=mask, tmask_supported=tmask, min_value=lo, max_value=hi))
        key = "SYN." + name
        classes[key] = cls
        rows[key] = dict(key=key, cls=name, module=__name__, bankobj="SYN", bank=250, first=first, last=last,
                         width=last - first + 1, memtype=("RAM_RO",) * (last - first + 1), kind="uint",
                         signed=True, mask=mask, tmask=tmask, min=lo, max=hi, exp10=None,
                         trust="independent", pinned_fields=())
    _SYN.update(rows=rows, classes=classes, bank=bank)
    return _SYN


def _resolve(key):
    """(cls or None, row or None) for a case key."""
    if key.startswith("SYN."):
        S = _synthetic()
        return S["classes"].get(key), S["rows"].get(key)
    return _lib()["classes"].get(key), RM.BY_KEY.get(key)


def _tag(v):
    FlagValue = _lib()["location"].FlagValue
    if isinstance(v, FlagValue):
        return ("flag", _FLAGNAMES.get(v.name, v.name))
    return ("value", v)


def _same(got, ref):
    if got[0] != ref[0]:
        return False
    if got[0] == "flag":
        return got[1] == ref[1]
    x, y = got[1], ref[1]
    if isinstance(y, bool):
        return type(x) is bool and x is y
    if isinstance(y, str):
        return type(x) is str and x == y
    if isinstance(x, bool) or not isinstance(x, numbers.Number):
        return False
    return x == y


def _accept(got, ref, row, raw):
    if _same(got, ref):
        return True
    return any(_same(got, alt) for alt in RM.decode_alternatives(row, raw))


def _classify(name, got, ref):
    if got[0] == "flag" or ref[0] == "flag":
        return "C11:flag:" + name
    return "C11:decode-mismatch:" + name


def _hex(raw):
    return " ".join("%02x" % b for b in raw)


# ---------------------------------------------------------------- (a) decode ----
# The same bank image in the forms a program may hold it in.  from_list() documents "a list containing all values of
# the memory bank"; read_all() itself hands over a list with None for unanswered locations that may end at the
# bank's last location.  Every form below is accepted by the library for every value (indexing by address).
FORMS = ("list", "tuple", "bytes", "bytearray", "list-none-elsewhere", "list-ends-at-value", "bytes-ends-at-value",
         "list-300", "tuple-none-elsewhere-ends-at-value", "bytearray-256")
_MUTABLE_FORMS = ("list", "bytearray", "list-none-elsewhere", "list-ends-at-value", "list-300", "bytearray-256")


def _addrs(cls, row=None):
    """Where the value's bytes go in a bank image, in value order: the row's own list of locations (values declared by
    the program: the reference says where the bytes are), else the library's declaration (shipped values, whose location
    range section (c) compares with the table)."""
    if row is not None and row.get("locs"):
        return list(row["locs"])
    return [l.address for l in cls.locations]


def _spell(form, img, cls, row=None):
    """`img`: list of 255 ints.  The same bank contents as another kind of sequence."""
    if form == "list":
        return img
    if form == "tuple":
        return tuple(img)
    if form == "bytes":
        return bytes(img)
    if form == "bytearray":
        return bytearray(img)
    if form == "bytearray-256":
        return bytearray(img) + b"\x5a"
    if form == "list-300":
        return list(img) + [0xA5] * 45
    addrs = _addrs(cls, row)
    end = max(addrs) + 1
    if form == "list-ends-at-value":
        return img[:end]
    if form == "bytes-ends-at-value":
        return bytes(img[:end])
    n = len(img) if form == "list-none-elsewhere" else end
    sparse = [None] * n
    for a in addrs:
        sparse[a] = img[a]
    if form == "list-none-elsewhere":
        return sparse
    if form == "tuple-none-elsewhere-ends-at-value":
        return tuple(sparse)
    raise ValueError(form)


# The raw data of ONE value in the forms a program may hold it in when it calls the class methods that take raw bytes
# directly (check_raw, raw_to_value, is_valid): what it read off the bus into a bytearray, or an instance of its own
# bytes subclass.  The unchanged library gives the same answers for these as for bytes, for every value class; it does
# NOT for lists / tuples of ints (a list never equals the MASK / TMASK pattern, a string cannot be split) nor, for
# strings, for memoryviews - those are not exercised.
RAW_FORMS = ("bytearray", "bytes-subclass")


class _RawBytes(bytes):
    """A program's own bytes subclass (adds nothing)."""


def _spell_raw(form, raw):
    if form == "bytearray":
        return bytearray(raw)
    if form == "bytes-subclass":
        return _RawBytes(raw)
    raise ValueError(form)


def _raw_forms_for(forms, raw):
    """Which raw spellings go with a decode case: all of them when it is decoded from every bank-image form (boundary
    sets of the replays, Hypothesis cases), else - in the enumerations, where the image forms take turns - one of them
    with every tenth case (whenever it is the turn of the first image form)."""
    if len(forms) != 1:
        return RAW_FORMS
    return (RAW_FORMS[(raw[-1] >> 4) % len(RAW_FORMS)],) if forms[0] == FORMS[0] else ()


def _check_raw_forms(cls, raw, f, rawforms):
    """The class methods that take raw bytes, handed the same bytes as another bytes-like object, must do what they do
    with bytes.  f: what check_raw(raw) returned."""
    name = cls.__name__
    if not rawforms:
        return []
    calls = [("check_raw", f)]
    try:
        calls.append(("is_valid", cls.is_valid(raw)))
    except Exception as e:  # noqa
        return [("C11:decode-raised:" + name, "%s.is_valid([%s]) raised %r" % (name, _hex(raw), e))]
    if f is None:
        calls.append(("raw_to_value", cls.raw_to_value(raw)))       # did not raise a moment ago
    for rf in rawforms:
        for meth, want in calls:
            given = _spell_raw(rf, raw)
            try:
                got = getattr(cls, meth)(given)
            except Exception as e:  # noqa
                return [("C11:raw-bytes-spelling:%s-raised:%s" % (meth, name), "%s.%s([%s] given as %s) raised %r; given as "
                         "bytes it returns %r" % (name, meth, _hex(raw), rf, e, want))]
            if bytes(given) != raw:
                return [("C11:raw-bytes-spelling:%s-modified-callers-bytes:%s" % (meth, name), "%s.%s([%s] given as %s) changed "
                         "the caller's object to [%s]" % (name, meth, _hex(raw), rf, _hex(bytes(given))))]
            same = (got is want) if (want is None or isinstance(want, (bool, _lib()["location"].FlagValue))) else \
                (type(got) is type(want) and got == want)
            if not same:
                return [("C11:raw-bytes-spelling:%s-differs:%s" % (meth, name), "%s.%s([%s]) returns %r when the bytes are "
                         "given as %s, %r when given as bytes" % (name, meth, _hex(raw), got, rf, want))]
    return []


def _check_decode(cls, row, raw, forms=FORMS):
    """raw: bytes of the row's width.  Returns [(sig, msg)]."""
    name = cls.__name__
    out = []
    ref = RM.decode_tagged(row, raw)
    img = [0] * 255
    for a, b in zip(_addrs(cls, row), raw):
        img[a] = b
    for form in forms:
        given = _spell(form, img, cls, row)
        before = given[:] if form in _MUTABLE_FORMS else given
        try:
            got = _tag(cls.from_list(given))
        except Exception as e:  # noqa
            out.append(("C11:decode-raised:" + name, "%s.from_list with raw [%s] (bank image given as %s) raised %r; "
                        "reference: %r" % (name, _hex(raw), form, e, ref[1])))
            break
        if given != before:
            out.append(("C11:decode-modified-callers-image:" + name, "%s.from_list with raw [%s] changed the bank image "
                        "it was given (%s)" % (name, _hex(raw), form)))
            break
        if not _accept(got, ref, row, raw):
            out.append((_classify(name, got, ref), "%s.from_list with raw [%s] (bank image given as %s) gave %r, "
                        "reference says %r" % (name, _hex(raw), form, got[1], ref[1])))
            break
        if got[0] != "flag" and ref[0] != "flag":
            # a value is a value: it does not compare equal to (or hash and look up as) one of the flags
            FV = _lib()["location"].FlagValue
            clash = [m for m in FV if got[1] == m or m == got[1] or (isinstance(got[1], (str, int, bytes)) and got[1] in {m: 1})]
            if clash:
                out.append(("C11:value-equals-a-flag:" + name, "%s.from_list with raw [%s] gave the value %r, which compares equal "
                            "to the flag %r" % (name, _hex(raw), got[1], clash[0])))
                break
    try:
        f = cls.check_raw(raw)
    except Exception as e:  # noqa
        out.append(("C11:decode-raised:" + name, "%s.check_raw([%s]) raised %r; reference: %r"
                    % (name, _hex(raw), e, ref[1])))
        return out
    if f is None:
        try:
            got2 = _tag(cls.raw_to_value(raw))
        except Exception as e:  # noqa
            out.append(("C11:decode-raised:" + name, "%s.raw_to_value([%s]) raised %r after check_raw found "
                        "nothing special; reference: %r" % (name, _hex(raw), e, ref[1])))
            return out
    else:
        got2 = _tag(f)
        if got2[0] != "flag":
            out.append(("C11:flag:" + name, "%s.check_raw([%s]) returned %r, neither None nor a flag"
                        % (name, _hex(raw), f)))
            return out
    if not _accept(got2, ref, row, raw):
        out.append((_classify(name, got2, ref), "%s check_raw/raw_to_value on [%s] gave %r, reference says %r"
                    % (name, _hex(raw), got2[1], ref[1])))
    out.extend(_check_raw_forms(cls, raw, f, RAW_FORMS if ref[0] == "flag" and ref[1] != RM.INVALID else _raw_forms_for(forms, raw)))
    return out


def _nontrivial(row, raw, ref=None):
    ref = ref or RM.decode_tagged(row, raw)
    if ref[0] == "flag":
        return True
    kind = row["kind"]
    if kind == "string":
        return any(b == 0 or b >= 0x80 for b in raw)
    if kind == "scaled":
        e = raw[0] - 256 if raw[0] >= 0x80 else raw[0]
        if e in (RM.SCALE_MIN, RM.SCALE_MAX):
            return True
        n = int.from_bytes(bytes(raw[1:]), "big")
        return n in RM.valid_range(row)
    if kind in ("bool", "lightdist"):
        return False
    if kind == "version1":
        return raw[0] == 0xFF
    if kind == "version2":
        return False
    if kind == "cct" and list(raw) == [0xFF, 0xFE]:
        return True
    n = int.from_bytes(bytes(raw), "big", signed=row["signed"])
    return n in RM.valid_range(row)


def _refclass(ref):
    return "ref:" + (ref[1] if ref[0] == "flag" else "value")


def number_boundaries(width, row):
    """Byte strings around every edge of an n-byte number field."""
    full = (1 << (8 * width)) - 1
    half = full >> 1
    vals = {0, 1, 2, full, full - 1, full - 2, full - 3, half, half - 1, half - 2, half + 1, half + 2, half + 3}
    for lim in (row["min"], row["max"]):
        if lim is not None:
            for d in (-2, -1, 0, 1, 2):
                vals.add((lim + d) & full)
    for k in range(1, width):
        for d in (-1, 0, 1):
            vals.add((1 << (8 * k)) + d)
    vals.add(int.from_bytes(bytes(range(1, width + 1)), "big"))
    vals.add(int.from_bytes(bytes([0xA5] * width), "big"))
    for p in range(width):
        vals.add(0xFF << (8 * p))
        vals.add(0x01 << (8 * p))
        vals.add(0x80 << (8 * p))
        vals.add(full ^ (0xFF << (8 * p)))
        vals.add(full ^ (0x01 << (8 * p)))
    return [v.to_bytes(width, "big") for v in sorted(vals) if 0 <= v <= full]


def string_boundaries(w):
    bases = [bytes([0x41] * w), bytes(w), bytes(0x20 + i % 95 for i in range(w))]
    out = set(bases)
    # texts that spell the names of the flags: they are texts
    for t in (b"MASK", b"TMASK", b"Invalid", b"INVALID", b"None", b"0"):
        if len(t) <= w:
            out.add(t.ljust(w, b"\x00"))
    for fill in (0xFF, 0x7F, 0x01, 0x80):
        out.add(bytes([fill] * w))
    for p in range(w):
        for b in (0x00, 0x01, 0x7F, 0x80, 0xFE, 0xFF):
            for base in bases:
                x = bytearray(base)
                x[p] = b
                out.add(bytes(x))
    a = bytes([0x41] * w)
    for p in range(w):
        for q in range(w):
            if p != q:
                x = bytearray(a)
                x[p] = 0
                x[q] = 0x80
                out.add(bytes(x))
    # non-ASCII text in some multi-byte character encoding: every sequence at every position of the field,
    # in a full field without NUL, directly in front of a NUL at every position, and behind a NUL
    for seq in MULTIBYTE_SEQS:
        n = len(seq)
        if n > w:
            continue
        for base in (a, bases[2]):
            for p in range(w - n + 1):
                x = bytearray(base)
                x[p:p + n] = seq
                out.add(bytes(x))                       # full field, no NUL
                if p + n < w:
                    y = bytearray(x)
                    y[p + n] = 0
                    out.add(bytes(y))                   # sequence directly before the NUL, text in front
                    out.add(bytes(y[:p + n + 1]) + bytes(w - p - n - 1))   # ... and a zeroed tail
                if p > 0:
                    z = bytearray(x)
                    z[p - 1] = 0
                    out.add(bytes(z))                   # sequence directly behind the NUL
        out.add((seq * (w // n + 1))[:w])               # nothing but such characters (last one may be cut)
        out.add((seq * (w // n))[:w - 1].ljust(w, b"\x00"))
        out.add((b"Caf" + seq + b"\x00").ljust(w, b"\x00")[:w])
    for s1 in MULTIBYTE_SEQS[::3]:
        for s2 in MULTIBYTE_SEQS[1::3]:
            t = b"x" + s1 + b"yz" + s2
            if len(t) < w:
                out.add(t.ljust(w, b"\x00"))
                out.add(t.ljust(w, b"\x41"))
    return sorted(out)


def _multibyte_seqs():
    """Byte sequences that are well-formed characters in common multi-byte encodings (UTF-8 of each length at
    the edges of each length class, UTF-16/32 with BOM, Latin-1, Shift-JIS/GBK pairs) plus UTF-8 look-alikes
    that are ill-formed (overlong, surrogate, beyond U+10FFFF, lone lead, lone continuation).  Every one of
    them contains a byte >= 0x80, so none is ASCII."""
    cps = [0x80, 0xE9, 0xFF, 0x100, 0x3A9, 0x7FF, 0x800, 0x20AC, 0x4E2D, 0xD7FF, 0xE000, 0xFFFD, 0xFFFF,
           0x10000, 0x1F600, 0x10FFFF]
    out = [chr(c).encode("utf-8") for c in cps]
    out += ["é".encode(enc) for enc in ("latin-1", "utf-16", "utf-16-be", "utf-32")]
    out += [b"\x82\xa0", b"\xd6\xd0", b"\xa4\xa2"]
    out += [b"\xc0\x80", b"\xc1\xbf", b"\xe0\x80\x80", b"\xed\xa0\x80", b"\xf0\x80\x80\x80", b"\xf4\x90\x80\x80",
            b"\xf5\x80\x80\x80", b"\xc3", b"\xa9", b"\xe2\x82", b"\xf0\x9f\x98", b"\xc3\xa9\xa9", b"\xfe\xff"]
    seen, res = set(), []
    for s in out:
        if s not in seen and any(b >= 0x80 for b in s):
            seen.add(s)
            res.append(s)
    return res


MULTIBYTE_SEQS = _multibyte_seqs()


def _with_edges(raws, row):
    """raws + the byte-position boundary patterns of the row (every edge byte at every position between zeros, 0xFF
    and unremarkable bytes: harness.ref_memory.edge_raws), without repeats."""
    seen = set(raws)
    out = list(raws)
    for p in RM.edge_raws(row):
        b = bytes(p)
        if b not in seen:
            seen.add(b)
            out.append(b)
    return out


def boundary_raws(row):
    w, kind = row["width"], row["kind"]
    if kind == "string":
        return string_boundaries(w)
    if kind == "scaled":
        bodies = number_boundaries(w - 1, row)
        return _with_edges([bytes([s]) + b for s in range(256) for b in bodies], row)
    return _with_edges(number_boundaries(w, row), row)


def image_choices(row):
    """A short list of interesting byte strings per row, for composing bank images."""
    w, kind = row["width"], row["kind"]
    if kind == "string":
        a = bytes(0x30 + i % 40 for i in range(w))
        return [a, a[:w // 2] + bytes(w - w // 2), bytes(w), bytes([0xFF] * w), a[:3] + b"\x00" + bytes([0x80] * (w - 4)),
                a[:w - 1] + b"\x80", (b"Caf\xc3\xa9 \xe2\x82\xac\x00").ljust(w, b"\x00")[:w],
                (a[:w - 4] + b"\xf0\x9f\x98\x80")[:w]]
    if kind == "scaled":
        bodies = number_boundaries(w - 1, row)[::3] + [bytes([0xFF] * (w - 1)), bytes([0xFF] * (w - 2) + [0xFE])]
        return [bytes([s]) + b for s in (0, 1, 6, 7, 0x80, 0xF9, 0xFA, 0xFF) for b in bodies]
    return number_boundaries(w, row)


# --------------------------------------------------------------- (b) inverse ----
def _check_rtnum(cls, row, x):
    name = cls.__name__
    try:
        raw = cls.value_to_raw(x)
    except Exception as e:  # noqa
        return [("C11:roundtrip:" + name, "%s.value_to_raw(%d) raised %r for an in-range number" % (name, x, e))]
    if not isinstance(raw, (bytes, bytearray)) or len(raw) != row["width"]:
        return [("C11:roundtrip:" + name, "%s.value_to_raw(%d) gave %r, not %d bytes" % (name, x, raw, row["width"]))]
    try:
        back = cls.raw_to_value(bytes(raw))
    except Exception as e:  # noqa
        return [("C11:roundtrip:" + name, "%s.raw_to_value(value_to_raw(%d) = [%s]) raised %r" % (name, x, _hex(raw), e))]
    if isinstance(back, bool) or not isinstance(back, int) or back != x:
        return [("C11:roundtrip:" + name, "%s: %d -> [%s] -> %r" % (name, x, _hex(raw), back))]
    return []


def _check_rtstr(cls, row, s):
    name = cls.__name__
    w = row["width"]
    try:
        raw = cls.value_to_raw(s)
    except Exception as e:  # noqa
        return [("C11:roundtrip:" + name, "%s.value_to_raw(%r) raised %r (len %d <= %d, ASCII, no NUL)"
                 % (name, s, e, len(s), w))]
    if not isinstance(raw, (bytes, bytearray)) or len(raw) > w:
        return [("C11:roundtrip:" + name, "%s.value_to_raw(%r) gave %r (field is %d bytes)" % (name, s, raw, w))]
    out = []
    try:
        back = cls.raw_to_value(bytes(raw))
        if type(back) is not str or back != s:
            out.append(("C11:roundtrip:" + name, "%s: %r -> [%s] -> %r" % (name, s, _hex(raw), back)))
        for fill in (0xFF, 0x5A):
            stored = bytes(raw) + bytes([fill] * (w - len(raw)))
            img = [0] * 255
            for a, b in zip(_addrs(cls, row), stored):
                img[a] = b
            back = cls.from_list(img)
            if type(back) is not str or back != s:
                out.append(("C11:roundtrip:" + name, "%s: %r written as [%s] over a field of %#x reads back %r"
                            % (name, s, _hex(raw), fill, back)))
                break
    except Exception as e:  # noqa
        out.append(("C11:roundtrip:" + name, "%s: reading back %r ([%s]) raised %r" % (name, s, _hex(raw), e)))
    return out


def _plain_number(row):
    return row["kind"] in ("uint", "cct")


# ---------------------------------------------------------------- (c) layout ----
def _check_layout(key):
    cls, row = _resolve(key)
    if row is None:
        return []
    if cls is None:
        if _lib()["import_errors"].get(_row_home(row)):
            return []       # reported once, as C11:layout:import-failed:<module>
        return [("C11:layout:" + row["cls"], "table row %s (%s, bank %d, %#04x..%#04x) has no value class in the "
                 "library" % (key, row["module"], row["bank"], row["first"], row["last"]))]
    L = _lib()
    name = cls.__name__
    out = []
    try:
        addrs = [l.address for l in cls.locations]
        types = tuple(getattr(l.type_, "name", repr(l.type_)) for l in cls.locations)
        bankno = cls.bank.address
    except Exception as e:  # noqa
        return [("C11:layout:" + name, "%s: cannot read the declaration: %r" % (key, e))]
    exp_addrs = list(range(row["first"], row["last"] + 1))
    if cls.__module__ != row["module"]:
        out.append(("C11:layout:" + name, "%s is defined in %s, table says %s" % (key, cls.__module__, row["module"])))
    if bankno != row["bank"]:
        out.append(("C11:layout:" + name, "%s is in bank %r, table says %d" % (key, bankno, row["bank"])))
    bank_entry = L["banks"].get(row["bankobj"])
    if not key.startswith("SYN.") and (bank_entry is None or cls.bank is not bank_entry[0]):
        out.append(("C11:layout:" + name, "%s does not hang on bank object %s" % (key, row["bankobj"])))
    if len(addrs) != row["width"]:
        out.append(("C11:layout:" + name, "%s is %d bytes wide, table says %d" % (key, len(addrs), row["width"])))
    if addrs != exp_addrs:
        out.append(("C11:layout:" + name, "%s occupies locations %s, table says %#04x..%#04x"
                    % (key, [hex(a) for a in addrs], row["first"], row["last"])))
    elif types != row["memtype"]:
        out.append(("C11:layout:" + name, "%s has access types %s, table says %s" % (key, list(types), list(row["memtype"]))))
    return out


def _row_home(row):
    """Module whose import creates the row's class (the bank's module for LastAddress / LockByte)."""
    b = RM.BANKS.get(row["bankobj"])
    return b["module"] if b else row["module"]


def _check_import(module):
    err = _lib()["import_errors"].get(module)
    if err:
        return [("C11:layout:import-failed:" + module.rsplit(".", 1)[-1],
                 "importing %s fails, its part of the memory map cannot be declared: %s" % (module, err))]
    return []


def _check_bank(bk):
    L = _lib()
    out = []
    ent = L["banks"].get(bk)
    tab = RM.BANKS.get(bk)
    if ent is None:
        if tab is not None and not L["import_errors"].get(tab["module"]):
            out.append(("C11:layout:" + bk, "bank object %s of the table does not exist in %s" % (bk, tab["module"])))
        return out
    bank = ent[0]
    occ = {}
    lockable = []
    for cls in bank.values:
        for l in cls.locations:
            occ.setdefault(l.address, []).append(cls.__name__)
            if getattr(l.type_, "name", None) == "NVM_RW_L":
                lockable.append((cls.__name__, l.address))
    over = {a: n for a, n in occ.items() if len(n) > 1}
    if over:
        a = min(over)
        out.append(("C11:overlap:" + bk, "location %#04x of %s belongs to %s" % (a, bk, " and ".join(over[a]))))
    has_lock_byte = bank.LockByte is not None and bool(getattr(bank.LockByte, "lock", False)) \
        and [l.address for l in bank.LockByte.locations] == [0x02]
    if lockable and not (bank.has_lock and has_lock_byte):
        out.append(("C11:lockable-without-lock:" + bk, "%s declares lockable location %#04x (%s) but has no lock byte"
                    % (bk, lockable[0][1], lockable[0][0])))
    if tab is not None:
        if bank.address != tab["bank"]:
            out.append(("C11:layout:" + bk, "%s has bank number %r, table says %d" % (bk, bank.address, tab["bank"])))
        if bool(bank.has_lock) != tab["has_lock"]:
            out.append(("C11:layout:" + bk, "%s has_lock=%r, table says %r" % (bk, bank.has_lock, tab["has_lock"])))
        if bool(bank.has_latch) != tab["has_latch"]:
            out.append(("C11:layout:" + bk, "%s has_latch=%r, table says %r" % (bk, bank.has_latch, tab["has_latch"])))
        if ent[1] != tab["module"]:
            out.append(("C11:layout:" + bk, "%s lives in %s, table says %s" % (bk, ent[1], tab["module"])))
    return out


def _check_image(bk, image):
    L = _lib()
    out = []
    nf = len(FORMS)
    k = image[0] + image[-1]        # which three spellings of the image each value is decoded from
    for key, cls in L["classes"].items():
        row = RM.BY_KEY.get(key)
        if row is None or row["bankobj"] != bk:
            continue
        name = cls.__name__
        raw = bytes(image[row["first"]:row["last"] + 1])
        ref = RM.decode_tagged(row, raw)
        k += 1
        for form in (FORMS[k % nf], FORMS[(k + 3) % nf], FORMS[(k + 7) % nf]):
            try:
                got = _tag(cls.from_list(_spell(form, image, cls)))
            except Exception as e:  # noqa
                out.append(("C11:decode-raised:" + name, "%s.from_list(bank image as %s) raised %r; table bytes [%s], "
                            "reference %r" % (name, form, e, _hex(raw), ref[1])))
                break
            if not _accept(got, ref, row, raw):
                if [l.address for l in cls.locations] != list(range(row["first"], row["last"] + 1)):
                    sig = "C11:layout:" + name
                else:
                    sig = _classify(name, got, ref)
                out.append((sig, "%s.from_list(bank image as %s) gave %r; the bytes at the table's locations "
                            "%#04x..%#04x are [%s] = %r" % (name, form, got[1], row["first"], row["last"], _hex(raw),
                                                             ref[1])))
                break
    return out


def _check_total(key, raw):
    """Untabled class: only totality can be checked."""
    cls = _lib()["classes"].get(key)
    if cls is None:
        return []
    img = [0] * 255
    for loc, b in zip(cls.locations, raw):
        img[loc.address] = b
    try:
        cls.from_list(img)
    except Exception as e:  # noqa
        return [("C11:decode-raised:" + cls.__name__, "%s.from_list with raw [%s] raised %r" % (cls.__name__, _hex(raw), e))]
    return []


# ------------------------------------------- (d) declaration / import histories ----
# The MASK/TMASK patterns are "computed per class at declaration time": what a value class decodes must depend on its
# own declaration only, not on which other values - the library's own or a program's - were declared before it.
# A history is a list of steps run in a FRESH interpreter:
#   ["import", module]            import one of the library's bank modules
#   ["declare", group, order]     the program declares its own banks and values with the public classes, the way
#                                 dali/memory/*.py do (MemoryBank, NumericValue, energy.ScaledNumericValue, MemoryRange)
# afterwards everything else is imported and every value class decodes the probe set.
LIB_MODULES = ("dali.memory.info", "dali.memory.oem", "dali.memory.energy", "dali.memory.diagnostics",
               "dali.memory.maintenance")
USER_GROUPS = ("plain-unsigned", "plain-signed", "scaled", "limits")
_FLAGCOMBOS = ((True, True), (False, True), (True, False), (False, False))


def user_specs(group):
    """[(class name, row)] of the values of one group: every width 1..8 (scaled: 2..8) x MASK/TMASK support."""
    out = []
    gi = USER_GROUPS.index(group)
    signed = group == "plain-signed"
    if group == "limits":
        # declared range limits: at 0, 1, -1, min == max, one side open - signed and unsigned
        for ci, (mask, tmask) in enumerate(_FLAGCOMBOS):
            bankno = 100 + 10 * gi + ci
            addr = 0x03
            for sg in (False, True):
                for w in (1, 2, 4):
                    top = (1 << (8 * w - 1)) - 1 if sg else (1 << (8 * w)) - 1
                    pairs = [(0, None), (None, 0), (0, 0), (1, top - 3), (None, None)]
                    pairs += [(-1, 1), (-top - 1, -1)] if sg else [(1, None), (top, top)]
                    for i, (lo, hi) in enumerate(pairs):
                        name = "UserL%s%s%s%dB%d" % ("S" if sg else "U", "M" if mask else "", "T" if tmask else "", w, i)
                        row = dict(key="USER." + name, cls=name, module="__main__", bankobj="USER%d" % bankno,
                                   bank=bankno, first=addr, last=addr + w - 1, width=w, memtype=("NVM_RO",) * w,
                                   kind="uint", signed=sg, mask=mask, tmask=tmask, min=lo, max=hi, exp10=None,
                                   trust="independent", pinned_fields=())
                        out.append((name, row))
                        addr += w
        return out
    for ci, (mask, tmask) in enumerate(_FLAGCOMBOS):
        bankno = 100 + 10 * gi + ci
        addr = 0x03
        for w in range(2 if group == "scaled" else 1, 9):
            nb = w - 1 if group == "scaled" else w           # bytes that hold the number
            top = (1 << (8 * nb - 1)) - 1 if signed else (1 << (8 * nb)) - 1
            hi = top - 2 if (tmask and not mask) else None   # like DiiA 252: TMASK supported, largest number below it
            name = "User%s%s%s%dB" % ({"plain-unsigned": "U", "plain-signed": "S", "scaled": "Scaled"}[group],
                                      "M" if mask else "", "T" if tmask else "", w)
            row = dict(key="USER." + name, cls=name, module="__main__", bankobj="USER%d" % bankno, bank=bankno,
                       first=addr, last=addr + w - 1, width=w, memtype=("NVM_RO",) * w,
                       kind="scaled" if group == "scaled" else "uint", signed=signed, mask=mask, tmask=tmask,
                       min=None, max=hi, exp10=None, trust="independent", pinned_fields=())
            out.append((name, row))
            addr += w
    return out


def _declare(group, order):
    """Runs in the fresh interpreter: declare the group's banks and values.  -> {name: class}"""
    from dali.memory.location import MemoryBank, MemoryLocation, MemoryRange, MemoryType, NumericValue
    if group == "scaled":
        from dali.memory.energy import ScaledNumericValue as base
    else:
        base = NumericValue
    specs = user_specs(group)
    if order == "down":
        specs = specs[::-1]
    banks, classes = {}, {}
    for name, row in specs:
        if row["bank"] not in banks:
            banks[row["bank"]] = MemoryBank(row["bank"], 0x40, has_latch=True)
        if group == "scaled":
            locs = (MemoryLocation(address=row["first"], type_=MemoryType.ROM),) + \
                MemoryRange(start=row["first"] + 1, end=row["last"], type_=MemoryType.NVM_RO)
        else:
            locs = MemoryRange(start=row["first"], end=row["last"], type_=MemoryType.NVM_RO)
        attrs = dict(bank=banks[row["bank"]], locations=locs, unit="x")
        if row["signed"]:
            attrs["signed"] = True
        if row["mask"]:
            attrs["mask_supported"] = True
        if row["tmask"]:
            attrs["tmask_supported"] = True
        if row["max"] is not None:
            attrs["max_value"] = row["max"]
        if row["min"] is not None:
            attrs["min_value"] = row["min"]
        classes[name] = type(name, (base,), attrs)
    return classes


def history_probes(row):
    """The boundary byte strings decoded at the end of a history (all-ones, all-ones-1, range edges, sign
    boundaries, scale-byte window edges)."""
    return image_choices(row)


def _enc(tagged):
    if tagged[0] != "value":
        return [tagged[0], tagged[1]]
    return ["value", type(tagged[1]).__name__, str(tagged[1])]


def _dec(e):
    if e[0] != "value":
        return (e[0], e[1])
    t, v = e[1], e[2]
    if t == "int":
        return ("value", int(v))
    if t == "Decimal":
        from decimal import Decimal
        return ("value", Decimal(v))
    if t == "str":
        return ("value", v)
    if t == "bool":
        return ("value", v == "True")
    return ("value", ("unexpected type", t, v))


def _decode_enc(cls, raw):
    img = [0] * 255
    for loc, b in zip(cls.locations, raw):
        img[loc.address] = b
    try:
        return _enc(_tag(cls.from_list(img)))
    except Exception as e:  # noqa: reported by the parent
        return ["raised", "%s: %s" % (type(e).__name__, e)]


def _probe_library():
    out = {}
    for key, cls in _lib()["classes"].items():
        row = RM.BY_KEY.get(key)
        if row is None or len(cls.locations) != row["width"]:
            continue
        out[key] = [_decode_enc(cls, raw) for raw in history_probes(row)]
    return out


def history_main(steps):
    """Runs in a fresh interpreter (see __main__)."""
    import importlib
    declared = {}
    for step in steps:
        if step[0] == "import":
            importlib.import_module(step[1])
        elif step[0] == "declare":
            declared.update(_declare(step[1], step[2]))
        else:
            raise ValueError(step)
    out = {"lib": _probe_library(), "user": {}}      # _lib() imports whatever has not been imported yet
    rows = {name: row for g in USER_GROUPS for name, row in user_specs(g)}
    for name, cls in declared.items():
        out["user"][name] = [_decode_enc(cls, raw) for raw in history_probes(rows[name])]
    return out


_BASE = {}


def _check_history(steps):
    """-> ([(sig, msg)], number of decodes compared, number of those where the reference says MASK/TMASK)"""
    import json
    import os
    import subprocess
    import sys
    from harness.runner import REPO, VERIF
    env = dict(os.environ, PYTHONHASHSEED="0", VERIF_REPO=REPO, PYTHONPATH=VERIF)
    r = subprocess.run([sys.executable, "-B", os.path.abspath(__file__), "--history", json.dumps(steps)], env=env,
                       capture_output=True, text=True, cwd=VERIF)
    how = "a program that runs %s" % " ; ".join(" ".join(st) for st in steps)
    if r.returncode != 0:
        tail = r.stderr.strip().splitlines()[-1:] or [""]
        if "dali" not in r.stderr:
            raise RuntimeError("history subprocess failed without the library being involved: " + r.stderr[-1500:])
        return [("C11:history-raised", "%s fails: %s" % (how, tail[0][:400]))], 0, 0
    got = json.loads(r.stdout)
    if not _BASE:
        _BASE.update(_probe_library())
    out, n, nflag = [], 0, 0
    for key in sorted(_BASE):
        row = RM.BY_KEY[key]
        there = got["lib"].get(key)
        if there is None:
            out.append(("C11:history-value-missing", "%s: value class %s does not exist afterwards" % (how, key)))
            continue
        for raw, a, b in zip(history_probes(row), _BASE[key], there):
            n += 1
            nflag += RM.decode_tagged(row, raw)[1] in (RM.MASK, RM.TMASK)
            if a != b:
                out.append(("C11:decode-depends-on-declaration-history",
                            "%s: afterwards %s decodes [%s] to %r; in a program that imported the library's modules "
                            "first it is %r (reference: %r)" % (how, key, _hex(raw), b[-1], a[-1],
                                                                RM.decode_tagged(row, raw)[1])))
                break
    rows = {name: row for g in USER_GROUPS for name, row in user_specs(g)}
    want = [name for st in steps if st[0] == "declare" for name, _ in user_specs(st[1])]
    for name in want:
        row = rows[name]
        there = got["user"].get(name)
        if there is None:
            raise RuntimeError("history subprocess did not report " + name)
        for raw, b in zip(history_probes(row), there):
            n += 1
            ref = RM.decode_tagged(row, raw)
            nflag += ref[1] in (RM.MASK, RM.TMASK)
            if b[0] == "raised" or not _accept(_dec(b), ref, row, raw):
                out.append(("C11:user-declared-value:%s%s" % (row["kind"], "-signed" if row["signed"] else ""),
                            "%s: the %d-byte %s value %s declared by the program (signed=%s, mask_supported=%s, "
                            "tmask_supported=%s, min_value=%r, max_value=%r) decodes [%s] to %r, reference says %r"
                            % (how, row["width"], "ScaledNumericValue" if row["kind"] == "scaled" else "NumericValue",
                               name, row["signed"], row["mask"], row["tmask"], row["min"], row["max"], _hex(raw), b[-1],
                               ref[1])))
                break
    seen = {}
    for sig, msg in out:
        seen.setdefault(sig, msg)
    return list(seen.items()), n, nflag


def histories(seed):
    """Declaration/import histories: the program's declarations before, between and after the library's bank
    modules, which are imported in several orders (two of them moved by the seed)."""
    I = lambda m: ["import", "dali.memory." + m]      # noqa
    D = lambda g, o="up": ["declare", g, o]           # noqa
    hs = [
        [D("plain-unsigned"), D("plain-signed"), I("energy"), D("scaled"), I("diagnostics"), I("maintenance"), I("oem"),
         I("info")],
        [D("plain-unsigned", "down"), I("diagnostics"), D("plain-signed", "down"), I("maintenance"), D("scaled", "down"),
         I("info"), D("limits"), I("oem")],
        [I("energy"), D("scaled"), I("oem"), D("plain-unsigned"), I("diagnostics"), I("maintenance"), I("info")],
        [D("limits", "down"), D("scaled", "down"), D("plain-unsigned"), I("maintenance"), I("diagnostics"), I("oem"), I("info")],
        [I("info"), I("oem"), I("energy"), I("diagnostics"), I("maintenance"), D("scaled"), D("plain-signed"),
         D("plain-unsigned", "down")],
        [I("maintenance"), D("plain-signed"), I("oem"), D("plain-unsigned"), I("info"), I("energy"), I("diagnostics"),
         D("scaled")],
        [D("plain-signed", "down"), D("scaled"), D("plain-unsigned"), D("limits")],
    ]
    mods = [m.rsplit(".", 1)[1] for m in LIB_MODULES]
    for j in range(2):                  # seed-dependent import orders with the declarations at moving positions
        k = seed * 2 + j
        order = list(mods)
        perm = []
        x = k * 7 + 3
        while order:
            perm.append(order.pop(x % len(order)))
            x = x // len(order or [1]) + k + 1
        steps = [I(m) for m in perm]
        for gi, g in enumerate(USER_GROUPS):
            steps.insert((k + 2 * gi) % (len(steps) + 1), D(g, "down" if (k + gi) % 2 else "up"))
        hs.append(steps)
    return hs


# ------------------------------------ (e) declared range limits, (f) declaration-time rules ----
# "For every declared memory value ...": a program declares values of its own with the public declaration mechanism
# (the class attributes dali/memory/*.py use).  (e) declared range limits min_value / max_value at 0, 1, -1, the
# type's extremes, min == max, an empty range, one side open - judged by the reference semantics (MASK, TMASK, then
# range limits) over exhaustive (1 byte) or boundary byte strings.  (f) the rules enforced when a value is declared:
# no two values overlap and a lockable location only exists in a bank with a lock byte - whatever the position of the
# offending location inside the value, for values with per-location (mixed) access types.
_ULIM = {}
MEMTYPES = RM.MEMORY_TYPES


def _limit_spec(w, signed, mask, tmask, lo, hi, scaled=False, offset=None):
    """offset given: a TemperatureValue whose class body sets the class attribute `offset` (a vendor's temperature
    stored with another offset than the 60 of the DiiA banks), otherwise a NumericValue / ScaledNumericValue."""
    spec = {"width": w, "signed": bool(signed), "mask": bool(mask), "tmask": bool(tmask), "min": lo, "max": hi,
            "scaled": bool(scaled)}
    if offset is not None:
        spec["offset"] = int(offset)
    return spec


TEMP_OFFSETS = (0, 40, 60, 273, -20, 1000, 59, 61)


def _limit_row(spec):
    w = spec["width"]
    off = spec.get("offset")
    name = "Lim%s%s%s%s%dB" % ("Scaled" if spec["scaled"] else "" if off is None else ("TempOff%d" % off).replace("-", "m"),
                               "S" if spec["signed"] else "U",
                               "M" if spec["mask"] else "", "T" if spec["tmask"] else "", w)
    row = dict(key="USERLIM." + name, cls=name, module=__name__, bankobj="USERLIM", bank=140, first=0x03,
               last=0x03 + w - 1, width=w, memtype=("NVM_RO",) * w,
               kind="scaled" if spec["scaled"] else "uint" if off is None else "temp",
               signed=spec["signed"], mask=spec["mask"], tmask=spec["tmask"], min=spec["min"], max=spec["max"],
               exp10=None, trust="independent", pinned_fields=())
    if off is not None:
        row["offset"] = off
    return row


def _limit_class(spec):
    """The value class a program gets for this declaration (declared once per process), and its table row."""
    key = (spec["width"], spec["signed"], spec["mask"], spec["tmask"], spec["min"], spec["max"], spec["scaled"],
           spec.get("offset"))
    if key in _ULIM:
        return _ULIM[key]
    loc = _lib()["location"]
    row = _limit_row(spec)
    if spec["scaled"]:
        from dali.memory.energy import ScaledNumericValue as base
    elif spec.get("offset") is not None:
        base = loc.TemperatureValue
    else:
        base = loc.NumericValue
    bank = loc.MemoryBank(row["bank"], 0x20, has_latch=True)
    attrs = dict(bank=bank, locations=loc.MemoryRange(row["first"], row["last"], type_=loc.MemoryType.NVM_RO), unit="x")
    if spec["signed"]:
        attrs["signed"] = True
    if spec["mask"]:
        attrs["mask_supported"] = True
    if spec["tmask"]:
        attrs["tmask_supported"] = True
    if spec["min"] is not None:
        attrs["min_value"] = spec["min"]
    if spec["max"] is not None:
        attrs["max_value"] = spec["max"]
    if spec.get("offset") is not None:
        attrs["unit"] = "K" if spec["offset"] == 273 else "°C"
        attrs["offset"] = spec["offset"]
    _ULIM[key] = (type(row["cls"], (base,), attrs), row)
    return _ULIM[key]


def _limit_how(spec):
    off = spec.get("offset")
    return ("a %d-byte %s declared by the program with signed=%s, mask_supported=%s, tmask_supported=%s, min_value=%r, "
            "max_value=%r" % (spec["width"], "ScaledNumericValue" if spec["scaled"] else "NumericValue" if off is None
                              else "TemperatureValue (class attribute offset=%d)" % off, spec["signed"],
                              spec["mask"], spec["tmask"], spec["min"], spec["max"]))


def _check_userlim(spec, raw, forms=FORMS):
    try:
        cls, row = _limit_class(spec)
    except Exception as e:  # noqa: a legal declaration (free locations, nothing lockable) must be accepted
        return [("C11:user-declared-value:declaration-raised", "%s: the declaration raised %r" % (_limit_how(spec), e))]
    kind = row["kind"] + ("-signed" if row["signed"] else "")
    out = []
    for sig, msg in _check_decode(cls, row, bytes(raw), forms):
        what = sig.split(":")[1]
        if what in ("flag", "decode-mismatch") and (spec["min"] is not None or spec["max"] is not None):
            what = "range-limits"
        elif what == "decode-mismatch" and spec.get("offset") is not None:
            what = "own-offset"
        out.append(("C11:user-declared-value:%s:%s" % (kind, what), "%s: %s" % (_limit_how(spec), msg)))
    return out


def limit_specs(w, scaled=False):
    """Every declaration of section (e) for one width."""
    nb = w - 1 if scaled else w
    out = []
    for signed in ((False,) if scaled else (False, True)):
        for lo, hi in RM.declared_limit_pairs(nb, signed):
            for mask, tmask in _FLAGCOMBOS:
                out.append(_limit_spec(w, signed, mask, tmask, lo, hi, scaled))
    return out


def temp_specs(w):
    """Temperatures a program declares with an offset of its own: every flag combination, without limits and with the
    limit the shipped temperatures have (largest stored number below the flag patterns)."""
    top = (1 << (8 * w)) - 1
    return [_limit_spec(w, False, mask, tmask, None, hi, False, off)
            for off in TEMP_OFFSETS for mask, tmask in _FLAGCOMBOS for hi in (None, top - 2)]


def _limit_raws(row):
    if row["width"] == 1:
        return [bytes([v]) for v in range(256)]
    raws = image_choices(row) if row["kind"] == "scaled" else number_boundaries(row["width"], row)
    if row["min"] is None and row["max"] is None:       # declarations without limits: byte-position patterns as well
        raws = _with_edges(raws, row)
    return raws


_BASES = ("num", "str", "bin", "fixed")


def _check_declrules(case):
    """One bank, a sequence of declarations; every one is accepted or refused as the rules say, and afterwards
    the bank's location map holds exactly the accepted values."""
    loc = _lib()["location"]
    has_lock, has_latch = bool(case["has_lock"]), bool(case["has_latch"])
    bases = {"num": loc.NumericValue, "str": loc.StringValue, "bin": loc.BinaryValue, "fixed": loc.FixedScaleNumericValue}
    try:
        bank = loc.MemoryBank(case.get("bank", 150), 0xFE, has_lock=has_lock, has_latch=has_latch)
    except Exception as e:  # noqa
        return [("C11:declaration:bank-raised", "MemoryBank(%d, 0xfe, has_lock=%s, has_latch=%s) raised %r"
                 % (case.get("bank", 150), has_lock, has_latch, e))]
    how_bank = "bank declared with has_lock=%s, has_latch=%s" % (has_lock, has_latch)
    occupied = set(RM.bank_reserved(has_lock, has_latch))
    tainted = set()         # locations of declarations that were refused: what the bank keeps of those is not judged
    accepted = []
    out = []
    for n, d in enumerate(case["decls"]):
        locs = [(int(a), str(t)) for a, t in d["locs"]]
        if len({a for a, _ in locs}) != len(locs):
            raise ValueError("a value that lists a location twice is not part of this check")
        reasons = RM.declaration_reasons(occupied, has_lock, locs)
        unsure = any(a in tainted for a, _ in locs)
        mls = tuple(loc.MemoryLocation(address=a, type_=getattr(loc.MemoryType, t)) for a, t in locs)
        given = mls[0] if (d.get("single") and len(mls) == 1) else (list(mls) if d.get("as_list") else mls)
        how = "%s, declaration %d of %d: a %s at %s" % (
            how_bank, n + 1, len(case["decls"]), bases[d.get("base", "num")].__name__,
            ", ".join("%#04x %s" % lt for lt in locs))
        got, cls = "accept", None
        try:
            # "names": a program that declares through a helper function (one class statement run per channel /
            # per base address) produces several DISTINCT classes with one and the same name and module
            cname = "Decl%d" % n if case.get("names") != "same" else "Channel"
            cls = type(cname, (bases[d.get("base", "num")],), {"bank": bank, "locations": given})
        except loc.MemoryLocationOverlap:
            got = "overlap"
        except loc.LockingNotSupported:
            got = "locking"
        except Exception as e:  # noqa
            out.append(("C11:declaration:raised", "%s raised %r" % (how, e)))
            break
        pos = [i for i, (a, t) in enumerate(locs) if t == "NVM_RW_L"]
        if got == "accept":
            if reasons:
                if "locking" in reasons:
                    out.append(("C11:declaration:lockable-accepted-without-lock-byte",
                                "%s is accepted although the bank has no lock byte (lockable location at position %s of "
                                "%d inside the value)" % (how, "/".join(str(i + 1) for i in pos), len(locs))))
                else:
                    out.append(("C11:declaration:overlap-accepted", "%s is accepted although location(s) %s already "
                                "belong to another value" % (how, [hex(a) for a, _ in locs if a in occupied])))
                break
            accepted.append((cls, mls))
            occupied.update(a for a, _ in locs)
            tainted.difference_update(a for a, _ in locs)
        else:
            allowed = set(reasons) | ({"overlap"} if unsure else set())
            if got not in allowed:
                out.append(("C11:declaration:refused-" + got, "%s is refused (%s) although %s" % (
                    how, "MemoryLocationOverlap" if got == "overlap" else "LockingNotSupported",
                    "its locations are free and the bank %s" % ("has a lock byte" if has_lock else "needs no lock byte for it")
                    if not reasons else "the reason to refuse it is %s" % "/".join(sorted(reasons)))))
                break
            tainted.update(a for a, _ in locs if a not in occupied)
    # a value re-homed into another bank of the same kind by a subclass that overrides only `bank` (the same register
    # layout in a second vendor bank) is a declared value of that bank: in its location map, and in the way of others
    if not out and accepted:
        try:
            bank2 = loc.MemoryBank(case.get("bank", 150) + 1, 0xFE, has_lock=has_lock, has_latch=has_latch)
            base_cls, base_mls = accepted[0]
            moved = type(base_cls.__name__ + "Moved", (base_cls,), {"bank": bank2})
            for ml in base_mls:
                ent = bank2.locations[ml.address]
                if ent is None or ent.memory_value is not moved:
                    out.append(("C11:declaration:re-homed-value-not-in-its-bank", "%s: a subclass of the accepted value %s that only "
                                "overrides `bank` is not in the new bank's location map at %#04x (%r)"
                                % (how_bank, base_cls.__name__, ml.address, ent)))
                    break
            if not out and moved not in bank2.values:
                out.append(("C11:declaration:re-homed-value-not-in-its-bank", "%s: the re-homed value is not in bank.values" % how_bank))
            if not out:
                a0 = base_mls[0].address
                try:
                    type("OnTop", (loc.NumericValue,), {"bank": bank2, "locations": (loc.MemoryLocation(address=a0, type_=loc.MemoryType.ROM),)})
                    out.append(("C11:declaration:overlap-accepted", "%s: a value declared on location %#04x of the bank that holds the "
                                "re-homed value is accepted" % (how_bank, a0)))
                except loc.MemoryLocationOverlap:
                    pass
        except Exception as e:  # noqa
            out.append(("C11:declaration:raised", "%s: re-homing the first accepted value into a second bank raised %r" % (how_bank, e)))
    # the bank's location map afterwards (one root cause, one signature: not after a wrong verdict above)
    try:
        for cls, mls in ([] if out else accepted):
            for ml in mls:
                ent = bank.locations[ml.address]
                if ent is None or ent.memory_value is not cls or ent.memory_location is not ml:
                    out.append(("C11:declaration:location-map", "%s: after the declarations location %#04x does not "
                                "belong to the accepted value %s (%r)" % (how_bank, ml.address, cls.__name__, ent)))
                    break
            if cls not in bank.values:
                out.append(("C11:declaration:location-map", "%s: accepted value %s is not in bank.values"
                            % (how_bank, cls.__name__)))
        for a, ent in ({} if out else bank.locations).items():
            if ent is None:
                continue
            if a not in occupied and a not in tainted:
                out.append(("C11:declaration:location-map", "%s: location %#04x belongs to %r although no accepted "
                            "value is there" % (how_bank, a, ent.memory_value)))
                break
            if getattr(ent.memory_location.type_, "name", None) == "NVM_RW_L" and not has_lock:
                out.append(("C11:lockable-without-lock:user-bank", "%s: afterwards location %#04x (%s) is lockable "
                            "but the bank has no lock byte" % (how_bank, a, ent.memory_value.__name__)))
                break
        if bool(bank.has_lock) != has_lock or bool(bank.has_latch) != has_latch:
            out.append(("C11:declaration:bank-flags", "%s reports has_lock=%r has_latch=%r"
                        % (how_bank, bank.has_lock, bank.has_latch)))
    except Exception as e:  # noqa
        out.append(("C11:declaration:raised", "%s: reading the bank's location map raised %r" % (how_bank, e)))
    seen = {}
    for sig, msg in out:
        seen.setdefault(sig, msg)
    return list(seen.items())


def _declrules_nontrivial(case):
    """some declaration has to be refused, or mixes access types"""
    occupied = set(RM.bank_reserved(case["has_lock"], case["has_latch"]))
    for d in case["decls"]:
        locs = [(a, t) for a, t in d["locs"]]
        if RM.declaration_reasons(occupied, case["has_lock"], locs) or len({t for _, t in locs}) > 1:
            return True
        occupied.update(a for a, _ in locs)
    return False


def _declrules_labels(case):
    labs = ["declaration:bank:%s%s" % ("lock" if case["has_lock"] else "no-lock", "+latch" if case["has_latch"] else "")]
    occupied = set(RM.bank_reserved(case["has_lock"], case["has_latch"]))
    for d in case["decls"]:
        locs = [(a, t) for a, t in d["locs"]]
        r = RM.declaration_reasons(occupied, case["has_lock"], locs)
        labs.append("declaration:" + ("+".join(sorted(r)) if r else "legal"))
        if not r:
            occupied.update(a for a, _ in locs)
        else:
            break           # what follows a refusal may touch its locations (not judged)
    return labs


def declrules_sweep():
    """Deterministic part of (f)."""
    banks = [(False, False), (False, True), (True, False), (True, True)]
    others = [t for t in MEMTYPES if t != "NVM_RW_L"]
    B = lambda lk, lt, decls: {"op": "declrules", "has_lock": lk, "has_latch": lt, "decls": decls,    # noqa
                               "names": "same" if (len(decls) + len(decls[0]["locs"]) + lk) % 2 else "own"}
    V = lambda locs, **kw: dict(locs=[list(x) for x in locs], **kw)                                    # noqa
    for lk, lt in banks:
        # a lockable location at every position of a value of every width 1..6, the rest of every other type
        for w in range(1, 7):
            for p in range(w):
                for j, o in enumerate(others):
                    types = [o] * w
                    types[p] = "NVM_RW_L"
                    yield B(lk, lt, [V([(0x10 + i, t) for i, t in enumerate(types)], base=_BASES[(w + p + j) % 4],
                                       single=(w == 1 and j % 2 == 0), as_list=(j % 3 == 0))])
            yield B(lk, lt, [V([(0x10 + i, "NVM_RW_L") for i in range(w)])])
        # every combination of access types for widths 1..3 (ascending and descending addresses)
        for w in (1, 2, 3):
            for k in range(len(MEMTYPES) ** w):
                types = [MEMTYPES[(k // len(MEMTYPES) ** i) % len(MEMTYPES)] for i in range(w)]
                addrs = [0x20 + i for i in range(w)]
                if k % 2:
                    addrs.reverse()
                yield B(lk, lt, [V(list(zip(addrs, types)), base=_BASES[k % 4])])
        # overlap: the j-th location of a new value hits the i-th location of an accepted one (or the bank's own
        # locations 0x00 / 0x02), the others are free; afterwards the same value next to it is legal
        first = V([(0x30 + i, "NVM_RW") for i in range(4)])
        for w in range(1, 5):
            for j in range(w):
                for target in (0x30, 0x31, 0x33, 0x00, 0x02):
                    addrs = [0x60 + 8 * w + i for i in range(w)]
                    addrs[j] = target
                    for t in ("ROM", "NVM_RW_L"):
                        yield B(lk, lt, [first, V([(a, t if i == (j + 1) % w else "RAM_RW") for i, a in enumerate(addrs)]),
                                         V([(0x90 + i, "NVM_RO") for i in range(w)])])
        # a refused declaration does not keep later values from other locations, nor earlier ones from being there
        yield B(lk, lt, [V([(0x40, "NVM_RW"), (0x41, "NVM_RW_L")]), V([(0x50, "NVM_RW_L")]), V([(0x51, "ROM")]),
                         V([(0x52, "RAM_RO"), (0x51, "ROM")]), V([(0x53, "NVM_RW_P"), (0x54, "NVM_RW_L"), (0x55, "ROM")])])


def declrules_strategy():
    from hypothesis import strategies as st
    types = st.sampled_from(list(MEMTYPES) + ["NVM_RW_L", "NVM_RW", "ROM"])
    addr = st.one_of(st.integers(0, 12), st.integers(0, 12), st.integers(0, 0xFE))
    value = st.tuples(st.lists(addr, min_size=1, max_size=6, unique=True), st.lists(types, min_size=6, max_size=6),
                      st.sampled_from(_BASES), st.booleans(), st.booleans()).map(
        lambda t: dict(locs=[[a, ty] for a, ty in zip(t[0], t[1])], base=t[2], single=t[3], as_list=t[4]))
    return st.tuples(st.booleans(), st.booleans(), st.lists(value, min_size=1, max_size=7), st.sampled_from(["own", "own", "same"])).map(
        lambda t: {"op": "declrules", "has_lock": t[0], "has_latch": t[1], "decls": t[2], "names": t[3]})


def userlim_strategy():
    from hypothesis import strategies as st

    def spec(t):
        w, signed, mask, tmask, scaled, lo_k, hi_k, rk, rd, scale = t
        scaled = scaled and w >= 2
        signed = signed and not scaled
        nb = w - 1 if scaled else w
        bits = 8 * nb
        lo_ext, hi_ext = (-(1 << (bits - 1)), (1 << (bits - 1)) - 1) if signed else (0, (1 << bits) - 1)

        def lim(k):
            if k is None:
                return None
            anchor, d = k
            base = {0: 0, 1: lo_ext, 2: hi_ext, 3: (lo_ext + hi_ext) // 2, 4: 1 << max(0, bits - 9)}[anchor]
            return max(lo_ext, min(hi_ext, base + d))
        lo, hi = lim(lo_k), lim(hi_k)
        edges = [x for x in (lo, hi) if x is not None] + [0, -1, lo_ext, hi_ext, hi_ext - 1]
        v = max(lo_ext, min(hi_ext, edges[rk % len(edges)] + rd))
        body = (v & ((1 << bits) - 1)).to_bytes(nb, "big")
        raw = (bytes([scale]) if scaled else b"") + body
        return {"op": "userlim", "spec": _limit_spec(w, signed, mask, tmask, lo, hi, scaled), "raw": list(raw)}
    limk = st.one_of(st.none(), st.tuples(st.integers(0, 4), st.integers(-3, 3)))
    return st.tuples(st.integers(1, 8), st.booleans(), st.booleans(), st.booleans(), st.booleans(), limk, limk,
                     st.integers(0, 20), st.integers(-3, 3),
                     st.sampled_from([0, 1, 6, 7, 0xFA, 0xF9, 0xFF, 0x80])).map(spec)



# ------------------------------------------- (g) objects the caller edits afterwards ----
# Decoding and encoding are functions of the declaration and the bytes alone.  A program owns what it gets back from
# value_to_raw() and what it handed in: it may append to the returned buffer to assemble the image of consecutive
# locations (image = A.value_to_raw('TMASK'); image += B.value_to_raw(500)), overwrite or clear it, and reuse the
# bytearray it read into.  None of that may change what the class - or another class of the bank - recognises as
# MASK / TMASK, decodes or encodes from then on.
_ALIAS_EXTRA = b"\x00\x01\xf4"
RESULT_EDITS = ("iadd", "setitem", "clear", "fill", "reverse")


def _alias_probes(row):
    """A few byte strings of the row's width: the MASK and TMASK patterns (signed and unsigned spelling), zero, one,
    a plain number, the range edges."""
    w, kind = row["width"], row["kind"]
    if kind == "string":
        return [bytes(w), b"A" * w, (b"Hello\x00" + bytes(w))[:w], bytes([0xFF] * w), bytes([0xFF] * (w - 1) + [0xFE])]
    nb = w - 1 if kind == "scaled" else w
    pre = b"\x00" if kind == "scaled" else b""
    bodies = [RM.mask_pattern(nb, False), RM.tmask_pattern(nb, False), RM.mask_pattern(nb, True), RM.tmask_pattern(nb, True),
              [0] * nb, [0] * (nb - 1) + [1], ([0x00, 0x01, 0xF4] * nb)[:nb], [0xFF] * (nb - 1) + [0xFD]]
    for lim in (row["min"], row["max"]):
        if lim is not None:
            bodies.append(list((lim & ((1 << 8 * nb) - 1)).to_bytes(nb, "big")))
    seen, out = set(), []
    for b in bodies:
        raw = pre + bytes(b)
        if raw not in seen:
            seen.add(raw)
            out.append(raw)
    return out


def alias_args(row):
    """What value_to_raw is asked to encode in section (g): the literals, a few numbers or strings."""
    w, kind = row["width"], row["kind"]
    if kind == "string":
        return [["str", t] for t in dict.fromkeys(["", "A", "Hello"[:w], "x" * w, "x" * (w - 1)])]
    args = [["lit", "TMASK"], ["lit", "MASK"]]
    if _plain_number(row):
        lo, hi = RM.valid_range(row)
        nums = [x for x in dict.fromkeys([500, lo, hi, (lo + hi) // 2, 0, 1]) if lo <= x <= hi]
    else:
        nums = [0, 1]
    return args + [["num", x] for x in nums[:4]]


def _alias_value(arg):
    if arg[0] == "num" and isinstance(arg[1], int) and not isinstance(arg[1], bool):
        return arg[1]
    if arg[0] in ("lit", "str") and isinstance(arg[1], str):
        return arg[1]
    raise ValueError("alias argument %r" % (arg,))


def _obs(fn, *a):
    """Comparable record of one call."""
    try:
        v = fn(*a)
    except Exception as e:  # noqa: compared, not judged here (sections (a) / (b) judge what may raise)
        return ("raised", type(e).__name__)
    if isinstance(v, (bytes, bytearray)):
        return (type(v).__name__ if type(v) in (bytes, bytearray) else "bytes-like", bytes(v).hex())
    if isinstance(v, _lib()["location"].FlagValue):
        return ("flag", v.name)
    return (type(v).__name__, repr(v))


def _behaviour(cls, row, siblings):
    """What the class does right now: decode of the probes (check_raw, raw_to_value, from_list), encode of the
    section's arguments; of the other classes of its bank: what they make of their own MASK / TMASK patterns."""
    out = []
    for raw in _alias_probes(row):
        f = _obs(cls.check_raw, raw)
        out.append(("check_raw", raw.hex(), f))
        if f == ("NoneType", "None"):
            out.append(("raw_to_value", raw.hex(), _obs(cls.raw_to_value, raw)))
        img = [0] * 255
        for loc, b in zip(cls.locations, raw):
            img[loc.address] = b
        out.append(("from_list", raw.hex(), _obs(cls.from_list, img)))
    for arg in alias_args(row):
        out.append(("value_to_raw", repr(arg[1]), _obs(cls.value_to_raw, _alias_value(arg))))
    for scls, n, signed in siblings:
        for pat in (RM.mask_pattern(n, signed), RM.tmask_pattern(n, signed)):
            out.append((scls.__name__ + ".check_raw", bytes(pat).hex(), _obs(scls.check_raw, bytes(pat))))
        for lit in ("MASK", "TMASK"):
            out.append((scls.__name__ + ".value_to_raw", lit, _obs(scls.value_to_raw, lit)))
    return out


def _alias_siblings(key, cls):
    """The other numeric value classes on the same bank object: (class, number of pattern bytes, signed)."""
    out = []
    if key is None:
        return out
    pool = _synthetic()["classes"] if key.startswith("SYN.") else _lib()["classes"]
    for k, c in pool.items():
        if c is cls or getattr(c, "bank", None) is not cls.bank:
            continue
        r = _resolve(k)[1]
        if r is None or r["kind"] == "string" or len(c.locations) != r["width"]:
            continue
        out.append((c, r["width"] - (1 if r["kind"] == "scaled" else 0), r["signed"]))
    return out


def _mutable(obj):
    return isinstance(obj, (bytearray, list)) or (not isinstance(obj, (bytes, str, tuple)) and hasattr(obj, "__setitem__"))


def _edit(obj, how):
    """Edit obj the way its owner might; returns the name the owner's variable is bound to afterwards."""
    if how == "iadd":
        obj += (list(_ALIAS_EXTRA) if isinstance(obj, list) else _ALIAS_EXTRA)    # in place for a bytearray, a new object for bytes
        return obj
    if not _mutable(obj):
        return obj
    if how == "setitem":
        if len(obj):
            obj[-1] = obj[-1] ^ 0x01
            obj[0] = obj[0] ^ 0x80
    elif how == "clear":
        del obj[:]
    elif how == "fill":
        obj[:] = bytes(len(obj)) if not isinstance(obj, list) else [0] * len(obj)
    elif how == "reverse":
        obj.reverse()
        if len(obj):
            obj[0] = 0x00
    else:
        raise ValueError(how)
    return obj


def _first_diff(a, b):
    for x, y in zip(a, b):
        if x != y:
            return "%s(%s) was %s %s, is now %s %s" % (x[0], x[1], x[2][0], x[2][1], y[2][0], y[2][1])
    return "the number of observations changed"


def _check_alias(cls, row, key, arg):
    name = cls.__name__
    sibs = _alias_siblings(key, cls)
    base = _behaviour(cls, row, sibs)
    how_decl = "" if key is not None else " (declared by the program)"
    if arg[0] == "raw":
        # buffers handed IN: the caller's bytearray / list, reused after the call
        raw = bytes(arg[1])
        if len(raw) != row["width"]:
            raise ValueError("alias raw %r does not fit %s" % (arg, row["key"]))
        plain = _obs(cls.check_raw, raw) == ("NoneType", "None")

        def image(kind):
            img = [0] * 255
            for loc, b in zip(cls.locations, raw):
                img[loc.address] = b
            return img if kind == "list" else bytearray(img)
        calls = [("check_raw", cls.check_raw, lambda: bytearray(raw)), ("is_valid", cls.is_valid, lambda: bytearray(raw)),
                 ("from_list", cls.from_list, lambda: image("list")), ("from_list", cls.from_list, lambda: image("bytearray"))]
        if plain:
            calls.append(("raw_to_value", cls.raw_to_value, lambda: bytearray(raw)))
        # one call, then the caller edits what it handed in, then everything is observed again (a later call of the
        # class might replace what an earlier one kept)
        for meth, fn, make in calls:
            for how in RESULT_EDITS:
                given = make()
                _obs(fn, given)
                _edit(given, how)
                now = _behaviour(cls, row, sibs)
                if now != base:
                    return [("C11:raw-buffer-kept-by-class:" + name, "%s%s: %s was handed [%s] in a %s%s, then the caller "
                             "edited that object of its own (%s); afterwards the class behaves differently: %s"
                             % (name, how_decl, meth, _hex(raw), type(given).__name__,
                                " holding the bank image" if meth == "from_list" else "", how, _first_diff(base, now)))]
        return []
    value = _alias_value(arg)
    for how in RESULT_EDITS:
        try:
            r = cls.value_to_raw(value)
        except Exception:  # noqa: not every value encodes everything (judged by (b) where the statement says so)
            return []
        if not isinstance(r, (bytes, bytearray, list, tuple)) and not _mutable(r):
            return []
        keep = bytes(r) if not isinstance(r, (list, tuple)) else None
        mutable = _mutable(r)
        if not mutable and how != "iadd":
            continue
        _edit(r, how)
        now = _behaviour(cls, row, sibs)
        if mutable and keep is not None:
            r[:] = keep                # put the bytes back: a later case must not inherit this one's edit
        if now != base:
            return [("C11:encode-result-shares-class-state:" + name, "%s%s: after the caller edited the %s returned by "
                     "value_to_raw(%r) in place (%s, e.g. image = A.value_to_raw(..); image += B.value_to_raw(..)) the class "
                     "behaves differently: %s" % (name, how_decl, type(r).__name__, value, how, _first_diff(base, now)))]
    return []


def alias_user_specs():
    """Declarations of the program's own that section (g) runs on as well (signed / unsigned / scaled, with flags)."""
    out = []
    for w in (1, 2, 3, 4, 8):
        for signed in (False, True):
            out.append(_limit_spec(w, signed, True, True, None, None))
        out.append(_limit_spec(w, False, False, True, None, (1 << 8 * w) - 3))
    for w in (2, 5):
        out.append(_limit_spec(w, False, True, True, None, None, scaled=True))
    return out


def _alias_target(case):
    """-> (cls, row, key or None) of an alias case, or (None, row, key)"""
    if "spec" in case:
        cls, row = _limit_class(case["spec"])
        return cls, row, None
    cls, row = _resolve(case["key"])
    if row is None:
        raise ValueError("no table row " + case["key"])
    if cls is None or len(cls.locations) != row["width"]:
        return None, row, case["key"]
    return cls, row, case["key"]


# ------------------------- (h) a generated family of the program's own declarations, (i) order of first use ----
# harness.ref_memory.family(seed): ~190 declarations over the documented declaration features - base class (NumericValue,
# FixedScaleNumericValue incl. signed, TemperatureValue, StringValue, BinaryValue, VersionNumberValue, ScaledNumericValue),
# derivation (from the abstract base, from a shipped concrete value such as oem.CRI / oem.InputPowerNominal, from another
# value of the family - with another width, signedness, limits, flag support), 1..12 locations ascending / descending / with
# gaps / scattered up to 0xFE, every access type / none / mixed, banks with and without lock and latch byte.  What a
# declaration means is the reference's family_row(): an attribute the class body does not set is the parent's; the MASK /
# TMASK patterns are those of the value's own width and signedness; the bytes come from the locations in declared order.
_FAM = {}
FAMILY_MODES = ("as-declared", "parent-first", "child-first", "abstract-first+parent-first", "abstract-first+child-first",
                "abstract-first+as-declared")


def _fam_bases():
    loc = _lib()["location"]
    out = {}
    for name in RM.ABSTRACT_BASES:
        try:
            if name == "ScaledNumericValue":
                from dali.memory import energy
                out[name] = energy.ScaledNumericValue
            else:
                out[name] = getattr(loc, name)
        except Exception:  # noqa: reported as a declaration that cannot be made
            pass
    return out


def _fam_parent(decl, bases, classes):
    kind, ref = decl["parent"]
    if kind == "abstract":
        return bases.get(ref), None
    if kind == "stock":
        return _lib()["classes"].get(ref), RM.BY_KEY[ref]
    return classes.get(ref), RM.family(int(RM.family_of_key(ref)))["rows"][ref]


def _touch(cls, row):
    """What a program does when it first uses a class: decode one plain byte string."""
    if cls is None or row is None:
        return
    try:
        raw = bytes([0x00] * (row["width"] - 1) + [0x01])
        img = [0] * 255
        for a, b in zip(_addrs(cls, row), raw):
            img[a] = b
        cls.from_list(img)
        cls.check_raw(raw)
    except Exception:  # noqa: judged where the class is decoded, not here
        pass


def _family_classes(seed):
    """Declare the family of `seed` in this process (once), each declaration in its own order of first use.
    -> {"fam", "classes": {key: cls}, "banks": {bankobj: MemoryBank}, "errors": {key: text}}"""
    seed = int(seed)
    if seed in _FAM:
        return _FAM[seed]
    loc = _lib()["location"]
    fam = RM.family(seed)
    bases = _fam_bases()
    banks, classes, errors = {}, {}, {}
    for bk, b in fam["banks"].items():
        try:
            banks[bk] = RM.declare_bank(b, loc)
        except Exception as e:  # noqa
            errors[bk] = "MemoryBank(%d, %#x, has_lock=%s, has_latch=%s) raised %r" % (b["bank"], b["last"], b["has_lock"], b["has_latch"], e)
    for d in fam["decls"]:
        key = "%s.%s" % (d["bankobj"], d["name"])
        parent, prow = _fam_parent(d, bases, classes)
        if d["bankobj"] not in banks or parent is None:
            errors[key] = errors.get(d["bankobj"]) or "the parent %s does not exist" % d["parent"][1]
            continue
        try:
            if d["order"] == "parent-first":
                _touch(parent, prow)
            classes[key] = RM.declare_value(d, banks[d["bankobj"]], parent, loc)
        except Exception as e:  # noqa: a legal declaration must be accepted
            errors[key] = "class %s(%s) with locations %s raised %r" % (
                d["name"], d["parent"][1], ", ".join("%#04x %s" % lt for lt in zip(d["locs"], d["types"])), e)
            continue
        if d["order"] == "child-first" or prow is None:
            _touch(classes[key], fam["rows"][key])
    _FAM[seed] = dict(fam=fam, classes=classes, banks=banks, errors=errors)
    return _FAM[seed]


def _fam_how(fam, key):
    d = next(x for x in fam["decls"] if "%s.%s" % (x["bankobj"], x["name"]) == key)
    r = fam["rows"][key]
    b = fam["banks"][d["bankobj"]]
    sets = ", ".join("%s=%r" % kv for kv in sorted(d["attrs"].items())) or "nothing else"
    return ("value %s declared by the program: class %s(%s) in a bank with has_lock=%s has_latch=%s, locations %s (given as %s), "
            "class body sets %s [meaning: %s%s, %d byte(s), MASK %s, TMASK %s, min %r, max %r%s]" % (
                key, d["name"], d["parent"][1], b["has_lock"], b["has_latch"],
                " ".join("%#04x:%s" % lt for lt in zip(d["locs"], d["types"])), d["form"], sets, r["kind"],
                " signed" if r["signed"] else "", r["width"], r["mask"], r["tmask"], r["min"], r["max"],
                ", x10^%d" % r["exp10"] if r["kind"] == "fixed" else ""))


def _fam_sig(row, what):
    return "C11:declared-by-program:%s%s:%s" % (row["kind"], "-signed" if row["signed"] else "", what)


def _check_family_layout(seed, key):
    F = _family_classes(seed)
    fam = F["fam"]
    row = fam["rows"][key]
    how = _fam_how(fam, key)
    if key in F["errors"]:
        return [("C11:declared-by-program:declaration-refused", "%s: a legal declaration (free locations, lockable only where the "
                 "bank has a lock byte) cannot be made: %s" % (how, F["errors"][key]))]
    cls, bank = F["classes"][key], F["banks"][row["bankobj"]]
    out = []
    try:
        addrs = [l.address for l in cls.locations]
        types = [getattr(l.type_, "name", None) if l.type_ is not None else None for l in cls.locations]
        if addrs != row["locs"]:
            out.append((_fam_sig(row, "layout"), "%s: the class's locations are %s, declared (in value order) %s"
                        % (how, [hex(a) for a in addrs], [hex(a) for a in row["locs"]])))
        elif types != list(row["memtype"]):
            out.append((_fam_sig(row, "layout"), "%s: the class's access types are %s, declared %s" % (how, types, list(row["memtype"]))))
        if cls.bank is not bank or bank.address != row["bank"]:
            out.append((_fam_sig(row, "layout"), "%s: the class hangs on bank %r" % (how, cls.bank)))
        for a in row["locs"]:
            ent = bank.locations[a]
            if ent is None or ent.memory_value is not cls:
                out.append((_fam_sig(row, "layout"), "%s: location %#04x of its bank belongs to %r" % (how, a, ent)))
                break
        if cls not in bank.values:
            out.append((_fam_sig(row, "layout"), "%s: the class is not among its bank's values" % how))
    except Exception as e:  # noqa
        out.append((_fam_sig(row, "layout"), "%s: reading the declaration back raised %r" % (how, e)))
    return out[:1]


def _check_family(seed, key, raw, forms=FORMS):
    F = _family_classes(seed)
    fam = F["fam"]
    row = fam["rows"][key]
    if key in F["errors"]:
        return _check_family_layout(seed, key)
    out = []
    for sig, msg in _check_decode(F["classes"][key], row, bytes(raw), forms):
        what = sig.split(":")[1]
        out.append((_fam_sig(row, what), "%s: %s" % (_fam_how(fam, key), msg)))
    return out


def _check_family_inverse(seed, key, x):
    F = _family_classes(seed)
    fam = F["fam"]
    row = fam["rows"][key]
    if key in F["errors"]:
        return _check_family_layout(seed, key)
    cls = F["classes"][key]
    vs = _check_rtstr(cls, row, x) if isinstance(x, str) else _check_rtnum(cls, row, x)
    return [(_fam_sig(row, "roundtrip"), "%s: %s" % (_fam_how(fam, key), msg)) for _, msg in vs]


def family_raws(row, seed):
    """Byte strings one family value is decoded from: all of them for one byte, else the boundary set (+ a few
    pseudo-random ones)."""
    w = row["width"]
    if w == 1:
        return [bytes([v]) for v in range(256)]
    if row["kind"] == "scaled":
        raws = _with_edges(image_choices(row), row)
    else:
        raws = boundary_raws(row)
    if len(raws) > 500:
        k = len(raws) // 400 + 1
        raws = raws[seed % k::k]
    import hashlib
    extra = [hashlib.blake2b(b"%d:%s:%d" % (seed, row["key"].encode(), i), digest_size=w if w <= 64 else 64).digest()[:w]
             for i in range(8)]
    seen = set(raws)
    return list(raws) + [e for e in extra if len(e) == w and e not in seen]


def family_inverse_args(row, seed):
    if row["kind"] == "uint":
        lo, hi = RM.valid_range(row)
        xs = {lo, hi, lo + 1, hi - 1, (lo + hi) // 2, 0, 1, -1, 255, 256, -128, 127, 128}
        return sorted(x for x in xs if lo <= x <= hi)
    if row["kind"] == "string":
        w = row["width"]
        return sorted({"", "A", "x" * w, "x" * (w - 1), "Hello world!"[:w], "\x01" * w, "\x7f" * max(0, w - 1),
                       "".join(chr(0x21 + (i * 7 + seed) % 94) for i in range(w))})
    return []


# (i) the same family in a FRESH interpreter, with the order of first use arranged: parent classes decoded before the
# derived class is declared ("parent-first"), derived classes declared and decoded before anything they derive from
# ("child-first"), each declaration in its own order ("as-declared"); optionally after the program has interpreted loose
# bytes with the abstract base classes themselves (NumericValue.check_raw(b'\x12\x34') ...).  Every decode of every phase is
# judged: what a class decodes depends on its own declaration, never on which class was used first.
ABSTRACT_USES = [
    # base, method, raw bytes (hex), expected: ["none"] | ["flag", name] | ["value", type name, text]
    ("NumericValue", "check_raw", "1234", ["none"]), ("NumericValue", "raw_to_value", "1234", ["value", "int", "4660"]),
    ("NumericValue", "check_raw", "ff", ["none"]), ("NumericValue", "raw_to_value", "ff", ["value", "int", "255"]),
    ("NumericValue", "check_raw", "00", ["none"]),
    ("FixedScaleNumericValue", "check_raw", "0010", ["none"]), ("FixedScaleNumericValue", "raw_to_value", "0010", ["value", "int", "16"]),
    ("TemperatureValue", "check_raw", "5a", ["none"]), ("TemperatureValue", "raw_to_value", "5a", ["value", "int", "30"]),
    ("TemperatureValue", "check_raw", "ff", ["none"]),
    ("StringValue", "check_raw", "61620063", ["none"]), ("StringValue", "raw_to_value", "61620063", ["value", "str", "ab"]),
    ("BinaryValue", "check_raw", "01", ["none"]), ("BinaryValue", "raw_to_value", "01", ["value", "bool", "True"]),
    ("BinaryValue", "check_raw", "02", ["flag", RM.INVALID]),
    ("VersionNumberValue", "check_raw", "09", ["none"]), ("VersionNumberValue", "raw_to_value", "09", ["value", "str", "2.1"]),
    ("VersionNumberValue", "raw_to_value", "0201", ["value", "str", "2.1"]),
    ("ScaledNumericValue", "check_raw", "0700", ["flag", RM.INVALID]), ("ScaledNumericValue", "check_raw", "ff0005", ["none"]),
    ("ScaledNumericValue", "raw_to_value", "ff0005", ["value", "Decimal", "0.5"]),
]


def family_probes(row):
    """The byte strings every use of a class in a fresh-interpreter program decodes."""
    if row["kind"] == "string":
        sb = string_boundaries(row["width"])
        return sb[::max(1, len(sb) // 40)]
    return image_choices(row)


def _use_enc(cls, row):
    img0 = [0] * 255
    out = []
    for raw in family_probes(row):
        img = list(img0)
        for a, b in zip(_addrs(cls, row), raw):
            img[a] = b
        try:
            out.append(_enc(_tag(cls.from_list(img))))
        except Exception as e:  # noqa: reported by the parent
            out.append(["raised", "%s: %s" % (type(e).__name__, e)])
    return out


def family_main(spec):
    """Runs in a fresh interpreter (see __main__): spec = {"seed": n, "mode": one of FAMILY_MODES}.
    -> {"abstract": [...], "uses": [[phase, key, [encoded decode results]]], "errors": {key: text}}"""
    seed, mode = int(spec["seed"]), spec["mode"]
    order = mode.split("+")[-1]
    L = _lib()                          # imports the library's bank modules; decodes nothing
    loc = L["location"]
    fam = RM.family(seed)
    bases = _fam_bases()
    out = {"abstract": [], "uses": [], "errors": {}}
    if mode.startswith("abstract-first"):
        for base, meth, hx, _ in ABSTRACT_USES:
            try:
                v = getattr(bases[base], meth)(bytes.fromhex(hx))
                out["abstract"].append(["none"] if v is None else _enc(_tag(v)))
            except Exception as e:  # noqa
                out["abstract"].append(["raised", "%s: %s" % (type(e).__name__, e)])
    banks, classes = {}, {}
    for bk, b in fam["banks"].items():
        try:
            banks[bk] = RM.declare_bank(b, loc)
        except Exception as e:  # noqa
            out["errors"][bk] = repr(e)
    used_stock = []

    def use(phase, key, cls, row):
        if cls is not None:
            out["uses"].append([phase, key, _use_enc(cls, row)])

    for d in fam["decls"]:
        key = "%s.%s" % (d["bankobj"], d["name"])
        parent, prow = _fam_parent(d, bases, classes)
        if d["bankobj"] not in banks or parent is None:
            out["errors"][key] = "bank or parent missing"
            continue
        how = d["order"] if order == "as-declared" else order
        if prow is not None and how == "parent-first":
            use("parent-before-child-is-declared", d["parent"][1], parent, prow)
        try:
            classes[key] = RM.declare_value(d, banks[d["bankobj"]], parent, loc)
        except Exception as e:  # noqa
            out["errors"][key] = "%s: %s" % (type(e).__name__, e)
            continue
        if d["parent"][0] == "stock" and d["parent"][1] not in used_stock:
            used_stock.append(d["parent"][1])
        if order == "as-declared" or how == "parent-first":
            use("first-use", key, classes[key], fam["rows"][key])
            if prow is not None and how == "child-first":
                use("parent-after-child", d["parent"][1], parent, prow)
    if order == "child-first":
        # everything is declared, nothing decoded yet: children before what they derive from
        for d in reversed(fam["decls"]):
            key = "%s.%s" % (d["bankobj"], d["name"])
            use("first-use-children-first", key, classes.get(key), fam["rows"][key])
        for ref in used_stock:
            use("shipped-parent-last", ref, L["classes"].get(ref), RM.BY_KEY[ref])
    for d in fam["decls"]:
        key = "%s.%s" % (d["bankobj"], d["name"])
        use("again", key, classes.get(key), fam["rows"][key])
    for ref in used_stock:
        use("again", ref, L["classes"].get(ref), RM.BY_KEY[ref])
    return out


def _check_family_program(spec):
    """-> ([(sig, msg)], number of decodes compared, number of those where the reference says MASK / TMASK / Invalid)"""
    import json
    import os
    import subprocess
    import sys
    from harness.runner import REPO, VERIF
    if spec.get("mode") not in FAMILY_MODES:
        raise ValueError("family program %r" % (spec,))
    env = dict(os.environ, PYTHONHASHSEED="0", VERIF_REPO=REPO, PYTHONPATH=VERIF)
    r = subprocess.run([sys.executable, "-B", os.path.abspath(__file__), "--family", json.dumps(spec)], env=env,
                       capture_output=True, text=True, cwd=VERIF)
    how = "a program that declares the generated family %d in a fresh interpreter, order of first use '%s'" % (spec["seed"], spec["mode"])
    if r.returncode != 0:
        tail = r.stderr.strip().splitlines()[-1:] or [""]
        if "dali" not in r.stderr:
            raise RuntimeError("family subprocess failed without the library being involved: " + r.stderr[-1500:])
        return [("C11:declared-by-program:program-raised", "%s fails: %s" % (how, tail[0][:400]))], 0, 0
    got = json.loads(r.stdout)
    fam = RM.family(spec["seed"])
    out, n, nflag = [], 0, 0
    for key, err in sorted(got["errors"].items()):
        out.append(("C11:declared-by-program:declaration-refused", "%s: %s cannot be declared: %s" % (how, key, err)))
    for (base, meth, hx, want), g in zip(ABSTRACT_USES, got["abstract"]):
        n += 1
        if g != want:
            out.append(("C11:abstract-base-on-loose-bytes:" + base, "%s: %s.%s(bytes.fromhex(%r)) gave %r, the documented "
                        "encoding says %r" % (how, base, meth, hx, g[1:] or g, want[1:] or want)))
    for phase, key, results in got["uses"]:
        row = fam["rows"].get(key) or RM.BY_KEY[key]
        for raw, b in zip(family_probes(row), results):
            n += 1
            ref = RM.decode_tagged(row, raw)
            nflag += ref[0] == "flag"
            if b[0] == "raised" or not _accept(_dec(b), ref, row, raw):
                who = _fam_how(fam, key) if key in fam["rows"] else "shipped value %s (parent of a value declared by the program)" % key
                out.append(("C11:shipped-value-next-to-program-declarations" if key in RM.BY_KEY else _fam_sig(row, "in-fresh-interpreter"),
                            "%s, phase '%s': %s decodes [%s] to %r, reference says %r" % (how, phase, who, _hex(raw), b[-1], ref[1])))
                break
    seen = {}
    for sig, msg in out:
        seen.setdefault(sig, msg)
    return list(seen.items()), n, nflag


# ------------------------------------------------------------------ run_case ----
def run_case(case):
    op = case["op"]
    if op == "family":
        if "x" in case:
            return _check_family_inverse(case["seed"], case["key"], case["x"])
        if "raw" in case:
            return _check_family(case["seed"], case["key"], bytes(case["raw"]))
        return _check_family_layout(case["seed"], case["key"])
    if op == "family-program":
        return _check_family_program(case["spec"])[0]
    if op == "decode":
        cls, row = _resolve(case["key"])
        if row is None:
            raise ValueError("no table row " + case["key"])
        if cls is None:
            return _check_layout(case["key"])
        if len(cls.locations) != row["width"]:
            return _check_layout(case["key"])
        return _check_decode(cls, row, bytes(case["raw"]))
    if op == "rtnum":
        cls, row = _resolve(case["key"])
        if cls is None or len(cls.locations) != row["width"]:
            return _check_layout(case["key"])
        return _check_rtnum(cls, row, case["x"])
    if op == "rtstr":
        cls, row = _resolve(case["key"])
        if cls is None or len(cls.locations) != row["width"]:
            return _check_layout(case["key"])
        return _check_rtstr(cls, row, case["s"])
    if op == "layout":
        return _check_layout(case["key"])
    if op == "bank":
        return _check_bank(case["bank"])
    if op == "image":
        return _check_image(case["bank"], list(case["image"]))
    if op == "import":
        return _check_import(case["module"])
    if op == "total":
        return _check_total(case["key"], bytes(case["raw"]))
    if op == "history":
        return _check_history(case["steps"])[0]
    if op == "userlim":
        return _check_userlim(case["spec"], bytes(case["raw"]))
    if op == "declrules":
        return _check_declrules(case)
    if op == "alias":
        cls, row, key = _alias_target(case)
        if cls is None:
            return _check_layout(key)
        return _check_alias(cls, row, key, case["arg"])
    raise ValueError(op)


# -------------------------------------------------------------------- shards ----
def _usable(key):
    cls, row = _resolve(key)
    return cls is not None and row is not None and len(cls.locations) == row["width"]


def _enum_decode(res, key, raws, nt_fingerprint=False, rotate=None):
    """Run the decode check over an iterable of byte strings (distinct by construction).  rotate=k: every byte
    string is decoded from ONE spelling of the bank image, taking turns (starting with FORMS[k]); otherwise from
    all of them."""
    cls, row = _resolve(key)
    nf = len(FORMS)
    for raw in raws:
        res.count()
        if rotate is not None:
            forms = (FORMS[rotate % nf],)
            rotate += 1
            res.hist["bank-image-as:" + forms[0]] += 1
        else:
            forms = FORMS
            res.hist["bank-image-as:every-form"] += 1
        ref = RM.decode_tagged(row, raw)
        if _nontrivial(row, raw, ref):
            if nt_fingerprint:   # same fingerprint form as the Hypothesis cases, so overlaps are not counted twice
                res.nontrivial({"op": "decode", "key": key, "raw": list(raw)})
            else:
                res.nontrivial()
        res.hist[_refclass(ref)] += 1
        vs = _check_decode(cls, row, raw, forms)
        for sig, msg in vs:
            res.violation(sig, {"op": "decode", "key": key, "raw": list(raw)}, msg)


def _hyp_raw_strategy(row):
    from hypothesis import strategies as st
    w, kind = row["width"], row["kind"]

    def near(width, r):
        full = (1 << (8 * width)) - 1
        edges = [int.from_bytes(b, "big") for b in number_boundaries(width, r)]
        return st.one_of(
            st.binary(min_size=width, max_size=width),
            st.tuples(st.sampled_from(edges), st.integers(-3, 3)).map(
                lambda t: (max(0, min(full, t[0] + t[1]))).to_bytes(width, "big")),
            st.integers(0, full).map(lambda v: v.to_bytes(width, "big")))

    if kind == "string":
        ascii_ = st.integers(1, 0x7F)
        anyb = st.integers(0, 255)

        def build(t):
            k, pre, poison, pos, hasnul, tail = t
            pre = list(pre[:k])
            if poison and pre:
                pre[pos % len(pre)] = 0x80 | (pos & 0x7F)
            body = pre + ([0] if hasnul else [])
            body = (body + list(tail))[:w]
            body += [0] * (w - len(body))
            return bytes(body)
        # text of a real device label: mostly ASCII with some characters outside ASCII, stored in one of the
        # usual encodings; NUL-terminated (zero or arbitrary tail) or filling the field completely
        chars = st.one_of(st.characters(min_codepoint=0x20, max_codepoint=0x7E),
                          st.characters(min_codepoint=0x80, max_codepoint=0x10FFFF, exclude_categories=("Cs",)),
                          st.sampled_from("éüßñΩ€中😀"))

        def build_text(t):
            s, enc, mode, tail = t
            try:
                b = s.encode(enc)
            except UnicodeEncodeError:
                b = s.encode("utf-8")
            if mode == 0:                   # terminated, zero tail
                body = b[:w - 1] + bytes(w)
            elif mode == 1:                 # terminated, arbitrary tail
                body = b[:w - 1] + b"\x00" + bytes(tail)
            elif mode == 2:                 # fills the field, no terminator
                body = (b * (w // max(1, len(b)) + 1)) if b else bytes([0x41] * w)
            else:                           # right-aligned: the text ends exactly at the end of the field
                body = (bytes([0x41] * w) + b)[-w:]
            return bytes(body[:w])
        return st.one_of(
            st.binary(min_size=w, max_size=w),
            st.tuples(st.integers(0, w), st.lists(ascii_, min_size=w, max_size=w), st.booleans(),
                      st.integers(0, 255), st.booleans(), st.lists(anyb, min_size=w, max_size=w)).map(build),
            st.tuples(st.text(alphabet=chars, max_size=w), st.sampled_from(["utf-8", "utf-8", "latin-1", "utf-16-le"]),
                      st.integers(0, 3), st.lists(anyb, min_size=w, max_size=w)).map(build_text))
    if kind == "scaled":
        scale = st.one_of(st.sampled_from([0, 1, 5, 6, 7, 8, 0x7F, 0x80, 0xF8, 0xF9, 0xFA, 0xFB, 0xFF]),
                          st.integers(0, 255))
        return st.tuples(scale, near(w - 1, row)).map(lambda t: bytes([t[0]]) + t[1])
    return near(w, row)


def _shard(arg):
    kind = arg[0]
    res = Result()
    L = _lib()

    if kind == "enum":            # complete (or strided) enumeration of a 1/2/3-byte value
        _, key, lo, hi, stride = arg
        cls, row = _resolve(key)
        w = row["width"]
        if stride == 1:
            raws = (v.to_bytes(w, "big") for v in range(lo, hi, stride))
        else:       # strided sweep: the boundary set is covered (and counted) by the "wide" shard of this value
            skip = set(boundary_raws(row))
            raws = (b for b in (v.to_bytes(w, "big") for v in range(lo, hi, stride)) if b not in skip)
        _enum_decode(res, key, raws, rotate=(lo // 251 + w) % len(FORMS))
        if lo == 0 and stride == 1:
            res.label("kind:" + row["kind"] + ("-signed" if row["signed"] else ""))
            res.sample({"op": "decode", "key": key, "raw": list((0xFFFE & ((1 << 8 * w) - 1)).to_bytes(w, "big"))},
                       cls="enum-w%d" % w)

    elif kind == "wide":          # boundary set + Hypothesis for values wider than 2 bytes
        _, key, seed, n = arg
        cls, row = _resolve(key)
        _enum_decode(res, key, boundary_raws(row), nt_fingerprint=True, rotate=seed % len(FORMS))
        res.label("kind:" + row["kind"] + ("-signed" if row["signed"] else ""))
        from harness.hyp import search
        strat = _hyp_raw_strategy(row).map(lambda b: {"op": "decode", "key": key, "raw": list(b)})
        search(strat, run_case, res, n, seed, ID,
               nontrivial=lambda c: _nontrivial(row, bytes(c["raw"])),
               classify=lambda c: [_refclass(RM.decode_tagged(row, c["raw"]))])

    elif kind == "rtnum":
        _, key, seed = arg
        cls, row = _resolve(key)
        lo, hi = RM.valid_range(row)
        w = row["width"]
        if w <= 2:
            xs = range(lo, hi + 1)
        else:
            span = hi - lo
            step = max(1, span // 20011)
            xs = set(range(lo + seed % step, hi + 1, step))
            for b in number_boundaries(w, row):
                v = int.from_bytes(b, "big", signed=row["signed"])
                for d in (-1, 0, 1):
                    if lo <= v + d <= hi:
                        xs.add(v + d)
            xs = sorted(xs)
        for x in xs:
            res.count()
            res.nontrivial()
            for sig, msg in _check_rtnum(cls, row, x):
                res.violation(sig, {"op": "rtnum", "key": key, "x": x}, msg)
        res.label("inverse:number")
        res.sample({"op": "rtnum", "key": key, "x": hi}, cls="rtnum")

    elif kind == "rtstr":
        _, key, seed, n = arg
        cls, row = _resolve(key)
        w = row["width"]
        seen = set()
        for ln in range(w + 1):
            cands = ["A" * ln, "\x7f" * ln, "\x01" * ln,
                     "".join(chr(0x20 + (i + seed) % 95) for i in range(ln)),
                     "".join(chr(1 + (i * 37 + seed + ln) % 127) for i in range(ln))]
            for p in range(ln):
                cands.append("B" * p + "\x01" + "B" * (ln - p - 1))
                cands.append("B" * p + "\x7f" + "B" * (ln - p - 1))
            for s in cands:
                if s in seen:
                    continue
                seen.add(s)
                res.count()
                res.nontrivial()
                for sig, msg in _check_rtstr(cls, row, s):
                    res.violation(sig, {"op": "rtstr", "key": key, "s": s}, msg)
        from hypothesis import strategies as st
        from harness.hyp import search
        strat = st.text(alphabet=st.characters(min_codepoint=1, max_codepoint=0x7F), max_size=w).map(
            lambda s: {"op": "rtstr", "key": key, "s": s})
        search(strat, run_case, res, n, seed, ID)
        res.label("inverse:string")
        res.sample({"op": "rtstr", "key": key, "s": "A" * w}, cls="rtstr")

    elif kind == "layout":
        keys = sorted(set(RM.BY_KEY) | set(k for k in L["classes"]))
        untabled = []
        for key in keys:
            if key not in RM.BY_KEY:
                untabled.append(key)
                cls = L["classes"][key]
                w = len(cls.locations)
                for raw in (bytes(w), bytes([0xFF] * w), bytes([0xFF] * (w - 1) + [0xFE]), bytes([0x80] * w),
                            bytes([0x7F] + [0xFF] * (w - 1)), bytes(range(1, w + 1))):
                    res.count()
                    for sig, msg in _check_total(key, raw):
                        res.violation(sig, {"op": "total", "key": key, "raw": list(raw)}, msg)
                continue
            res.count()
            res.nontrivial()
            for sig, msg in _check_layout(key):
                res.violation(sig, {"op": "layout", "key": key}, msg)
        for bk in sorted(set(RM.BANKS) | set(L["banks"])):
            res.count()
            res.nontrivial()
            for sig, msg in _check_bank(bk):
                res.violation(sig, {"op": "bank", "bank": bk}, msg)
        for module in sorted(L["import_errors"]):
            res.count()
            for sig, msg in _check_import(module):
                res.violation(sig, {"op": "import", "module": module}, msg)
        for key in sorted(_synthetic()["rows"]):
            res.count()
            for sig, msg in _check_layout(key):
                res.violation(sig, {"op": "layout", "key": key}, msg)
        res.extra["untabled"] = untabled
        res.extra["untabled_banks"] = sorted(set(L["banks"]) - set(RM.BANKS))
        last_mismatch = {}
        for bk, (bank, _) in L["banks"].items():
            if bk in RM.BANKS:
                try:
                    d = bank.LastAddress.locations[0].default
                except Exception as e:  # noqa
                    d = repr(e)
                if d != RM.BANKS[bk]["last"]:
                    last_mismatch[bk] = {"library": d, "table": RM.BANKS[bk]["last"]}
        res.extra["bank_last_location_mismatch"] = last_mismatch
        res.label("layout:rows", len(RM.ROWS))
        res.sample({"op": "layout", "key": "BANK_0.GTIN"}, cls="layout")

    elif kind == "image":
        _, bk, seed, n = arg
        from hypothesis import strategies as st
        from harness.hyp import search
        rows = [r for r in RM.ROWS if r["bankobj"] == bk]
        parts = [st.one_of(st.sampled_from(image_choices(r)), st.binary(min_size=r["width"], max_size=r["width"]))
                 for r in rows]

        def build(t):
            img = list(t[0])
            for r, raw in zip(rows, t[1:]):
                img[r["first"]:r["last"] + 1] = list(raw)
            return {"op": "image", "bank": bk, "image": img}
        strat = st.tuples(st.binary(min_size=255, max_size=255), *parts).map(build)
        # a few fixed images first
        for fill in (0x00, 0xFF, 0xFE, 0x01, 0x80):
            case = {"op": "image", "bank": bk, "image": [fill] * 255}
            res.count()
            res.nontrivial(case)
            for sig, msg in run_case(case):
                res.violation(sig, case, msg)
        case = {"op": "image", "bank": bk, "image": [(i * 7 + seed) & 0xFF for i in range(255)]}
        res.count()
        res.nontrivial(case)
        for sig, msg in run_case(case):
            res.violation(sig, case, msg)
        search(strat, run_case, res, n, seed, ID)
        res.label("image:" + bk)
    elif kind == "history":
        _, steps = arg
        case = {"op": "history", "steps": steps}
        vs, n, nflag = _check_history(steps)
        res.count(n)
        res.nontrivial(n=nflag)
        res.label("history:" + ("declarations-first" if steps[0][0] == "declare" else "imports-first"), n)
        for sig, msg in vs:
            res.violation(sig, case, msg)
        res.sample(case, cls="history")
    elif kind == "userlim":       # (e) declared range limits: every declaration of one width x boundary byte strings
        _, w, scaled, seed, n = arg
        rot = seed + w
        for spec in (temp_specs(w) if scaled == "temp" else limit_specs(w, scaled)):
            try:
                row = _limit_class(spec)[1]
            except Exception:  # noqa: reported by _check_userlim
                row = _limit_row(spec)
            for raw in _limit_raws(row):
                res.count()
                ref = RM.decode_tagged(row, raw)
                if _nontrivial(row, raw, ref):
                    res.nontrivial()
                res.hist[_refclass(ref)] += 1
                rot += 1
                for sig, msg in _check_userlim(spec, raw, (FORMS[rot % len(FORMS)],)):
                    res.violation(sig, {"op": "userlim", "spec": spec, "raw": list(raw)}, msg)
            res.hist["declared-limits:%s%s" % ("none" if spec["min"] is None and spec["max"] is None else
                                                 "zero" if 0 in (spec["min"], spec["max"]) else "non-zero",
                                                 "-signed" if spec["signed"] else "")] += 1
        res.label("user-declared:%s-%dB" % ("temperature-own-offset" if scaled == "temp" else "scaled" if scaled else "number", w))
        if n:
            from harness.hyp import search
            search(userlim_strategy(), run_case, res, n, seed, ID,
                   nontrivial=lambda c: _nontrivial(_limit_row(c["spec"]), bytes(c["raw"])),
                   classify=lambda c: [_refclass(RM.decode_tagged(_limit_row(c["spec"]), c["raw"]))])
        if scaled == "temp":
            res.sample({"op": "userlim", "spec": _limit_spec(w, False, False, True, None, None, False, 40),
                        "raw": [0x5A] * w}, cls="userlim")
        else:
            res.sample({"op": "userlim", "spec": _limit_spec(w, not scaled, True, True, 0, None, scaled),
                        "raw": [0xFF] * w}, cls="userlim")

    elif kind == "declrules":     # (f) what is accepted / refused when a value is declared
        _, seed, n = arg
        for case in declrules_sweep():
            res.count()
            if _declrules_nontrivial(case):
                res.nontrivial()
            for lab in _declrules_labels(case):
                res.label(lab)
            for sig, msg in _check_declrules(case):
                res.violation(sig, case, msg)
        from harness.hyp import search
        search(declrules_strategy(), run_case, res, n, seed, ID, nontrivial=_declrules_nontrivial,
               classify=_declrules_labels)
        res.sample({"op": "declrules", "has_lock": False, "has_latch": True,
                    "decls": [{"locs": [[0x10, "NVM_RW"], [0x11, "NVM_RW_L"]]}]}, cls="declrules")
    elif kind == "family":        # (h) the generated family of the program's own declarations, in this process
        _, seed, lo, hi = arg
        F = _family_classes(seed)
        fam = F["fam"]
        rot = seed + lo
        for d in fam["decls"][lo:hi]:
            key = "%s.%s" % (d["bankobj"], d["name"])
            row = fam["rows"][key]
            for x in RM.family_features(fam, d):
                res.hist["declared:" + x] += 1
            case = {"op": "family", "seed": seed, "key": key}
            res.count()
            res.nontrivial()
            vs = _check_family_layout(seed, key)
            for sig, msg in vs:
                res.violation(sig, case, msg)
            if key in F["errors"]:
                continue
            for raw in family_raws(row, seed):
                res.count()
                ref = RM.decode_tagged(row, raw)
                if _nontrivial(row, raw, ref):
                    res.nontrivial()
                res.hist[_refclass(ref)] += 1
                rot += 1
                forms = FORMS if ref[0] == "flag" and ref[1] != RM.INVALID else (FORMS[rot % len(FORMS)],)
                for sig, msg in _check_family(seed, key, raw, forms):
                    res.violation(sig, dict(case, raw=list(raw)), msg)
            for x in family_inverse_args(row, seed):
                res.count()
                res.nontrivial()
                for sig, msg in _check_family_inverse(seed, key, x):
                    res.violation(sig, dict(case, x=x), msg)
        res.label("declared-by-program:family")
        if lo == 0:
            d = fam["decls"][0]
            res.sample({"op": "family", "seed": seed, "key": "%s.%s" % (d["bankobj"], d["name"]), "raw": [0xFF] * len(d["locs"])},
                       cls="family")
    elif kind == "family-program":    # (i) the family in a fresh interpreter, order of first use arranged
        _, spec = arg
        case = {"op": "family-program", "spec": spec}
        vs, n, nflag = _check_family_program(spec)
        res.count(n)
        res.nontrivial(n=nflag)
        res.label("declared-by-program:fresh-interpreter:" + spec["mode"], n)
        for sig, msg in vs:
            res.violation(sig, case, msg)
        res.sample(case, cls="family-program")
    elif kind == "alias":         # (g) results / buffers edited by the caller afterwards
        _, targets = arg
        for t in targets:
            case0 = {"op": "alias", "spec": t} if isinstance(t, dict) else {"op": "alias", "key": t}
            cls, row, key = _alias_target(case0)
            if cls is None:
                continue
            args = alias_args(row) + [["raw", list(raw)] for raw in _alias_probes(row)[:3]]
            for a in args:
                case = dict(case0, arg=a)
                res.count()
                if a[0] in ("lit", "raw"):
                    res.nontrivial()
                try:
                    r = cls.value_to_raw(_alias_value(a)) if a[0] != "raw" else bytearray()
                    res.hist["caller-edits:" + ("buffer-handed-in" if a[0] == "raw" else
                                                "result-mutable" if _mutable(r) else "result-immutable")] += 1
                except Exception:  # noqa
                    res.hist["caller-edits:not-encodable"] += 1
                for sig, msg in _check_alias(cls, row, key, a):
                    res.violation(sig, case, msg)
        res.label("caller-edits")
        res.sample({"op": "alias", "key": "BANK_206.LightSourceStartCounterResettable", "arg": ["lit", "TMASK"]}, cls="alias")
    else:
        raise ValueError(kind)
    return res


def run(ctx):
    L = _lib()
    S = _synthetic()
    q = ctx.quick
    seed = ctx.seed
    heavy, light = [], []
    keys = [k for k in sorted(RM.BY_KEY) if _usable(k)] + sorted(S["rows"])
    n_hyp = 300 if q else 12000
    stride3 = 251 if q else 5
    k = 0
    for key in keys:
        if not _usable(key):
            continue
        _, row = _resolve(key)
        w = row["width"]
        k += 1
        if w == 1:
            light.append(("enum", key, 0, 256, 1))
        elif w == 2:
            for lo in range(0, 65536, 16384):
                heavy.append(("enum", key, lo, lo + 16384, 1))
        else:
            heavy.append(("wide", key, seed * 1000 + k, n_hyp))
            if w == 3 and row["kind"] != "string":
                chunk = 1 << 22
                for lo in range(0, 1 << 24, chunk):
                    heavy.append(("enum", key, lo + (seed % stride3), lo + chunk, stride3))
        if _plain_number(row):
            (light if w == 1 else heavy).append(("rtnum", key, seed))
        if row["kind"] == "string":
            heavy.append(("rtstr", key, seed * 1000 + 500 + k, 200 if q else 5000))
    n_img = 120 if q else 4000
    for i, bk in enumerate(sorted(RM.BANKS)):
        if bk in L["banks"]:
            heavy.append(("image", bk, seed * 1000 + 900 + i, n_img))
    light.append(("layout",))
    hist = [("history", steps) for steps in histories(seed)]
    for w in (1, 2, 3, 4, 8):
        heavy.append(("userlim", w, False, seed * 1000 + 950 + w, (400 if q else 6000) if w == 2 else 0))
    for w in (2, 3, 5):
        light.append(("userlim", w, True, seed * 1000 + 960 + w, 0))
    for w in (1, 2):
        light.append(("userlim", w, "temp", seed * 1000 + 980 + w, 0))
    heavy.append(("declrules", seed * 1000 + 970, 400 if q else 8000))
    targets = list(keys) + alias_user_specs()
    for i in range(0, len(targets), 30):
        light.append(("alias", targets[i:i + 30]))
    nfam = len(RM.family(seed)["decls"])
    for lo in range(0, nfam, 24):
        heavy.append(("family", seed, lo, lo + 24))
    modes = FAMILY_MODES if not q else FAMILY_MODES[:3] + (FAMILY_MODES[3 + seed % 3], FAMILY_MODES[3 + (seed + 1) % 3])
    hist += [("family-program", {"seed": seed, "mode": m}) for m in modes]
    ctx.pmap(_shard, hist + heavy + light)
    r = ctx.result
    r.exhaustive = False
    r.extra["table"] = RM.trust_counts()
    r.extra["disagreements_recorded"] = len(RM.DISAGREEMENTS)
    r.extra["value_classes_in_library"] = len(L["classes"])
    r.extra["complete_for_widths"] = [1, 2]
    r.extra["two_byte_values_enumerated_completely"] = [k for k in keys if _resolve(k)[1]["width"] == 2]
    r.extra["byte_position_patterns"] = {"edge_bytes": list(RM.EDGE_BYTES), "per_width": {
        str(n): len(RM.byte_position_patterns(n)) for n in range(3, 9)}}
    r.extra["stride_3_byte"] = stride3
    r.extra["hypothesis_examples_per_wide_value"] = n_hyp
    r.extra["synthetic_signed_values"] = sorted(S["rows"])
    r.extra["declaration_import_histories"] = len([h for h in hist if h[0] == "history"])
    r.extra["declared_by_program"] = {"family_seed": seed, "values": nfam, "fresh_interpreter_orders": list(modes),
                                      "features_required_in_every_family": list(RM.FAMILY_FEATURES)}
    r.extra["bank_image_forms"] = list(FORMS)
    r.extra["raw_bytes_forms"] = ["bytes"] + list(RAW_FORMS)


if __name__ == "__main__":
    import json
    import sys
    if "--history" in sys.argv:
        print(json.dumps(history_main(json.loads(sys.argv[sys.argv.index("--history") + 1]))))
    elif "--family" in sys.argv:
        print(json.dumps(family_main(json.loads(sys.argv[sys.argv.index("--family") + 1]))))
