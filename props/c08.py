"""C08 - gear query/set sequences report and establish exactly the gear's state.

Healthy units: the library sequences QueryDeviceTypes / QueryGroups / SetGroups are run against the
frame-level IEC 62386-102 gear model (harness/model_gear.py) through the fake bus.
Adversarial units: every answer stream of length <= 6 over {none, error, 0, 1, 6, 7, 254, 255}
(extended by repeating its last answer for ever) is played to QueryDeviceTypes; a reference function
over the stream says must-return / must-raise / either.
"""
import itertools

from hypothesis import strategies as st

from harness import hyp
from harness.bus import Bus, NonTermination, run_interleaved
from harness.model_gear import GearModel
from harness.runner import Result, library_frame

ID = "C08"
LEVEL = "exploration"
RULE = ("healthy: (device-type list) / (group set) / (current set, requested set, destination kind) tuples, each distinct "
        "by construction; destinations also as look-alikes of the plain ones, judged exactly like them (an IntEnum member, an "
        "int subclass instance, a bool for addresses 0 / 1; instances of label-only application subclasses of Short / Group / "
        "Broadcast / BroadcastUnaddressed); every short address 0..63 as a Short object, as a plain int and as each "
        "single-unit look-alike x a few lists / sets / (current, "
        "requested) pairs for each sequence, and x every failing pair of answers to the group queries for SetGroups; adversarial: answer streams, distinct by construction; non-trivial = multi-type list, or a "
        "stream that reaches the QUERY NEXT DEVICE TYPE loop, or a SetGroups pair with current != requested; well-behaved "
        "device-type lists of every length 0..254 (first n / last n / evenly spread types), on the unit model and as answer "
        "streams; histories on one line (units keep their state; the caller edits the sets / lists the queries returned and "
        "hands them back to SetGroups), listed and Hypothesis-generated, non-trivial = an edit of a returned object with a "
        "sequence after it; several "
        "sequences in flight: (2 or 3 jobs of any of the kinds above with their unit states, advance order) - every ordered "
        "pair of a palette of jobs (same short address, different device-type lists / memberships / requested sets / "
        "destinations / answer streams, part of it seed-derived) x a list of advance orders (round-robin, reversed, blocks "
        "of 2 and 3, head starts, one sequence completely inside the other, strictly sequential), every order of the first "
        "eight advances for some pairs, triples, plus Hypothesis-generated tuples; non-trivial = at least two of the "
        "sequences overlap in time (neither finished before the other started) and the jobs are not all identical")
ASSUMPTIONS = [
    "a unit that answers 255 to QUERY DEVICE TYPE and then 254 at once, or 255 to QUERY NEXT DEVICE TYPE, is "
    "misbehaving in a way the statement does not classify: raising or carrying on are both accepted",
    "two or more simultaneous answers are always seen as a framing error (as the library documents)",
    "a group destination is only used when the unit is a member of that group at the start (implicit precondition of "
    "group addressing)",
    "what a query sequence returns belongs to the caller: editing it (adding a group to the returned set, appending to the "
    "returned list) and handing it back to SetGroups is ordinary use and must not change what later sequences report or do",
    "sequences in flight at the same time on separate buses (one driver per DALI line in one process) are independent: "
    "each must put on its bus, do to its units and return (or raise) exactly what it does when it runs alone on a fresh "
    "identical bus",
]

# "err" = framing error carrying harmless bits; "err254"/"err255" = framing error whose bits read as the
# end-of-list / multiple-types markers (two units colliding, one of them sending the marker)
ALPHABET = ["none", "err", "err254", "err255", 0, 1, 6, 7, 254, 255]
ERRS = ("err", "err254", "err255")


def _load():
    from dali import sequences, address, exceptions
    return sequences, address, exceptions


# ------------------------------------------------------------ healthy ----
class Job:
    """One sequence prepared against its own units and bus; judged once its outcome is known."""

    def __init__(self, kind, case, bus, seq, where, **more):
        self.kind, self.case, self.bus, self.seq, self.where = kind, case, bus, seq, where
        self.__dict__.update(more)


def run_alone(job):
    """-> ("returned", value) | ("raised", exception)"""
    try:
        return ("returned", job.bus.run(job.seq()))
    except Exception as e:  # noqa: classified by the judge
        return ("raised", e)


def _harness_error(e):
    if isinstance(e, TypeError) and "argument" in str(e) and "()" in str(e):
        return False        # the sequence function refused the call as written (documented parameter names / positions)
    return library_frame(e.__traceback__) is None and not isinstance(e, NonTermination)


def prep_types(case):
    """{"kind": "types", "types": [...], "short": a, "as_int": bool | "dest": one of SINGLE_KINDS}"""
    sequences, address, exc = _load()
    types = case["types"]
    a = case["short"]
    unit = GearModel(short=a, device_types=types)
    other = GearModel(short=(a + 1) % 64, device_types=[3])
    bus = Bus([unit, other], max_commands=300)
    d = single_kind(case)
    where = "QueryDeviceTypes(%s %d) on a unit with types %r" % (d, a, types)
    if (a + len(types)) % 2:
        return Job("types", case, bus, lambda: sequences.QueryDeviceTypes(addr=make_dest(address, d, a)), where + " [addr=]")
    return Job("types", case, bus, lambda: sequences.QueryDeviceTypes(make_dest(address, d, a)), where)


def judge_types(job, oc):
    sequences, address, exc = _load()
    types, where = job.case["types"], job.where
    if oc[0] == "raised":
        e = oc[1]
        if isinstance(e, NonTermination):
            return [("C08:types-nontermination", "%s: more than 300 commands" % where)]
        if isinstance(e, exc.DALISequenceError):
            sig = "C08:types-healthy-rejected" + (":includes-type-0" if 0 in types and len(types) > 1 else "")
            return [(sig, "%s raised DALISequenceError(%s)" % (where, e))]
        if library_frame(e.__traceback__) is None:
            raise e
        return [("C08:types-raised:%s" % type(e).__name__, "%s raised %r" % (where, e))]
    r = oc[1]
    if r != sorted(types):
        return [("C08:types-wrong", "%s returned %r" % (where, r))]
    return []


def case_types(case):
    job = prep_types(case)
    return judge_types(job, run_alone(job))


DEST_KINDS = ["short", "int", "group", "broadcast", "unaddressed"]
# The same destinations as an application may well hold them: an int-like object (a member of an IntEnum that names the
# lamps, a bool for the addresses 0 / 1, an instance of an int subclass) or an instance of its own subclass of the
# library's address classes that adds nothing but a label.  BASE says which plain destination each one is; it is judged
# exactly like that one.
BASE = {"short": "short", "int": "int", "group": "group", "broadcast": "broadcast", "unaddressed": "unaddressed",
        "intenum": "int", "bool": "int", "intsub": "int", "shortsub": "short", "groupsub": "group",
        "broadcastsub": "broadcast", "unaddressedsub": "unaddressed"}
SINGLE_KINDS = ["short", "int", "intenum", "intsub", "shortsub", "bool"]       # "bool" only for the addresses 0 and 1
LIKE_KINDS = ["intenum", "intsub", "shortsub", "bool", "groupsub", "broadcastsub", "unaddressedsub"]
ALL_KINDS = DEST_KINDS + LIKE_KINDS
_CLASSES = {}


def _classes(address):
    if not _CLASSES:
        import enum

        class Channel(int):
            """An application's own int: a short address with a label."""
            label = "channel"

        class NamedShort(address.GearShort):
            label = "a lamp"

        class NamedGroup(address.GearGroup):
            label = "a room"

        class NamedBroadcast(address.GearBroadcast):
            label = "the whole line"

        class NamedUnaddressed(address.GearBroadcastUnaddressed):
            label = "new gear"

        _CLASSES.update(enum=enum, intsub=Channel, shortsub=NamedShort, groupsub=NamedGroup, broadcastsub=NamedBroadcast,
                        unaddressedsub=NamedUnaddressed)
    return _CLASSES


def make_dest(address, kind, a, g=0):
    if kind == "short":
        return address.GearShort(a)
    if kind == "int":
        return a
    if kind == "group":
        return address.GearGroup(g)
    if kind == "broadcast":
        return address.GearBroadcast()
    if kind == "unaddressed":
        return address.GearBroadcastUnaddressed()
    cl = _classes(address)
    if kind == "intenum":
        # the application's names for its lamps
        return cl["enum"].IntEnum("Lamp", {"this_lamp": a, "another_lamp": (a + 1) % 64})(a)
    if kind == "bool":
        if a not in (0, 1):
            raise ValueError("a bool can only stand for the short addresses 0 and 1, not %r" % (a,))
        return bool(a)
    if kind == "groupsub":
        return cl[kind](g)
    if kind in ("broadcastsub", "unaddressedsub"):
        return cl[kind]()
    return cl[kind](a)          # intsub, shortsub


def single_kind(case):
    """How a case of a single-unit sequence spells its destination: "dest" if given, else the older "as_int" flag."""
    return case.get("dest") or ("int" if case.get("as_int") else "short")


def bits_to_set(m):
    return set(i for i in range(16) if (m >> i) & 1)


def prep_groups(case):
    """{"kind": "qgroups", "mask": m[, "short": a, "as_int": bool | "dest": one of SINGLE_KINDS]}"""
    sequences, address, exc = _load()
    cur = bits_to_set(case["mask"])
    a = case.get("short", 5 + case["mask"] % 50)
    unit = GearModel(short=a, groups=cur)
    bus = Bus([unit, GearModel(short=(a + 1) % 64, groups={1, 9})], max_commands=50)
    d = single_kind(case)
    return Job("qgroups", case, bus, lambda: sequences.QueryGroups(make_dest(address, d, a)),
               "QueryGroups(%s %d) on a unit in groups %r" % (d, a, sorted(cur)), cur=cur)


def judge_groups(job, oc):
    cur = job.cur
    if oc[0] == "raised":
        e = oc[1]
        if _harness_error(e):
            raise e
        return [("C08:qgroups-raised:%s" % type(e).__name__, "%s raised %r" % (job.where, e))]
    r = oc[1]
    if r != cur or not isinstance(r, set):
        return [("C08:qgroups-wrong", "%s returned %r" % (job.where, r))]
    return []


def case_groups(case):
    job = prep_groups(case)
    return judge_groups(job, run_alone(job))


def prep_setgroups(case):
    """{"kind": "setgroups", "cur": mask, "req": mask, "dest": kind, "g": group used for a group destination,
    "short": the unit's short address (default 17)}
    None when the precondition of a group destination does not hold."""
    sequences, address, exc = _load()
    cur, req = bits_to_set(case["cur"]), bits_to_set(case["req"])
    spelt = case["dest"]
    kind = BASE[spelt]
    a = case.get("short", 17)
    g = case.get("g", 0)
    if kind == "group":
        if g not in cur:
            return None        # precondition: the unit must be reachable through the group
    short = None if kind == "unaddressed" else a
    unit = GearModel(short=short, groups=cur)
    bystander = GearModel(short=40 if a != 40 else 41, groups={2, 11})     # must not be touched by short/int destinations
    units = [unit, bystander] if kind in ("short", "int") else [unit]
    extra = []
    if kind in ("group", "broadcast", "unaddressed") and case.get("others", (case["cur"] ^ case["req"]) % 3):
        # a multi-unit destination normally reaches several units, each with its own membership
        n_extra = case.get("others", (case["cur"] ^ case["req"]) % 3)
        for j in range(n_extra):
            gs = bits_to_set((case["cur"] * (j + 3) + 0x1234 * (j + 1)) & 0xFFFF)
            if kind == "group":
                gs.add(g)
            extra.append(GearModel(short=None if kind == "unaddressed" else (a + 33 + j) % 64, groups=gs))
        units = units + extra
    bus = Bus(units, max_commands=100)
    where = "SetGroups(%s, %r) on a unit in groups %r" % (
        "%s %d" % (spelt, g) if kind == "group" else "%s %d" % (spelt, a) if kind in ("short", "int") else spelt, sorted(req), sorted(cur))
    # "groups is a set of integers": a set or a frozenset; the caller keeps using its own object afterwards
    given = frozenset(req) if (case["cur"] + case["req"]) % 2 else set(req)
    # the arguments by position, or by the names the function documents (addr, groups)
    style = case.get("call", ["positional", "keywords", "groups-keyword"][(case["cur"] + 2 * case["req"]) % 3])
    if style == "keywords":
        mk = lambda: sequences.SetGroups(addr=make_dest(address, spelt, a, g), groups=given)      # noqa: E731
    elif style == "groups-keyword":
        mk = lambda: sequences.SetGroups(make_dest(address, spelt, a, g), groups=given)           # noqa: E731
    else:
        mk = lambda: sequences.SetGroups(make_dest(address, spelt, a, g), given)                  # noqa: E731
    return Job("setgroups", case, bus, mk, where + (" [arguments: %s]" % style if style != "positional" else ""),
               cur=cur, req=req, given=given, unit=unit, bystander=bystander, extra=extra, g=g)


def judge_setgroups(job, oc):
    case, bus, where = job.case, job.bus, job.where
    cur, req, given, unit, bystander, extra, g = job.cur, job.req, job.given, job.unit, job.bystander, job.extra, job.g
    spelt = case["dest"]
    kind = BASE[spelt]          # a look-alike destination is judged exactly like the plain one
    if oc[0] == "raised":
        e = oc[1]
        if _harness_error(e):
            raise e
        return [("C08:setgroups-raised:%s" % type(e).__name__, "%s raised %r" % (where, e))]
    if set(given) != req:
        return [("C08:setgroups-modified-callers-set", "%s: the caller's set is now %r" % (where, sorted(given)))]
    out = []
    for j, u in enumerate(extra):
        if u.groups != req:
            out.append(("C08:setgroups-membership:%s:other-unit" % spelt, "%s left another unit reached by the same destination in "
                        "groups %r" % (where, sorted(u.groups))))
            break
    if unit.groups != req:
        sig = "C08:setgroups-membership:" + spelt
        if kind == "group" and g not in req:
            sig = "C08:setgroups-group-destination-removed-midway"
        out.append((sig, "%s left the unit in groups %r" % (where, sorted(unit.groups))))
    if kind in ("short", "int"):
        if bystander.groups != {2, 11}:
            out.append(("C08:setgroups-touched-bystander", "%s changed another unit to %r" % (where, sorted(bystander.groups))))
        # after the two queries, exactly the necessary changes (model opcodes: 0x60+g add, 0x70+g remove)
        changes = [(v & 0xF0, v & 0x0F) for (bits, v, tw, ans) in bus.trace[2:]]
        adds = sorted(gq for (op, gq) in changes if op == 0x60)
        rems = sorted(gq for (op, gq) in changes if op == 0x70)
        others = [c for c in changes if c[0] not in (0x60, 0x70)]
        if adds != sorted(req - cur) or rems != sorted(cur - req) or others or len(bus.trace) != 2 + len(adds) + len(rems):
            out.append(("C08:setgroups-unnecessary-commands" + ("" if spelt == kind else ":look-alike-destination"),
                        "%s issued adds %r removes %r others %r" % (where, adds, rems, others)))
    return out


def case_setgroups(case):
    job = prep_setgroups(case)
    if job is None:
        return []
    return judge_setgroups(job, run_alone(job))


# -------------------------------------------------------- adversarial ----
class ScriptBus(Bus):
    """Answers the n-th command with the n-th scripted item (last item repeated for ever)."""

    def __init__(self, stream, max_commands):
        super().__init__([], max_commands=max_commands)
        self.stream = stream

    def transact(self, cmd):
        from dali import frame
        step = self.n
        self.n += 1
        if self.n > self.max_commands:
            raise NonTermination("more than %d commands" % self.max_commands)
        self.commands.append(cmd)
        item = self.stream[min(step, len(self.stream) - 1)]
        if cmd.response is None:
            return None
        if item == "none":
            return cmd.response(None)
        if item in ERRS:
            v = {"err254": 254, "err255": 255}.get(item, 0x55 if step % 2 else 0x06)
            return cmd.response(frame.BackwardFrameError(v))
        return cmd.response(frame.BackwardFrame(item))


def ref_types(stream):
    """Reference verdict for QueryDeviceTypes against an answer stream (last item repeats).
    Returns (set of acceptable return values as tuples, raise_allowed, commands needed at most)."""
    def at(i):
        return stream[min(i, len(stream) - 1)]
    a0 = at(0)
    if a0 == "none" or a0 in ERRS:
        return set(), True, 1
    if a0 < 254:
        return {(a0,)}, False, 1
    if a0 == 254:
        return {()}, False, 1
    # 255: multiple types follow
    accept = set()
    raise_ok = False
    # strict reading: 255 as a "next" answer is an error; lenient: it is a value
    for lenient in (False, True):
        res = []
        last = -1
        i = 1
        while True:
            a = at(i)
            if a == "none" or a in ERRS:
                raise_ok = True
                break
            if a == 254:
                if not res:
                    raise_ok = True        # 255 then immediately 254: "either"
                    accept.add(())
                else:
                    accept.add(tuple(res))
                break
            if a == 255 and not lenient:
                raise_ok = True
                break
            if a <= last:
                raise_ok = True
                break
            res.append(a)
            last = a
            i += 1
            if i > 300:
                raise_ok = True
                break
    return accept, raise_ok, None


def prep_stream(case):
    """{"kind": "stream", "stream": [...]}"""
    sequences, address, exc = _load()
    stream = case["stream"]
    bus = ScriptBus(stream, max_commands=300)
    where = "QueryDeviceTypes against answer stream %r(+repeat)" % (stream,)
    return Job("stream", case, bus, lambda: sequences.QueryDeviceTypes(address.GearShort(3)), where)


def judge_stream(job, oc):
    sequences, address, exc = _load()
    stream, bus, where = job.case["stream"], job.bus, job.where
    accept, raise_ok, _ = ref_types(stream)
    if oc[0] == "raised":
        e = oc[1]
        if isinstance(e, NonTermination):
            return [("C08:types-nontermination", "%s: still asking after 300 commands" % where)]
        if isinstance(e, exc.DALISequenceError):
            if not raise_ok:
                return [("C08:types-healthy-rejected" + (":includes-type-0" if 0 in stream[1:] else ""),
                         "%s raised DALISequenceError but the stream is a conforming answer for %r" % (where, sorted(accept)))]
            if bus.n > min(258, len(stream) + 2 + 256):
                return [("C08:types-late-stop", "%s stopped only after %d commands" % (where, bus.n))]
            return []
        if library_frame(e.__traceback__) is None:
            raise e
        return [("C08:types-raised:%s" % type(e).__name__, "%s raised %r" % (where, e))]
    r = oc[1]
    if not isinstance(r, list) or tuple(r) not in accept:
        kind = "framing-error-taken-as-data" if any(x in ERRS for x in stream[:bus.n]) else \
            "out-of-order-accepted" if stream[0] == 255 else "wrong"
        return [("C08:types-wrong-data:" + kind, "%s returned %r; acceptable: %s%s"
                 % (where, r, sorted(accept), " or DALISequenceError" if raise_ok else ""))]
    if bus.n > 258:
        return [("C08:types-late-stop", "%s took %d commands" % (where, bus.n))]
    return []


def case_stream(case):
    job = prep_stream(case)
    return judge_stream(job, run_alone(job))


def prep_qgroups_stream(case):
    """{"kind": "gstream", "stream": [a0, a1]}"""
    sequences, address, exc = _load()
    stream = case["stream"]
    bus = ScriptBus(stream, max_commands=20)
    return Job("gstream", case, bus, lambda: sequences.QueryGroups(address.GearShort(3)),
               "QueryGroups against answers %r" % (stream,))


def judge_qgroups_stream(job, oc):
    sequences, address, exc = _load()
    stream, where = job.case["stream"], job.where
    bad = any(x == "none" or x in ERRS for x in stream[:2])
    if oc[0] == "raised":
        e = oc[1]
        if isinstance(e, exc.DALISequenceError):
            return [] if bad else [("C08:qgroups-healthy-rejected", where)]
        if _harness_error(e):
            raise e
        return [("C08:qgroups-raised:%s" % type(e).__name__, "%s raised %r" % (where, e))]
    r = oc[1]
    if bad:
        return [("C08:qgroups-wrong-data", "%s returned %r instead of raising DALISequenceError" % (where, r))]
    exp = bits_to_set(stream[0] | (stream[1] << 8))
    if r != exp:
        return [("C08:qgroups-wrong", "%s returned %r expected %r" % (where, r, exp))]
    return []


def case_qgroups_stream(case):
    job = prep_qgroups_stream(case)
    return judge_qgroups_stream(job, run_alone(job))


def prep_setgroups_fault(case):
    """{"kind": "sgfault", "stream": [a0, a1][, "short": a, "as_int": bool | "dest": one of SINGLE_KINDS]} -
    SetGroups(short address, given as Short, as int or as a look-alike of either) when the group queries fail."""
    sequences, address, exc = _load()
    stream = case["stream"] + [0]
    bus = ScriptBus(stream, max_commands=40)
    a = case.get("short", 3)
    d = single_kind(case)
    where = "SetGroups(%s %d, {1,2}) when the group queries answer %r" % (d, a, case["stream"])
    return Job("sgfault", case, bus, lambda: sequences.SetGroups(make_dest(address, d, a), {1, 2}), where, dest=d)


def judge_setgroups_fault(job, oc):
    sequences, address, exc = _load()
    where = job.where
    if oc[0] == "raised":
        e = oc[1]
        if isinstance(e, exc.DALISequenceError):
            return []
        if _harness_error(e):
            raise e
        return [("C08:setgroups-raised:%s" % type(e).__name__, "%s raised %r" % (where, e))]
    # SetGroups on a short address must propagate the failure of its queries
    d = job.dest
    return [("C08:setgroups-ignored-query-failure" + ("" if d in ("short", "int") else ":look-alike-destination"),
             "%s completed normally after %d commands" % (where, job.bus.n))]


def case_setgroups_fault(case):
    job = prep_setgroups_fault(case)
    return judge_setgroups_fault(job, run_alone(job))


# ------------------------------------------------------------ histories ----
HISTORY_SHORTS = [17, 18, 40]


def case_history(case):
    """{"kind": "history", "units": [{"groups": mask, "types": [...]}, ...], "steps": [...][, "shorts": [a, b, c]]}: one
    program working on one line for a while (the units sit at short addresses `shorts`, default 17, 18, 40).  The units keep their state from step to step; what the sequences return is kept in numbered
    slots and the caller does with it what callers do with a set / a list of their own: edits it, hands it back.
      (as_int: True = the address as a plain int, False = as a Short object, or one of SINGLE_KINDS but "bool")
      ["qgroups", k, as_int]          QueryGroups(unit k)                        -> new slot
      ["types", k, as_int]            QueryDeviceTypes(unit k)                   -> new slot
      ["edit", j, how, arg]           the caller edits the object in slot j: add / discard / clear / update(mask) for a
                                      set, append / pop / clear for a list (skipped if it does not apply)
      ["setgroups", k, src, as_int]   SetGroups(unit k, groups); src = ["slot", j] (the very object, edited or not;
                                      skipped unless it is a set) or ["mask", m] (a new set)
    Every sequence is judged as it is judged on its own: the query returns exactly what the unit holds NOW, SetGroups
    leaves exactly the requested membership with exactly the necessary commands and touches nothing else."""
    sequences, address, exc = _load()
    shorts = case.get("shorts", HISTORY_SHORTS)
    units = [GearModel(short=shorts[k], groups=bits_to_set(u["groups"]), device_types=u["types"])
             for k, u in enumerate(case["units"])]
    slots = []
    edited = False
    done = []

    def sig(tail):
        return ("C08:history-after-caller-edited-a-result:" if edited else "C08:") + tail

    def dest(k, how):
        # how: True = plain int, False = Short object, or one of SINGLE_KINDS
        return make_dest(address, how if isinstance(how, str) else "int" if how else "short", shorts[k])

    for step in case["steps"]:
        op = step[0]
        where = "step %d %r of a history on units %s after %r" % (
            len(done), step, [(sorted(u.groups), u.device_types) for u in units], done)
        if op == "edit":
            _, j, how, arg = step
            if j >= len(slots) or slots[j] is None:
                continue
            o = slots[j]
            if isinstance(o, set) and how in ("add", "discard", "clear", "update"):
                {"add": lambda: o.add(arg), "discard": lambda: o.discard(arg), "clear": o.clear,
                 "update": lambda: o.update(bits_to_set(arg))}[how]()
            elif isinstance(o, list) and how in ("append", "pop", "clear"):
                {"append": lambda: o.append(arg), "pop": lambda: o and o.pop(), "clear": o.clear}[how]()
            else:
                continue
            edited = True
            done.append(step)
            continue
        k = step[1]
        unit = units[k]
        before = [set(u.groups) for u in units]
        bus = Bus(units, max_commands=300)
        if op == "qgroups":
            oc = run_alone(Job(op, case, bus, lambda: sequences.QueryGroups(dest(k, step[2])), where))
        elif op == "types":
            oc = run_alone(Job(op, case, bus, lambda: sequences.QueryDeviceTypes(dest(k, step[2])), where))
        else:
            src = step[2]
            if src[0] == "slot":
                if src[1] >= len(slots) or not isinstance(slots[src[1]], set):
                    continue
                given = slots[src[1]]
            else:
                given = bits_to_set(src[1])
            req = set(given)
            oc = run_alone(Job(op, case, bus, lambda: sequences.SetGroups(dest(k, step[3]), given), where))
        done.append(step)
        if oc[0] == "raised":
            e = oc[1]
            if _harness_error(e):
                raise e
            return [(sig("%s-raised:%s" % (op, type(e).__name__)), "%s raised %r" % (where, e))]
        r = oc[1]
        if op == "qgroups":
            slots.append(r)
            if r != unit.groups or not isinstance(r, set):
                return [(sig("qgroups-wrong"), "%s returned %r, the unit is in groups %r" % (where, r, sorted(unit.groups)))]
        elif op == "types":
            slots.append(r)
            if r != sorted(unit.device_types) or not isinstance(r, list):
                return [(sig("types-wrong"), "%s returned %r" % (where, r))]
        else:
            kind = step[3] if isinstance(step[3], str) else "int" if step[3] else "short"
            if set(given) != req:
                return [(sig("setgroups-modified-callers-set"), "%s: the caller's set is now %r" % (where, sorted(given)))]
            if unit.groups != req:
                return [(sig("setgroups-membership:" + kind), "%s (requested %r) left the unit in groups %r"
                         % (where, sorted(req), sorted(unit.groups)))]
            if any(u.groups != b for j, (u, b) in enumerate(zip(units, before)) if j != k):
                return [(sig("setgroups-touched-bystander"), "%s changed another unit: now %r" % (where, [sorted(u.groups) for u in units]))]
            changes = [(v & 0xF0, v & 0x0F) for (bits, v, tw, ans) in bus.trace[2:]]
            adds = sorted(gq for (o_, gq) in changes if o_ == 0x60)
            rems = sorted(gq for (o_, gq) in changes if o_ == 0x70)
            others = [c for c in changes if c[0] not in (0x60, 0x70)]
            cur = before[k]
            if adds != sorted(req - cur) or rems != sorted(cur - req) or others or len(bus.trace) != 2 + len(adds) + len(rems):
                return [(sig("setgroups-unnecessary-commands" + ("" if kind in ("short", "int") else ":look-alike-destination")),
                         "%s (requested %r) issued adds %r removes %r others %r"
                         % (where, sorted(req), adds, rems, others))]
    return []


def history_nontrivial(case):
    """An edit of a returned object with a sequence after it."""
    seen_result = seen_edit = False
    for step in case["steps"]:
        if step[0] == "edit":
            seen_edit = seen_edit or seen_result
        else:
            if seen_edit:
                return True
            if step[0] in ("qgroups", "types"):
                seen_result = True
    return False


def fixed_histories(seed):
    def m(k):
        return (seed * 40503 + k * 25717 + 0x1234) & 0xFFFF
    out = []
    for mi, mask in enumerate([0x0000, 0x0001, 0x8000, 0x1088, 0x00FF, 0xFFFF, m(1), m(2)]):
        other = (~mask & 0xFFFF) if mi % 2 else m(3 + mi)
        inn = [g for g in range(16) if (mask >> g) & 1]
        out_ = [g for g in range(16) if not (mask >> g) & 1]
        edits = [["clear", None], ["update", 0xFFFF], ["update", other]]
        if out_:
            edits.append(["add", out_[mi % len(out_)]])
        if inn:
            edits.append(["discard", inn[mi % len(inn)]])
        types = [[], [6], [0, 6, 8], [1, 6, 8, 253]][mi % 4]
        units = [{"groups": mask, "types": types}, {"groups": mask, "types": types}, {"groups": other, "types": [3]}]
        for ei, (how, arg) in enumerate(edits):
            ai = bool((mi + ei) & 1)
            e = ["edit", 0, how, arg]
            for steps in (
                    [["qgroups", 0, ai], e, ["qgroups", 0, not ai]],
                    [["qgroups", 0, ai], e, ["qgroups", 1, ai]],
                    [["qgroups", 0, ai], e, ["setgroups", 0, ["slot", 0], ai], ["qgroups", 0, ai]],     # read-modify-write
                    [["qgroups", 0, ai], e, ["setgroups", 1, ["mask", other], not ai], ["qgroups", 1, ai]],
                    [["qgroups", 0, ai], e, ["setgroups", 1, ["mask", mask ^ 0x0180], ai], ["qgroups", 0, ai]],
                    [["qgroups", 0, ai], ["qgroups", 1, ai], e, ["setgroups", 2, ["slot", 1], ai], ["qgroups", 2, ai], ["qgroups", 1, ai]],
                    [["setgroups", 2, ["mask", mask], ai], ["qgroups", 2, ai], ["edit", 0, how, arg], ["qgroups", 0, ai], ["qgroups", 2, ai]]):
                out.append({"kind": "history", "units": units, "steps": steps})
        for how, arg in (["append", 99], ["clear", None], ["pop", None]):
            out.append({"kind": "history", "units": units,
                        "steps": [["types", 0, False], ["edit", 0, how, arg], ["types", 0, True], ["types", 1, False], ["types", 2, False]]})
        # the same read-modify-write with the address held as an IntEnum member / int subclass / Short subclass
        like = ["intenum", "intsub", "shortsub"][mi % 3]
        out.append({"kind": "history", "units": units,
                    "steps": [["qgroups", 0, like], ["edit", 0, "update", other], ["setgroups", 0, ["slot", 0], like],
                              ["qgroups", 0, like], ["types", 0, like], ["setgroups", 1, ["mask", other], like], ["qgroups", 1, False]]})
    return out


def history_st():
    @st.composite
    def gen(draw):
        mask = draw(st.one_of(st.integers(0, 0xFFFF), st.sampled_from([0, 1, 0x8000, 0xFFFF, 0x1088])))
        masks = [mask, draw(st.sampled_from([mask, mask, mask ^ 0x0100])), draw(st.integers(0, 0xFFFF))]
        tl = st.lists(st.sampled_from([0, 1, 6, 7, 8, 253]), unique=True, max_size=4).map(sorted)
        t0 = draw(tl)
        units = [{"groups": masks[0], "types": t0}, {"groups": masks[1], "types": draw(st.sampled_from([t0, t0, [6]]))},
                 {"groups": masks[2], "types": draw(tl)}]
        steps = []
        nres = 0
        how = st.one_of(st.booleans(), st.booleans(), st.sampled_from(["intenum", "intsub", "shortsub"]))
        for _ in range(draw(st.integers(2, 8))):
            op = draw(st.sampled_from(["qgroups", "qgroups", "qgroups", "types", "edit", "edit", "setgroups", "setgroups"]))
            if op in ("qgroups", "types"):
                steps.append([op, draw(st.integers(0, 2)), draw(how)])
                nres += 1
            elif op == "edit":
                if not nres:
                    continue
                ed = draw(st.sampled_from(["add", "discard", "clear", "update", "append", "pop"]))
                arg = draw(st.integers(0, 0xFFFF)) if ed == "update" else draw(st.integers(0, 15)) if ed in ("add", "discard") else 99
                steps.append(["edit", draw(st.integers(0, nres - 1)), ed, arg])
            else:
                src = ["slot", draw(st.integers(0, nres - 1))] if nres and draw(st.booleans()) else \
                    ["mask", draw(st.one_of(st.integers(0, 0xFFFF), st.sampled_from(masks)))]
                steps.append(["setgroups", draw(st.integers(0, 2)), src, draw(how)])
        h = {"kind": "history", "units": units, "steps": steps}
        if draw(st.booleans()):
            h["shorts"] = draw(st.one_of(st.permutations(list(range(64))).map(lambda p: list(p[:3])),
                                         st.sampled_from([[0, 1, 2], [63, 62, 0], [0, 63, 31], [62, 63, 61]])))
        return h
    return gen()


def long_types(n, shape):
    """n device types out of 0..253, ascending: the first n, the last n, or spread evenly."""
    if shape == "first":
        return list(range(n))
    if shape == "last":
        return list(range(254 - n, 254))
    return sorted(set((i * 254) // n for i in range(n))) if n else []


PREP = {"types": prep_types, "qgroups": prep_groups, "setgroups": prep_setgroups, "stream": prep_stream,
        "gstream": prep_qgroups_stream, "sgfault": prep_setgroups_fault}
JUDGE = {"types": judge_types, "qgroups": judge_groups, "setgroups": judge_setgroups, "stream": judge_stream,
         "gstream": judge_qgroups_stream, "sgfault": judge_setgroups_fault}


# --------------------------------------------------- several sequences in flight ----
LAST_INTER = [None]     # (id(case), did the sequences really overlap in time) of the most recent interleaved case


def _snap(o):
    """Plain-data copy of a model object (every attribute, recursively)."""
    if o is None or isinstance(o, (bool, int, float, str)):
        return o
    if isinstance(o, (list, tuple)):
        return [_snap(x) for x in o]
    if isinstance(o, (set, frozenset)):
        return sorted((_snap(x) for x in o), key=repr)
    if isinstance(o, dict):
        return [[repr(k), _snap(v)] for k, v in sorted(o.items(), key=lambda kv: repr(kv[0]))]
    if hasattr(o, "__dict__"):
        return [[k, _snap(v)] for k, v in sorted(vars(o).items()) if not callable(v)]
    return repr(o)


def _end_state(job):
    """Everything the bus carried and everything its units hold when the sequence is over."""
    bus = job.bus
    sent = [(len(c.frame), c.frame.as_integer, bool(c.sendtwice), c.devicetype) for c in bus.commands]
    st = [("commands put on the bus", sent), ("frames and answers", [list(t) for t in bus.trace])]
    for k, u in enumerate(bus.units):
        for name, v in _snap(u):
            st.append(("unit #%d %s" % (k, name), v))
    if getattr(job, "given", None) is not None:
        st.append(("caller's set", sorted(job.given)))
    return st


def _result(oc):
    if oc[0] == "raised":
        return ("raised", type(oc[1]).__name__, str(oc[1]))
    v = oc[1]
    return ("returned", type(v).__name__, sorted(v) if isinstance(v, (set, frozenset)) else v)


def overlapping(order, n):
    """Do at least two of the n sequences overlap in time (neither finished before the other started)?"""
    first, last = {}, {}
    for pos, i in enumerate(order):
        first.setdefault(i, pos)
        last[i] = pos
    return any(first[i] < last[j] and first[j] < last[i] for i in first for j in first if i < j)


def case_interleaved(case):
    """{"kind": "interleaved", "jobs": [case, ...], "schedule": [...], "cycle": [...]}: several sequences in flight at
    once, each on its own bus against its own units, advanced command by command in the order case['schedule'] (then
    case['cycle'] repeatedly).  Each must satisfy the single-sequence oracle, return / raise what it returns / raises
    alone, and its bus must have carried, and its units must hold, exactly what they do when the sequence runs alone."""
    subs = case["jobs"]
    jobs = [PREP[c["kind"]](c) for c in subs]
    if any(j is None for j in jobs):
        raise ValueError("interleaved job with an unmet precondition: %r" % (case,))
    order = []
    ocs = run_interleaved([(j.bus, j.seq) for j in jobs], case.get("schedule") or (), case.get("cycle") or None, order=order)
    LAST_INTER[0] = (id(case), overlapping(order, len(jobs)))
    out, seen = [], set()

    def add(sig, msg):
        if sig not in seen:
            seen.add(sig)
            out.append((sig, msg))

    for i, (job, oc) in enumerate(zip(jobs, ocs)):
        vs = JUDGE[job.kind](job, oc)
        ref = PREP[job.kind](subs[i])
        roc = run_alone(ref)
        rvs = JUDGE[ref.kind](ref, roc)
        for sig, msg in rvs:                  # not a matter of interleaving: the sequence fails on its own
            add(sig, msg)
        alone = set(sig for sig, _ in rvs)
        why = None
        if _result(oc) != _result(roc):
            why = "outcome %r, alone %r" % (_result(oc), _result(roc))
        else:
            for (name, a), (rname, r) in zip(_end_state(job), _end_state(ref)):
                if name != rname or a != r:
                    why = "%s: %r, alone %r" % (name, a, r)
                    break
        if why is None and [v for v in vs if v[0] not in alone]:
            why = "%s: %s" % [v for v in vs if v[0] not in alone][0]
        if why:
            add("C08:interleaved-sequences-interfere:" + job.kind,
                "sequence #%d of %d in flight at the same time on separate buses (advance order %s; the others: %s): %s: %s"
                % (i, len(jobs), order, "; ".join(j.where for k, j in enumerate(jobs) if k != i), job.where, why))
    return out


def run_case(case):
    k = case["kind"]
    return {"types": case_types, "qgroups": case_groups, "setgroups": case_setgroups, "stream": case_stream,
            "gstream": case_qgroups_stream, "sgfault": case_setgroups_fault, "interleaved": case_interleaved,
            "history": case_history}[k](case)


def _inter(jobs, schedule, cycle=None):
    return {"kind": "interleaved", "jobs": jobs, "schedule": list(schedule), "cycle": list(cycle or [])}


# (schedule, cycle) for two sequences: the schedule is used first, then the cycle repeatedly; a cycle naming only a
# finished sequence falls back to round-robin (so ([0, 0], [1]) = #0 advances twice, then #1 runs from start to end
# inside #0, then #0 finishes, and ([], [0]) = strictly one after the other)
PAIR_ORDERS = [
    ([], [0, 1]), ([], [1, 0]),                                                 # round-robin, reversed
    ([], [0, 0, 1, 1]), ([], [1, 1, 0, 0]), ([], [0, 0, 0, 1, 1, 1]), ([], [1, 1, 1, 0, 0, 0]),    # blocks of 2 / 3
    ([], [0, 1, 1]), ([], [0, 0, 1]), ([], [0, 1, 1, 1]),                         # uneven speeds
    ([0], [1, 0]), ([0, 0], [1, 0]), ([0, 0, 0], [1, 0]), ([1], [0, 1]), ([1, 1, 1], [0, 1]),      # head starts
    ([0], [1]), ([0, 0], [1]), ([0, 0, 0], [1]), ([0] * 5, [1]),                  # #1 completely inside #0
    ([1], [0]), ([1, 1], [0]), ([1, 1, 1], [0]), ([1] * 5, [0]),                  # #0 completely inside #1
    ([], [0]), ([], [1]),                                                       # strictly sequential
]
TRIPLE_ORDERS = [([], [0, 1, 2]), ([], [2, 1, 0]), ([], [1, 2, 0]), ([0], [2, 1, 0]), ([0, 0], [1, 2, 0]), ([0, 1], [2, 0, 1]),
                 ([], [0, 0, 1, 1, 2, 2]), ([0, 1, 1], [2, 0, 1]), ([0, 0, 0, 1], [2, 1, 0]), ([0], [1, 2]), ([0, 1], [2]),
                 ([], [0, 0, 0, 1, 1, 1, 2, 2, 2]), ([], [0])]


def eight_orders():
    """Every order of the first eight advances of two sequences in which each advances four times."""
    out = []
    for ones in itertools.combinations(range(8), 4):
        out.append([1 if i in ones else 0 for i in range(8)])
    return out


def palette(seed, extra):
    """Jobs whose units sit at the same short address on their separate buses but hold different states; `extra`
    further seed-derived ones."""
    def m(k):
        return (seed * 40503 + k * 25717 + 0x1234) & 0xFFFF

    def sg(cur, req, dest, g=None, others=None):
        c = {"kind": "setgroups", "cur": cur, "req": req, "dest": dest}
        if dest == "group":
            c["g"] = g if g is not None else sorted(bits_to_set(cur))[-1]
        if others is not None:
            c["others"] = others
        return c

    def ty(types, as_int=False, short=17):
        if isinstance(as_int, str):
            return {"kind": "types", "types": types, "short": short, "dest": as_int}
        return {"kind": "types", "types": types, "short": short, "as_int": as_int}

    def qg(mask, short=17):
        return {"kind": "qgroups", "mask": mask, "short": short}

    jobs = [ty([]), ty([6]), ty([0], True), ty([0, 6, 8]), ty([1, 6], True), ty([6, 8, 253]), ty([0, 1, 6, 8, 253]),
            qg(0x0000), qg(0xFFFF), qg(0x00FF), qg(0x1088), qg(m(1)),
            sg(0x1088, 0x0006, "short"), sg(0x0006, 0x1088, "int"), sg(0x00FF, 0xFF00, "short"), sg(0xFFFF, 0x0000, "int"),
            sg(0x0000, 0xFFFF, "short"), sg(0x8081, 0x4242, "group", 7, 2), sg(0x0F0F, 0x8F01, "group", 0, 1),
            sg(0x0F0F, 0x00F0, "broadcast", others=2), sg(0xA5A5, 0xA5A5, "broadcast", others=0),
            sg(0x1234, 0x4321, "unaddressed", others=1), sg(m(2), m(3), "shortsub"), sg(m(4), m(5), "intenum"),
            {"kind": "stream", "stream": [255, 1, 6, 254]}, {"kind": "stream", "stream": [255, 0, 6, 8, 253, 254]},
            {"kind": "stream", "stream": [255, 1, 6, 6]}, {"kind": "stream", "stream": [255, 7, "err"]},
            {"kind": "stream", "stream": ["none"]},
            {"kind": "gstream", "stream": [0x55, 0x80]}, {"kind": "gstream", "stream": [1, "err"]},
            {"kind": "sgfault", "stream": [1, "none"]}]
    dests = ["short", "int", "group", "broadcast", "unaddressed"]
    for k in range(extra):
        r = m(10 + 3 * k)
        if k % 3 == 0:
            n = 2 + r % 5
            jobs.append(ty(sorted(set((r >> (2 * j)) % 254 for j in range(n))), ["intsub", True, False, "shortsub", "intenum"][(k // 3) % 5],
                           short=17 if k % 2 else r % 64))
        elif k % 3 == 1:
            jobs.append(qg(r, short=17 if k % 2 else (r >> 4) % 64))
        else:
            d = dests[(k // 3) % 5]
            cur = m(11 + 3 * k) | (1 if d == "group" else 0)
            jobs.append(sg(cur, r, d, others=(r >> 3) % 3))
    return jobs


def _differ(case):
    return any(j != case["jobs"][0] for j in case["jobs"][1:])


def _kinds(case):
    return "+".join(j["kind"] for j in case["jobs"])


def _shard_inter(arg):
    what = arg[0]
    res = Result()

    def go(case, label):
        res.count()
        vs = run_case(case)
        if LAST_INTER[0][1] and _differ(case):
            res.nontrivial()
        res.label(label)
        for sig, msg in vs:
            res.violation(sig, case, msg)

    if what == "pairs":
        # every job of the palette as #1 against job number `first` as #0, in every listed advance order
        # (quick tier: every ostride-th order, rotating with the pair, so that neighbouring pairs cover all orders)
        _, seed, extra, first, ostride = arg
        pal = palette(seed, extra)
        a = pal[first]
        for bi, b in enumerate(pal):
            for oi, (sched, cyc) in enumerate(PAIR_ORDERS):
                if (oi + bi + first + seed) % ostride:
                    continue
                c = _inter([a, b], sched, cyc)
                go(c, "interleaved:" + _kinds(c))
        if first == 0:
            res.sample(_inter([pal[3], pal[12]], [0], [1, 0]), cls="interleaved pair")
    elif what == "eight":
        _, seed, extra, stride, offset = arg
        pal = palette(seed, extra)
        long_ = [j for j in pal if j["kind"] in ("setgroups", "stream") or (j["kind"] == "types" and len(j["types"]) > 1)]
        k = 0
        for ai, a in enumerate(long_):
            for bi, b in enumerate(long_):
                k += 1
                if k % stride != offset:
                    continue
                for order in eight_orders():
                    c = _inter([a, b], order)
                    go(c, "interleaved:first-eight-advances:" + _kinds(c))
    elif what == "triples":
        _, seed, extra, stride, offset = arg
        pal = palette(seed, extra)
        n = len(pal)
        for i in range(offset, n, stride):
            for d1, d2 in ((1, 2), (5, 11), (13, 7), (0, 9)):
                for sched, cyc in TRIPLE_ORDERS:
                    go(_inter([pal[i], pal[(i + d1) % n], pal[(i + d2) % n]], sched, cyc), "interleaved:three")
        if offset == 0:
            res.sample(_inter([pal[3], pal[10], pal[17]], [], [2, 1, 0]), cls="interleaved triple")
    elif what == "hyp":
        _, seed, n = arg
        hyp.search(inter_st(), run_case, res, n, seed, ID,
                   nontrivial=lambda c: LAST_INTER[0] is not None and LAST_INTER[0][0] == id(c) and LAST_INTER[0][1] and _differ(c),
                   classify=lambda c: ["hyp:interleaved:%d" % len(c["jobs"])] + sorted(set("hyp:interleaved:has-" + j["kind"] for j in c["jobs"])),
                   extra_rounds_budget_s=10.0)
    return res


def inter_st():
    @st.composite
    def job(draw, short):
        kind = draw(st.sampled_from(["types", "types", "qgroups", "setgroups", "setgroups", "setgroups", "stream", "gstream", "sgfault"]))
        single = st.sampled_from(["short", "int"] + [k for k in SINGLE_KINDS if k != "bool" or short < 2])
        if kind == "types":
            return {"kind": "types", "types": sorted(draw(st.lists(st.one_of(st.integers(0, 253), st.sampled_from([0, 1, 6, 8])),
                                                                max_size=6, unique=True))),
                    "short": short, "dest": draw(single)}
        if kind == "qgroups":
            return {"kind": "qgroups", "mask": draw(st.integers(0, 0xFFFF)), "short": short, "dest": draw(single)}
        if kind == "setgroups":
            cur, req, g = draw(st.integers(0, 0xFFFF)), draw(st.integers(0, 0xFFFF)), draw(st.integers(0, 15))
            d = draw(st.sampled_from(DEST_KINDS + [k for k in ALL_KINDS if k != "bool" or short < 2]))
            if BASE[d] == "group":
                cur |= 1 << g
            return {"kind": "setgroups", "cur": cur, "req": req, "dest": d, "g": g, "others": draw(st.integers(0, 2)), "short": short}
        if kind == "stream":
            return {"kind": "stream", "stream": draw(st.lists(st.sampled_from(ALPHABET + [2, 3, 100, 253]), min_size=1, max_size=8))}
        vals = ["none", "err", "err255", 0, 1, 0x80, 0xFF, 0x55]
        if kind == "gstream":
            return {"kind": "gstream", "stream": [draw(st.sampled_from(vals)), draw(st.sampled_from(vals))]}
        bad = draw(st.sampled_from(["none", "err", "err255"]))
        other = draw(st.sampled_from(vals))
        return {"kind": "sgfault", "stream": [bad, other] if draw(st.booleans()) else [other, bad], "short": short,
                "dest": draw(single)}

    @st.composite
    def gen(draw):
        n = draw(st.sampled_from([2, 2, 3]))
        short = draw(st.sampled_from([17, 17, 0, 63, 9]))
        jobs = [draw(job(short)) for _ in range(n)]
        sched = draw(st.lists(st.integers(0, n - 1), max_size=24))
        cycle = draw(st.one_of(st.just([]), st.permutations(list(range(n))), st.lists(st.integers(0, n - 1), min_size=1, max_size=6)))
        return _inter(jobs, sched, list(cycle))

    return gen()


def _dispatch(arg):
    if arg[0] == "inter":
        return _shard_inter(arg[1:])
    return _shard(arg)


# -------------------------------------------------------------- shards ----
def _shard(arg):
    kind = arg[0]
    res = Result()

    def run(case, nt=True, label=None):
        res.count()
        if nt:
            res.nontrivial()
        if label:
            res.label(label)
        for sig, msg in run_case(case):
            res.violation(sig, case, msg)

    if kind == "types-universe":
        uni = [0, 1, 6, 8, 253]
        for r in range(len(uni) + 1):
            for combo in itertools.combinations(uni, r):
                for as_int in (False, True):
                    run({"kind": "types", "types": list(combo), "short": 9, "as_int": as_int}, nt=len(combo) > 1,
                        label="types:len%d" % len(combo))
        res.sample({"kind": "types", "types": [0, 6, 8], "short": 9}, cls="device types")
    elif kind == "types-lengths":
        # the multi-type protocol (255, then QUERY NEXT DEVICE TYPE until 254) with well-behaved lists of every length
        _, offset, stride = arg
        for n in range(offset, 255, stride):
            for si, shape in enumerate(("first", "last", "spread")):
                t = long_types(n, shape)
                run({"kind": "types", "types": t, "short": (n + si) % 64, "as_int": bool((n + si) & 1)}, nt=n > 1,
                    label="types:len%s" % (n if n < 3 else "3-16" if n <= 16 else "17-64" if n <= 64 else "65-254"))
                if n >= 2 and shape != "last":
                    run({"kind": "stream", "stream": [255] + t + [254]}, nt=True, label="stream:well-behaved-long-list")
        res.sample({"kind": "types", "types": long_types(17, "spread"), "short": 9}, cls="many device types")
    elif kind == "history":
        _, seed, offset, stride = arg
        hs = fixed_histories(seed)
        for h in hs[offset::stride]:
            run(h, nt=history_nontrivial(h), label="history:" + "+".join(sorted(set(x[0] for x in h["steps"]))))
        if offset == 0:
            res.sample(hs[2], cls="history with the caller editing a returned set")
    elif kind == "qgroups":
        _, lo, hi, stride = arg
        for m in range(lo, hi, stride):
            run({"kind": "qgroups", "mask": m})
        res.label("qgroups", 1)
        res.sample({"kind": "qgroups", "mask": lo + 0x0101}, cls="query groups")
    elif kind == "setgroups":
        _, lows, highs, dests = arg[:4]
        more = {"short": arg[4]} if len(arg) > 4 else {}        # the unit's short address (default 17)
        for cl in lows:
            for ch in highs:
                cur = cl | (ch << 8)
                for rl in lows:
                    for rh in highs:
                        req = rl | (rh << 8)
                        for d in dests:
                            if BASE[d] == "group":
                                for g in sorted(bits_to_set(cur))[:2] + sorted(bits_to_set(cur))[-1:]:
                                    run(dict({"kind": "setgroups", "cur": cur, "req": req, "dest": d, "g": g}, **more), nt=cur != req,
                                        label="setgroups:" + d)
                            else:
                                run(dict({"kind": "setgroups", "cur": cur, "req": req, "dest": d}, **more), nt=cur != req,
                                    label="setgroups:" + d)
        res.sample({"kind": "setgroups", "cur": 0x1088, "req": 0x0006, "dest": "group", "g": 7}, cls="set groups")
    elif kind == "every-address":
        # every short address 0..63, given as a Short object, as a plain int and as every look-alike of the two (IntEnum
        # member, int subclass, Short subclass; bool for 0 and 1), for every sequence: the healthy clauses
        # (exact result, only the necessary changes, nothing else touched) and the fault clause (silent / garbled unit)
        _, seed, addrs = arg
        vals = ["none", "err", "err255", 0, 1, 0x80, 0xFF, 0x55]
        bad = ("none",) + ERRS

        def m(k):
            return (seed * 40503 + k * 25717 + 0x1234) & 0xFFFF
        for a in addrs:
            pairs = [(0x0000, 0x0000), (0x0000, 0x0006), (0x1088, 0x0006), (0xFFFF, 0xFFFE), (0x00FF, 0xFF00), (m(a), m(a + 64)),
                     (m(a + 128), m(a + 128) ^ (1 << (a % 16)))]
            for d in SINGLE_KINDS:
                if d == "bool" and a > 1:
                    continue
                for cur, req in pairs:
                    run({"kind": "setgroups", "cur": cur, "req": req, "dest": d, "short": a}, nt=cur != req,
                        label="every-address:setgroups:" + d)
                for a0 in vals:
                    for a1 in vals:
                        if a0 in bad or a1 in bad:
                            run({"kind": "sgfault", "stream": [a0, a1], "short": a, "dest": d},
                                label="every-address:setgroups-fault:" + d)
                for mask in (0x0000, 0xFFFF, m(a + 7)):
                    run({"kind": "qgroups", "mask": mask, "short": a, "dest": d}, label="every-address:qgroups:" + d)
                for types in ([], [a % 254], [0, 6, 8], [1, (a * 3) % 250 + 2, 253]):
                    run({"kind": "types", "types": types, "short": a, "dest": d}, nt=len(types) > 1,
                        label="every-address:types:" + d)
        res.sample({"kind": "sgfault", "stream": ["none", 0], "short": addrs[-1], "dest": "intenum"}, cls="fault at a given address")
    elif kind == "streams":
        _, first_items, maxlen = arg
        for a0 in first_items:
            for n in range(0, maxlen):
                for rest in itertools.product(ALPHABET, repeat=n):
                    stream = [a0] + list(rest)
                    run({"kind": "stream", "stream": stream}, nt=(a0 == 255 and n >= 1), label="stream:len%d" % (n + 1))
        res.sample({"kind": "stream", "stream": [255, 1, 6, 6]}, cls="adversarial stream")
    elif kind == "gstreams":
        vals = ["none", "err", "err255", 0, 1, 0x80, 0xFF, 0x55]
        for a0 in vals:
            for a1 in vals:
                run({"kind": "gstream", "stream": [a0, a1]}, label="gstream")
                if a0 in ("none",) + ERRS or a1 in ("none",) + ERRS:
                    run({"kind": "sgfault", "stream": [a0, a1]}, label="setgroups-fault")
        res.sample({"kind": "gstream", "stream": ["err", 1]}, cls="group query fault")
    elif kind == "hyp":
        _, seed, n = arg
        # short lists, and lists of any length up to all 254 types (a 254-bit pattern says which, `keep` how many)
        types_st = st.one_of(
            st.lists(st.integers(0, 253), min_size=0, max_size=8, unique=True).map(sorted),
            st.tuples(st.integers(0, (1 << 254) - 1), st.one_of(st.integers(0, 254), st.sampled_from([15, 16, 17, 18, 32, 33, 100, 253, 254])))
            .map(lambda t: [b for b in range(254) if (t[0] >> b) & 1][:t[1]]),
            st.tuples(st.integers(0, 254), st.sampled_from(["first", "last", "spread"])).map(lambda t: long_types(*t)))
        single = st.one_of(st.sampled_from(["short", "int"]), st.sampled_from(SINGLE_KINDS))

        def tcase(t):
            return {"kind": "types", "types": t[0], "short": t[1] & 1 if t[2] == "bool" else t[1], "dest": t[2]}
        hyp.search(st.tuples(types_st, st.integers(0, 63), single),
                   lambda t: case_types(tcase(t)),
                   res, n, seed, ID, nontrivial=lambda t: len(t[0]) > 1,
                   classify=lambda t: ["hyp-types:len%s" % (len(t[0]) if len(t[0]) <= 8 else "9-16" if len(t[0]) <= 16 else
                                                            "17-64" if len(t[0]) <= 64 else "65-254")],
                   to_json=tcase)
        pair = st.tuples(st.integers(0, 0xFFFF), st.integers(0, 0xFFFF), st.sampled_from(DEST_KINDS + ALL_KINDS), st.integers(0, 15),
                         st.one_of(st.integers(0, 63), st.sampled_from([0, 1, 62, 63])))

        def fix(t):
            cur, req, d, g, a = t
            if BASE[d] == "group":
                cur |= 1 << g
            return {"kind": "setgroups", "cur": cur, "req": req, "dest": d, "g": g, "short": a & 1 if d == "bool" else a}
        hyp.search(pair, lambda t: case_setgroups(fix(t)), res, n, seed + 1, ID,
                   nontrivial=lambda t: t[0] != t[1], classify=lambda t: ["hyp-setgroups:" + t[2]], to_json=fix)
        longer = st.lists(st.sampled_from(ALPHABET + [2, 3, 100, 253]), min_size=1, max_size=12)
        hyp.search(longer, lambda s: case_stream({"kind": "stream", "stream": s}), res, n, seed + 2, ID,
                   nontrivial=lambda s: s[0] == 255 and len(s) > 1, classify=lambda s: ["hyp-stream"],
                   to_json=lambda s: {"kind": "stream", "stream": s})
        hyp.search(history_st(), case_history, res, n, seed + 3, ID, nontrivial=history_nontrivial,
                   classify=lambda h: ["hyp-history:%d-steps" % len(h["steps"])] + (["hyp-history:read-modify-write"] if any(
                       x[0] == "setgroups" and x[2][0] == "slot" for x in h["steps"]) else []))
    return res


def run(ctx):
    q, s = ctx.quick, ctx.seed
    shards = [("types-universe",), ("gstreams",)]
    for k in range(4):
        shards.append(("types-lengths", k, 4))
        shards.append(("history", s, k, 4))
    for k in range(8):
        shards.append(("every-address", s, list(range(8 * k, 8 * k + 8))))
    st_ = 7 if q else 1
    for k in range(16):
        lo = k << 12
        shards.append(("qgroups", lo + s % st_, lo + (1 << 12), st_))
    # structured 2^8 x 2^8 subset: low-byte patterns x high-byte patterns
    pats = [0x00, 0x01, 0x80, 0xFF, 0x55, 0xAA, 0x0F, 0x18] if q else \
        [0x00, 0x01, 0x02, 0x80, 0xFF, 0x55, 0xAA, 0x0F, 0xF0, 0x18, 0x7E, 0x81, 0x3C, 0xC3, 0x10, 0xEF]
    if q:
        pats = pats[s % 2::2] + [0x00, 0xFF]
    for d in DEST_KINDS:
        for cl in pats:
            shards.append(("setgroups", [cl], pats, [d]))
    # the same structured pairs for the look-alike destinations (quick tier: half of the low-byte patterns each, rotating)
    for di, d in enumerate(LIKE_KINDS):
        for ci, cl in enumerate(pats):
            if not q or (ci + di + s) % 2 == 0:
                shards.append(("setgroups", [cl], pats, [d], (ci + s) % 2 if d == "bool" else 17))
    # adversarial streams: length <= 6 thorough (299 592 streams), <= 5 quick
    maxlen = 5 if q else 6
    for a0 in ALPHABET:
        shards.append(("streams", [a0], maxlen))
    for k in range(8):
        shards.append(("hyp", s * 1000 + k, 150 if q else 3000))
    # several sequences in flight at the same time, each on its own bus
    extra = 6 if q else 30
    npal = len(palette(s, extra))
    for first in range(npal):
        shards.append(("inter", "pairs", s, extra, first, 3 if q else 1))
    for k in range(8):
        if k < 4 or not q:
            shards.append(("inter", "eight", s, extra, 80 if q else 8, (s + k) % 8))
        shards.append(("inter", "triples", s, extra, 8, k))
        shards.append(("inter", "hyp", s * 1000 + 100 + k, 200 if q else 3000))
    ctx.pmap(_dispatch, shards)
    ctx.result.exhaustive = False
    ctx.result.extra["adversarial_stream_max_length"] = maxlen
    ctx.result.extra["setgroups_byte_patterns"] = len(pats)
    ctx.result.extra["sequences_in_flight"] = ("ordered pairs of a %d-job palette x %d advance orders, first-eight-advance orders, "
                                               "triples, Hypothesis sample (not exhaustive)" % (npal, len(PAIR_ORDERS)))
