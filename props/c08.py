"""C08 - gear query/set sequences report and establish exactly the gear's state.

Healthy units: the library sequences QueryDeviceTypes / QueryGroups / SetGroups are run against the
frame-level IEC 62386-102 gear model (harness/model_gear.py) through the fake bus.
Adversarial units: every answer stream of length <= 6 over {none, error, 0, 1, 6, 7, 254, 255}
(extended by repeating its last answer for ever) is played to QueryDeviceTypes; a reference function
over the stream says must-return / must-raise / either.
"""
import itertools

from hypothesis import strategies as st

from harness import hyp
from harness.bus import Bus, NonTermination
from harness.model_gear import GearModel
from harness.runner import Result, library_frame

ID = "C08"
LEVEL = "exploration"
RULE = ("healthy: (device-type list) / (group set) / (current set, requested set, destination kind) tuples, each distinct "
        "by construction; adversarial: answer streams, distinct by construction; non-trivial = multi-type list, or a "
        "stream that reaches the QUERY NEXT DEVICE TYPE loop, or a SetGroups pair with current != requested")
ASSUMPTIONS = [
    "a unit that answers 255 to QUERY DEVICE TYPE and then 254 at once, or 255 to QUERY NEXT DEVICE TYPE, is "
    "misbehaving in a way the statement does not classify: raising or carrying on are both accepted",
    "two or more simultaneous answers are always seen as a framing error (as the library documents)",
    "a group destination is only used when the unit is a member of that group at the start (implicit precondition of "
    "group addressing)",
]

# "err" = framing error carrying harmless bits; "err254"/"err255" = framing error whose bits read as the
# end-of-list / multiple-types markers (two units colliding, one of them sending the marker)
ALPHABET = ["none", "err", "err254", "err255", 0, 1, 6, 7, 254, 255]
ERRS = ("err", "err254", "err255")


def _load():
    from dali import sequences, address, exceptions
    return sequences, address, exceptions


# ------------------------------------------------------------ healthy ----
def case_types(case):
    """{"kind": "types", "types": [...], "short": a, "as_int": bool}"""
    sequences, address, exc = _load()
    types = case["types"]
    a = case["short"]
    unit = GearModel(short=a, device_types=types)
    other = GearModel(short=(a + 1) % 64, device_types=[3])
    bus = Bus([unit, other], max_commands=300)
    where = "QueryDeviceTypes on a unit with types %r" % (types,)
    try:
        r = bus.run(sequences.QueryDeviceTypes(a if case.get("as_int") else address.GearShort(a)))
    except NonTermination:
        return [("C08:types-nontermination", "%s: more than 300 commands" % where)]
    except exc.DALISequenceError as e:
        sig = "C08:types-healthy-rejected" + (":includes-type-0" if 0 in types and len(types) > 1 else "")
        return [(sig, "%s raised DALISequenceError(%s)" % (where, e))]
    except Exception as e:  # noqa
        if library_frame(e.__traceback__) is None:
            raise
        return [("C08:types-raised:%s" % type(e).__name__, "%s raised %r" % (where, e))]
    if r != sorted(types):
        return [("C08:types-wrong", "%s returned %r" % (where, r))]
    return []


DEST_KINDS = ["short", "int", "group", "broadcast", "unaddressed"]


def make_dest(address, kind, a, g):
    if kind == "short":
        return address.GearShort(a)
    if kind == "int":
        return a
    if kind == "group":
        return address.GearGroup(g)
    if kind == "broadcast":
        return address.GearBroadcast()
    return address.GearBroadcastUnaddressed()


def bits_to_set(m):
    return set(i for i in range(16) if (m >> i) & 1)


def case_groups(case):
    """{"kind": "qgroups", "mask": m}"""
    sequences, address, exc = _load()
    cur = bits_to_set(case["mask"])
    a = 5 + case["mask"] % 50
    unit = GearModel(short=a, groups=cur)
    bus = Bus([unit, GearModel(short=(a + 1) % 64, groups={1, 9})], max_commands=50)
    try:
        r = bus.run(sequences.QueryGroups(address.GearShort(a)))
    except Exception as e:  # noqa
        if library_frame(e.__traceback__) is None and not isinstance(e, NonTermination):
            raise
        return [("C08:qgroups-raised:%s" % type(e).__name__, "QueryGroups on groups %r raised %r" % (sorted(cur), e))]
    if r != cur or not isinstance(r, set):
        return [("C08:qgroups-wrong", "QueryGroups on a unit in groups %r returned %r" % (sorted(cur), r))]
    return []


def case_setgroups(case):
    """{"kind": "setgroups", "cur": mask, "req": mask, "dest": kind, "g": group used for a group destination}"""
    sequences, address, exc = _load()
    cur, req = bits_to_set(case["cur"]), bits_to_set(case["req"])
    kind = case["dest"]
    a = 17
    g = case.get("g", 0)
    if kind == "group":
        if g not in cur:
            return []          # precondition: the unit must be reachable through the group
    short = None if kind == "unaddressed" else a
    unit = GearModel(short=short, groups=cur)
    bystander = GearModel(short=40, groups={2, 11})     # must not be touched by short/int destinations
    units = [unit, bystander] if kind in ("short", "int") else [unit]
    extra = []
    if kind in ("group", "broadcast", "unaddressed") and case.get("others", (case["cur"] ^ case["req"]) % 3):
        # a multi-unit destination normally reaches several units, each with its own membership
        n_extra = case.get("others", (case["cur"] ^ case["req"]) % 3)
        for j in range(n_extra):
            gs = bits_to_set((case["cur"] * (j + 3) + 0x1234 * (j + 1)) & 0xFFFF)
            if kind == "group":
                gs.add(g)
            extra.append(GearModel(short=None if kind == "unaddressed" else 50 + j, groups=gs))
        units = units + extra
    bus = Bus(units, max_commands=100)
    where = "SetGroups(%s, %r) on a unit in groups %r" % (kind if kind != "group" else "group %d" % g, sorted(req), sorted(cur))
    try:
        # "groups is a set of integers": a set or a frozenset; the caller keeps using its own object afterwards
        given = frozenset(req) if (case["cur"] + case["req"]) % 2 else set(req)
        bus.run(sequences.SetGroups(make_dest(address, kind, a, g), given))
        if set(given) != req:
            return [("C08:setgroups-modified-callers-set", "%s: the caller's set is now %r" % (where, sorted(given)))]
    except Exception as e:  # noqa
        if library_frame(e.__traceback__) is None and not isinstance(e, NonTermination):
            raise
        return [("C08:setgroups-raised:%s" % type(e).__name__, "%s raised %r" % (where, e))]
    out = []
    for j, u in enumerate(extra):
        if u.groups != req:
            out.append(("C08:setgroups-membership:%s:other-unit" % kind, "%s left another unit reached by the same destination in "
                        "groups %r" % (where, sorted(u.groups))))
            break
    if unit.groups != req:
        sig = "C08:setgroups-membership:" + kind
        if kind == "group" and g not in req:
            sig = "C08:setgroups-group-destination-removed-midway"
        out.append((sig, "%s left the unit in groups %r" % (where, sorted(unit.groups))))
    if kind in ("short", "int"):
        if bystander.groups != {2, 11}:
            out.append(("C08:setgroups-touched-bystander", "%s changed another unit to %r" % (where, sorted(bystander.groups))))
        # after the two queries, exactly the necessary changes (model opcodes: 0x60+g add, 0x70+g remove)
        changes = [(v & 0xF0, v & 0x0F) for (bits, v, tw, ans) in bus.trace[2:]]
        adds = sorted(gq for (op, gq) in changes if op == 0x60)
        rems = sorted(gq for (op, gq) in changes if op == 0x70)
        others = [c for c in changes if c[0] not in (0x60, 0x70)]
        if adds != sorted(req - cur) or rems != sorted(cur - req) or others or len(bus.trace) != 2 + len(adds) + len(rems):
            out.append(("C08:setgroups-unnecessary-commands", "%s issued adds %r removes %r others %r"
                        % (where, adds, rems, others)))
    return out


# -------------------------------------------------------- adversarial ----
class ScriptBus(Bus):
    """Answers the n-th command with the n-th scripted item (last item repeated for ever)."""

    def __init__(self, stream, max_commands):
        super().__init__([], max_commands=max_commands)
        self.stream = stream

    def transact(self, cmd):
        from dali import frame
        step = self.n
        self.n += 1
        if self.n > self.max_commands:
            raise NonTermination("more than %d commands" % self.max_commands)
        self.commands.append(cmd)
        item = self.stream[min(step, len(self.stream) - 1)]
        if cmd.response is None:
            return None
        if item == "none":
            return cmd.response(None)
        if item in ERRS:
            v = {"err254": 254, "err255": 255}.get(item, 0x55 if step % 2 else 0x06)
            return cmd.response(frame.BackwardFrameError(v))
        return cmd.response(frame.BackwardFrame(item))


def ref_types(stream):
    """Reference verdict for QueryDeviceTypes against an answer stream (last item repeats).
    Returns (set of acceptable return values as tuples, raise_allowed, commands needed at most)."""
    def at(i):
        return stream[min(i, len(stream) - 1)]
    a0 = at(0)
    if a0 == "none" or a0 in ERRS:
        return set(), True, 1
    if a0 < 254:
        return {(a0,)}, False, 1
    if a0 == 254:
        return {()}, False, 1
    # 255: multiple types follow
    accept = set()
    raise_ok = False
    # strict reading: 255 as a "next" answer is an error; lenient: it is a value
    for lenient in (False, True):
        res = []
        last = -1
        i = 1
        while True:
            a = at(i)
            if a == "none" or a in ERRS:
                raise_ok = True
                break
            if a == 254:
                if not res:
                    raise_ok = True        # 255 then immediately 254: "either"
                    accept.add(())
                else:
                    accept.add(tuple(res))
                break
            if a == 255 and not lenient:
                raise_ok = True
                break
            if a <= last:
                raise_ok = True
                break
            res.append(a)
            last = a
            i += 1
            if i > 300:
                raise_ok = True
                break
    return accept, raise_ok, None


def case_stream(case):
    """{"kind": "stream", "stream": [...]}"""
    sequences, address, exc = _load()
    stream = case["stream"]
    accept, raise_ok, _ = ref_types(stream)
    bus = ScriptBus(stream, max_commands=300)
    where = "QueryDeviceTypes against answer stream %r(+repeat)" % (stream,)
    try:
        r = bus.run(sequences.QueryDeviceTypes(address.GearShort(3)))
    except NonTermination:
        return [("C08:types-nontermination", "%s: still asking after 300 commands" % where)]
    except exc.DALISequenceError:
        if not raise_ok:
            return [("C08:types-healthy-rejected" + (":includes-type-0" if 0 in stream[1:] else ""),
                     "%s raised DALISequenceError but the stream is a conforming answer for %r" % (where, sorted(accept)))]
        if bus.n > min(258, len(stream) + 2 + 256):
            return [("C08:types-late-stop", "%s stopped only after %d commands" % (where, bus.n))]
        return []
    except Exception as e:  # noqa
        if library_frame(e.__traceback__) is None:
            raise
        return [("C08:types-raised:%s" % type(e).__name__, "%s raised %r" % (where, e))]
    if not isinstance(r, list) or tuple(r) not in accept:
        kind = "framing-error-taken-as-data" if any(x in ERRS for x in stream[:bus.n]) else \
            "out-of-order-accepted" if stream[0] == 255 else "wrong"
        return [("C08:types-wrong-data:" + kind, "%s returned %r; acceptable: %s%s"
                 % (where, r, sorted(accept), " or DALISequenceError" if raise_ok else ""))]
    if bus.n > 258:
        return [("C08:types-late-stop", "%s took %d commands" % (where, bus.n))]
    return []


def case_qgroups_stream(case):
    """{"kind": "gstream", "stream": [a0, a1]}"""
    sequences, address, exc = _load()
    stream = case["stream"]
    bus = ScriptBus(stream, max_commands=20)
    bad = any(x == "none" or x in ERRS for x in stream[:2])
    where = "QueryGroups against answers %r" % (stream,)
    try:
        r = bus.run(sequences.QueryGroups(address.GearShort(3)))
    except exc.DALISequenceError:
        return [] if bad else [("C08:qgroups-healthy-rejected", where)]
    except Exception as e:  # noqa
        if library_frame(e.__traceback__) is None and not isinstance(e, NonTermination):
            raise
        return [("C08:qgroups-raised:%s" % type(e).__name__, "%s raised %r" % (where, e))]
    if bad:
        return [("C08:qgroups-wrong-data", "%s returned %r instead of raising DALISequenceError" % (where, r))]
    exp = bits_to_set(stream[0] | (stream[1] << 8))
    if r != exp:
        return [("C08:qgroups-wrong", "%s returned %r expected %r" % (where, r, exp))]
    # SetGroups on a short address must propagate the failure of its queries
    return []


def case_setgroups_fault(case):
    """{"kind": "sgfault", "stream": [a0, a1]} - SetGroups(short) when the group queries fail."""
    sequences, address, exc = _load()
    stream = case["stream"] + [0]
    bus = ScriptBus(stream, max_commands=40)
    where = "SetGroups(short, {1,2}) when the group queries answer %r" % (case["stream"],)
    try:
        bus.run(sequences.SetGroups(address.GearShort(3), {1, 2}))
    except exc.DALISequenceError:
        return []
    except Exception as e:  # noqa
        if library_frame(e.__traceback__) is None and not isinstance(e, NonTermination):
            raise
        return [("C08:setgroups-raised:%s" % type(e).__name__, "%s raised %r" % (where, e))]
    return [("C08:setgroups-ignored-query-failure", "%s completed normally" % where)]


def run_case(case):
    k = case["kind"]
    return {"types": case_types, "qgroups": case_groups, "setgroups": case_setgroups, "stream": case_stream,
            "gstream": case_qgroups_stream, "sgfault": case_setgroups_fault}[k](case)


# -------------------------------------------------------------- shards ----
def _shard(arg):
    kind = arg[0]
    res = Result()

    def run(case, nt=True, label=None):
        res.count()
        if nt:
            res.nontrivial()
        if label:
            res.label(label)
        for sig, msg in run_case(case):
            res.violation(sig, case, msg)

    if kind == "types-universe":
        uni = [0, 1, 6, 8, 253]
        for r in range(len(uni) + 1):
            for combo in itertools.combinations(uni, r):
                for as_int in (False, True):
                    run({"kind": "types", "types": list(combo), "short": 9, "as_int": as_int}, nt=len(combo) > 1,
                        label="types:len%d" % len(combo))
        res.sample({"kind": "types", "types": [0, 6, 8], "short": 9}, cls="device types")
    elif kind == "qgroups":
        _, lo, hi, stride = arg
        for m in range(lo, hi, stride):
            run({"kind": "qgroups", "mask": m})
        res.label("qgroups", 1)
        res.sample({"kind": "qgroups", "mask": lo + 0x0101}, cls="query groups")
    elif kind == "setgroups":
        _, lows, highs, dests = arg
        for cl in lows:
            for ch in highs:
                cur = cl | (ch << 8)
                for rl in lows:
                    for rh in highs:
                        req = rl | (rh << 8)
                        for d in dests:
                            if d == "group":
                                for g in sorted(bits_to_set(cur))[:2] + sorted(bits_to_set(cur))[-1:]:
                                    run({"kind": "setgroups", "cur": cur, "req": req, "dest": d, "g": g}, nt=cur != req,
                                        label="setgroups:" + d)
                            else:
                                run({"kind": "setgroups", "cur": cur, "req": req, "dest": d}, nt=cur != req,
                                    label="setgroups:" + d)
        res.sample({"kind": "setgroups", "cur": 0x1088, "req": 0x0006, "dest": "group", "g": 7}, cls="set groups")
    elif kind == "streams":
        _, first_items, maxlen = arg
        for a0 in first_items:
            for n in range(0, maxlen):
                for rest in itertools.product(ALPHABET, repeat=n):
                    stream = [a0] + list(rest)
                    run({"kind": "stream", "stream": stream}, nt=(a0 == 255 and n >= 1), label="stream:len%d" % (n + 1))
        res.sample({"kind": "stream", "stream": [255, 1, 6, 6]}, cls="adversarial stream")
    elif kind == "gstreams":
        vals = ["none", "err", "err255", 0, 1, 0x80, 0xFF, 0x55]
        for a0 in vals:
            for a1 in vals:
                run({"kind": "gstream", "stream": [a0, a1]}, label="gstream")
                if a0 in ("none",) + ERRS or a1 in ("none",) + ERRS:
                    run({"kind": "sgfault", "stream": [a0, a1]}, label="setgroups-fault")
        res.sample({"kind": "gstream", "stream": ["err", 1]}, cls="group query fault")
    elif kind == "hyp":
        _, seed, n = arg
        types_st = st.lists(st.integers(0, 253), min_size=0, max_size=8, unique=True).map(sorted)
        hyp.search(st.tuples(types_st, st.integers(0, 63), st.booleans()),
                   lambda t: case_types({"kind": "types", "types": t[0], "short": t[1], "as_int": t[2]}),
                   res, n, seed, ID, nontrivial=lambda t: len(t[0]) > 1,
                   classify=lambda t: ["hyp-types:len%d" % len(t[0])],
                   to_json=lambda t: {"kind": "types", "types": t[0], "short": t[1], "as_int": t[2]})
        pair = st.tuples(st.integers(0, 0xFFFF), st.integers(0, 0xFFFF), st.sampled_from(DEST_KINDS), st.integers(0, 15))

        def fix(t):
            cur, req, d, g = t
            if d == "group":
                cur |= 1 << g
            return {"kind": "setgroups", "cur": cur, "req": req, "dest": d, "g": g}
        hyp.search(pair, lambda t: case_setgroups(fix(t)), res, n, seed + 1, ID,
                   nontrivial=lambda t: t[0] != t[1], classify=lambda t: ["hyp-setgroups:" + t[2]], to_json=fix)
        longer = st.lists(st.sampled_from(ALPHABET + [2, 3, 100, 253]), min_size=1, max_size=12)
        hyp.search(longer, lambda s: case_stream({"kind": "stream", "stream": s}), res, n, seed + 2, ID,
                   nontrivial=lambda s: s[0] == 255 and len(s) > 1, classify=lambda s: ["hyp-stream"],
                   to_json=lambda s: {"kind": "stream", "stream": s})
    return res


def run(ctx):
    q, s = ctx.quick, ctx.seed
    shards = [("types-universe",), ("gstreams",)]
    st_ = 7 if q else 1
    for k in range(16):
        lo = k << 12
        shards.append(("qgroups", lo + s % st_, lo + (1 << 12), st_))
    # structured 2^8 x 2^8 subset: low-byte patterns x high-byte patterns
    pats = [0x00, 0x01, 0x80, 0xFF, 0x55, 0xAA, 0x0F, 0x18] if q else \
        [0x00, 0x01, 0x02, 0x80, 0xFF, 0x55, 0xAA, 0x0F, 0xF0, 0x18, 0x7E, 0x81, 0x3C, 0xC3, 0x10, 0xEF]
    if q:
        pats = pats[s % 2::2] + [0x00, 0xFF]
    for d in DEST_KINDS:
        for cl in pats:
            shards.append(("setgroups", [cl], pats, [d]))
    # adversarial streams: length <= 6 thorough (299 592 streams), <= 5 quick
    maxlen = 5 if q else 6
    for a0 in ALPHABET:
        shards.append(("streams", [a0], maxlen))
    for k in range(8):
        shards.append(("hyp", s * 1000 + k, 150 if q else 3000))
    ctx.pmap(_shard, shards)
    ctx.result.exhaustive = False
    ctx.result.extra["adversarial_stream_max_length"] = maxlen
    ctx.result.extra["setgroups_byte_patterns"] = len(pats)
