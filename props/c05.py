"""C05 - Frame behaves as a fixed-width unsigned bit vector under all operations.

Oracle: a list-of-bools model (index i = bit i, LSB = 0) written here, sharing
no code with dali.frame.  Two engines:
  * complete enumeration for small widths (every initial value x every (hi, lo)
    in -1..w x every written value -1..2^w, plus all reads/views);
  * Hypothesis-generated operation histories over a pool of frames up to 256
    bits wide (construct, set bit, set slice, concatenate, error operations),
    with the model compared after every step and all views at the end.
"""
import itertools

from hypothesis import strategies as st

from harness import hyp
from harness.runner import Result

ID = "C05"
OPTIMIZED_PASS = True      # the whole search runs once more under python -OO (harness/runner.py)
LEVEL = "exploration"
RULE = ("exhaustive part: every (width, initial value, hi, lo, written value) tuple is one case "
        "(distinct by construction; non-trivial = the write is accepted and changes bits, or is an "
        "error case that must leave the frame unchanged); history part: Hypothesis lists of "
        "operations over a frame pool, non-trivial = history contains a write after a concatenation "
        "on the concatenated frame or a write touching the top bit (distinct by fingerprint)")
ASSUMPTIONS = [
    "documented exceptions: IndexError for out-of-range indices, OverflowError for pack_len; "
    "for other illegal operands any of TypeError/ValueError/IndexError/OverflowError is accepted",
    "bool operands are ints in Python and are not treated as illegal",
]

FAMILY = (TypeError, ValueError, IndexError, OverflowError)


# ---------------------------------------------------------------- model ----
class M:
    """Reference model: list of bools, index = bit number."""

    def __init__(self, bits):
        self.bits = list(bits)

    @classmethod
    def from_int(cls, w, n):
        return cls([(n >> i) & 1 == 1 for i in range(w)])

    @property
    def w(self):
        return len(self.bits)

    @property
    def n(self):
        t = 0
        for i, b in enumerate(self.bits):
            if b:
                t += 1 << i
        return t

    def get_slice(self, a, b):
        lo, hi = min(a, b), max(a, b)
        t = 0
        for k, i in enumerate(range(lo, hi + 1)):
            if self.bits[i]:
                t += 1 << k
        return t

    def set_slice(self, a, b, v):
        lo, hi = min(a, b), max(a, b)
        for k, i in enumerate(range(lo, hi + 1)):
            self.bits[i] = (v >> k) & 1 == 1

    def be_bytes(self, length=None):
        nbytes = (self.w + 7) // 8 if length is None else length
        out = []
        n = self.n
        for k in range(nbytes):
            out.append((n >> (8 * (nbytes - 1 - k))) & 0xFF)
        return out


def _frame_mod():
    from dali import frame
    return frame


# ------------------------------------------------------------ observers ----
def quick_agree(f, m, out, where):
    """Cheap invariant checked after every operation."""
    try:
        if len(f) != m.w:
            out.append(("C05:length-changed", "%s: len %d model %d" % (where, len(f), m.w)))
        n = f.as_integer
        if n != m.n:
            out.append(("C05:contents-differ", "%s: as_integer %#x model %#x (w=%d)" % (where, n, m.n, m.w)))
        if not (isinstance(n, int) and 0 <= n < (1 << m.w)):
            out.append(("C05:value-out-of-range", "%s: %r not in [0, 2^%d)" % (where, n, m.w)))
        if hasattr(f, "error") and type(f).__module__ == "dali.frame":
            # a backward frame received with a framing error stays one, a clean one stays clean, whatever is written to it
            want = type(f).__name__ == "BackwardFrameError"
            if f.error is not want:
                out.append(("C05:backward-frame-error-flag", "%s: a %s reports error=%r" % (where, type(f).__name__, f.error)))
        if hasattr(f, "is_reserved"):
            # ForwardFrame docstring: 20 and 32 data bits are reserved, anything but 16/20/24/32 is proprietary
            if f.is_reserved is not (m.w in (20, 32)) or f.is_proprietary is not (m.w not in (16, 20, 24, 32)):
                out.append(("C05:forward-frame-length-class", "%s: %d-bit forward frame reports is_reserved=%r "
                            "is_proprietary=%r" % (where, m.w, f.is_reserved, f.is_proprietary)))
    except Exception as e:  # noqa
        out.append(("C05:observer-raised", "%s: %r" % (where, e)))


def deep_agree(f, m, out, where, idxs=None):
    """All views of the frame against the model."""
    frame = _frame_mod()
    w = m.w
    n = m.n
    try:
        quick_agree(f, m, out, where)
        rng = range(w) if w <= 24 else sorted(set([0, 1, w - 1, w - 2, w // 2] + [i % w for i in (idxs or [])]))
        for i in rng:
            b = f[i]
            if b is not m.bits[i]:
                out.append(("C05:bit-read", "%s: f[%d]=%r model %r" % (where, i, b, m.bits[i])))
                break
        pairs = itertools.product(rng, rng) if w <= 10 else \
            [(a, b) for a in list(rng)[:6] for b in list(rng)[-6:]] + [(w - 1, 0), (0, w - 1)]
        for a, b in pairs:
            got = f[a:b]
            if got != m.get_slice(a, b) or not isinstance(got, int):
                out.append(("C05:slice-read", "%s: f[%d:%d]=%r model %r" % (where, a, b, got, m.get_slice(a, b))))
                break
        # iteration yields the bits from bit 0 up, and an iterator reads the frame as it is when it gets to a bit
        bits_seen = list(f)
        if bits_seen != m.bits or any(type(b) is not bool for b in bits_seen):
            out.append(("C05:iteration", "%s: list(frame) gives %r, model %r" % (where, bits_seen[:24], m.bits[:24])))
        elif w >= 2:
            it = iter(f)
            first = next(it)
            j = w - 1
            old_bit = m.bits[j]
            f[j] = not old_bit
            rest = list(it)
            f[j] = old_bit
            if [first] + rest != m.bits[:j] + [not old_bit]:
                out.append(("C05:iteration-of-a-frame-being-written", "%s: an iterator started before bit %d was written still "
                            "shows %r for it" % (where, j, rest[-1] if rest else None)))
        be = m.be_bytes()
        if f.as_byte_sequence != be:
            out.append(("C05:byte-sequence", "%s: %r model %r" % (where, f.as_byte_sequence, be)))
        # the views are the caller's to use: a returned list that the caller extends (header, checksum), reverses or
        # clears does not change what the frame says next time
        handed = f.as_byte_sequence
        if isinstance(handed, list):
            handed.append(0x99)
            handed.reverse()
            handed[:1] = [0x11, 0x22]
            if f.as_byte_sequence != be or f.pack != bytes(be) or f.as_integer != n:
                out.append(("C05:view-shared-with-caller", "%s: after the caller edited the list as_byte_sequence had returned, "
                            "as_byte_sequence is %r, pack %r, as_integer %#x; model %r" % (where, f.as_byte_sequence, f.pack, f.as_integer, be)))
        if f.pack != bytes(be):
            out.append(("C05:pack", "%s: %r model %r" % (where, f.pack, bytes(be))))
        nb = (w + 7) // 8
        need = (n.bit_length() + 7) // 8
        # every length the VALUE fits in (also shorter than the frame's own packed length, down to 0 bytes for 0)
        for l in sorted({need, need + 1, max(need, nb - 1), nb, nb + 1, nb + 3}):
            p = f.pack_len(l) if (l + w) % 2 else f.pack_len(l=l)        # by position, or by its documented name
            if p != n.to_bytes(l, "big"):
                out.append(("C05:pack_len", "%s: pack_len(%d)=%r model %r" % (where, l, p, n.to_bytes(l, "big"))))
            if l >= nb and (type(f)(p) if isinstance(f, frame.BackwardFrame) else type(f)(w, p)) != f:
                out.append(("C05:reconstruct", "%s: Frame(w, pack_len(%d)) != f" % (where, l)))
        try:
            p = f.pack_len(-1)
            out.append(("C05:pack_len-negative-length", "%s: pack_len(-1) returned %r" % (where, p)))
        except (ValueError, OverflowError):
            pass
        # a byte string too short for the *value* must raise OverflowError
        if need >= 1:
            try:
                p = f.pack_len(need - 1)
                out.append(("C05:pack_len-overflow", "%s: pack_len(%d) returned %r for value %#x" % (where, need - 1, p, n)))
            except OverflowError:
                pass
        for src, what in ((f.as_integer, "as_integer"), (f.as_byte_sequence, "as_byte_sequence"), (f.pack, "pack")):
            g = frame.Frame(w, src)
            if not (g == f) or (g != f) or not (f == g):
                out.append(("C05:reconstruct", "%s: Frame(w, %s) != f" % (where, what)))
        # equality: same width and same bits
        if w < 300:
            if f == frame.Frame(w + 1, n) or not (f != frame.Frame(w + 1, n)):
                out.append(("C05:equality", "%s: equal to a wider frame with the same number" % where))
        other = frame.Frame(w, n ^ 1)
        if f == other or not (f != other):
            out.append(("C05:equality", "%s: equal to a frame differing in bit 0" % where))
        hi = frame.Frame(w, n ^ (1 << (w - 1)))
        if f == hi or not (f != hi):
            out.append(("C05:equality", "%s: equal to a frame differing in the top bit" % where))
        # "equality means same width and same bits": the subclass and the received-with-error flag do not enter
        same = [frame.Frame(w, n), frame.ForwardFrame(w, n)]
        if w == 8:
            same += [frame.BackwardFrame(n), frame.BackwardFrameError(n)]
        for g in same:
            for a, b in ((f, g), (g, f)):
                if not (a == b) or (a != b):
                    out.append(("C05:equality:across-frame-classes", "%s: %s(%d, %#x) vs %s with the same width and bits: == is %r, != is %r"
                                % (where, type(a).__name__, w, n, type(b).__name__, a == b, a != b)))
        if w == 8:
            e = frame.BackwardFrameError(n ^ 1)
            if f == e or not (f != e):
                out.append(("C05:equality", "%s: equal to a BackwardFrameError differing in bit 0" % where))
        if f == n or not (f != n) or f == None or not (f != None):  # noqa: E711
            out.append(("C05:equality", "%s: equal to a non-frame" % where))
        if (True in f) != any(m.bits) or (False in f) != (not all(m.bits)):
            out.append(("C05:contains", "%s: True in f=%r False in f=%r model bits %#x/%d"
                        % (where, True in f, False in f, n, w)))
        if not isinstance(str(f), str):
            out.append(("C05:str", "%s: str() not a str" % where))
    except Exception as e:  # noqa
        out.append(("C05:observer-raised:%s" % type(e).__name__, "%s: %r" % (where, e)))


def expect_raise(fn, allowed, f, m, out, where, sigpart):
    """fn() must raise one of `allowed` and leave f equal to the model m."""
    try:
        r = fn()
    except allowed:
        pass
    except Exception as e:  # noqa
        out.append(("C05:wrong-exception:%s" % sigpart,
                    "%s: raised %r, documented %s" % (where, e, [x.__name__ for x in allowed])))
    else:
        out.append(("C05:accepted:%s" % sigpart, "%s: returned %r instead of raising" % (where, r)))
    if f is not None:
        quick_agree(f, m, out, where + " (after rejected operation)")


# ----------------------------------------------------------- exhaustive ----
def exhaustive_case(case):
    """case = {"w":, "init":, "hi":, "lo":, "v":}  one slice write (possibly illegal)."""
    frame = _frame_mod()
    out = []
    w, init, hi, lo, v = case["w"], case["init"], case["hi"], case["lo"], case["v"]
    f = frame.Frame(w, init)
    m = M.from_int(w, init)
    where = "w=%d init=%#x f[%d:%d]=%d" % (w, init, hi, lo, v)
    idx_bad = not (0 <= hi < w and 0 <= lo < w)
    span = abs(hi - lo) + 1
    val_bad = v < 0 or v >= (1 << span)

    def write():
        f[hi:lo] = v
    if idx_bad and not val_bad:
        allowed = (IndexError,) if (hi >= w or lo >= w) and hi >= 0 and lo >= 0 else FAMILY
        expect_raise(write, allowed, f, m, out, where, "slice-index")
    elif idx_bad or val_bad:
        expect_raise(write, FAMILY, f, m, out, where, "slice-value")
    else:
        try:
            write()
            m.set_slice(hi, lo, v)
        except Exception as e:  # noqa
            out.append(("C05:legal-write-raised", "%s: %r" % (where, e)))
        quick_agree(f, m, out, where)
        got = f[hi:lo]
        if got != v:
            out.append(("C05:slice-readback", "%s: read back %r" % (where, got)))
    return out


def _exh_shard(arg):
    w, init_lo, init_hi = arg
    frame = _frame_mod()
    res = Result()
    res.exhaustive = True
    for init in range(init_lo, init_hi):
        # reads and views of the freshly constructed frame
        f0 = frame.Frame(w, init)
        m0 = M.from_int(w, init)
        out = []
        deep_agree(f0, m0, out, "w=%d init=%#x fresh" % (w, init))
        res.count()
        # bit writes incl. out of range
        for i in range(-1, w + 1):
            for val in (True, False, 0, 1, 2, None, "x"):
                f = frame.Frame(w, init)
                m = M.from_int(w, init)
                where = "w=%d init=%#x f[%d]=%r" % (w, init, i, val)
                res.count()
                if 0 <= i < w:
                    try:
                        f[i] = val
                        m.bits[i] = bool(val)
                    except Exception as e:  # noqa
                        out.append(("C05:legal-write-raised", "%s: %r" % (where, e)))
                    quick_agree(f, m, out, where)
                    res.nontrivial()
                else:
                    def wr(f=f, i=i, val=val):
                        f[i] = val
                    expect_raise(wr, (IndexError,), f, m, out, where, "bit-index")
                    expect_raise(lambda f=f, i=i: f[i], (IndexError,), f, m, out, where + " read", "bit-index")
                    res.nontrivial()
        for sig, msg in out:
            res.violation(sig, {"kind": "exh-view", "w": w, "init": init}, msg)
        for hi in range(-1, w + 1):
            for lo in range(-1, w + 1):
                for v in range(-1, (1 << w) + 1):
                    case = {"kind": "exh", "w": w, "init": init, "hi": hi, "lo": lo, "v": v}
                    res.count()
                    vs = exhaustive_case(case)
                    idx_bad = not (0 <= hi < w and 0 <= lo < w)
                    if idx_bad or v < 0 or v >= (1 << (abs(hi - lo) + 1)):
                        res.nontrivial()
                        res.label("rejected-write")
                    elif v != ((init >> min(hi, lo)) & ((1 << (abs(hi - lo) + 1)) - 1)):
                        res.nontrivial()
                        res.label("accepted-write-changing-bits" + ("-top" if max(hi, lo) == w - 1 else ""))
                    else:
                        res.label("accepted-write-no-change")
                    for sig, msg in vs:
                        res.violation(sig, case, msg)
    if w == 5 and init_lo == 0:
        res.sample({"kind": "exh", "w": w, "init": init_lo, "hi": w - 1, "lo": 1, "v": 1})
    return res


# ------------------------------------------------------------ histories ----
BAD_KEYS = ["1", 1.5, None, (1, 2), b"\x01"]
BAD_VALUES = [1.5, "1", None, b"\x01", [1]]


class _NoTruth:
    """An object whose truth value cannot be computed (numpy arrays with several elements, pandas.NA behave so)."""
    def __bool__(self):
        raise ValueError("truth value is ambiguous")


class _NoLen:
    def __len__(self):
        raise TypeError("broken sized object")
NON_FRAMES = [5, None, "ab", b"\x01\x02", [1, 0], 0, 0.0, False, 0j, "", b"", (), 1]


def ops_strategy():
    sel = st.integers(0, 10 ** 6)
    val = st.one_of(st.just("max"), st.just(0), st.just("top"), st.integers(0, 2 ** 256))
    width = st.one_of(st.integers(1, 16), st.sampled_from([7, 8, 9, 15, 16, 17, 19, 20, 21, 24, 25, 31, 32, 33, 63, 64, 65, 255, 256]),
                      st.integers(1, 256))
    op = st.one_of(
        st.tuples(st.just("new"), width, val),
        st.tuples(st.just("newbytes"), width, val),
        st.tuples(st.just("setbit"), sel, sel, st.sampled_from([True, False, 1, 0, 2, None, "x"])),
        st.tuples(st.just("setslice"), sel, sel, sel, val),
        st.tuples(st.just("setslice_top"), sel, sel, val),
        st.tuples(st.just("add"), sel, sel),
        st.tuples(st.just("iadd"), sel, sel),
        st.tuples(st.just("newback"), st.sampled_from(["int", "bytes", "list"]), st.booleans(), val),
        st.tuples(st.just("bad_index"), sel, st.sampled_from(["getbit", "setbit", "getslice", "setslice"]),
                  st.sampled_from(["-1", "w", "w+k", "-k", "huge", "-huge"]), sel),
        st.tuples(st.just("bad_step"), sel, sel, st.sampled_from([2, -1, 0, 3])),
        st.tuples(st.just("bad_key"), sel, st.integers(0, len(BAD_KEYS) - 1), st.booleans()),
        st.tuples(st.just("bit_no_truth"), sel, sel, st.booleans()),
        st.tuples(st.just("alike_key"), sel, sel, sel, st.sampled_from(["float", "fraction", "decimal", "complex"]),
                  st.sampled_from(["hi", "lo", "both", "bit"]), st.booleans()),
        st.tuples(st.just("bad_value"), sel, sel, sel, st.sampled_from(["over", "neg", "type"]),
                  st.integers(0, len(BAD_VALUES) - 1)),
        st.tuples(st.just("bad_new"), st.sampled_from(["bits0", "bits-1", "bitsfloat", "bitsstr", "bitsnone",
                                                       "dataneg", "dataover", "bytesover", "frame-over", "frame-fit",
                                                       "data-none", "data-float0", "data-float", "data-str0", "data-str",
                                                       "data-complex0", "data-decimal0", "data-fraction0", "data-object"]), width,
                  st.sampled_from(["Frame", "ForwardFrame"])),
        st.tuples(st.just("bad_newback"), st.sampled_from(["neg1", "neg", "over", "over2", "bytes2", "bytes0", "float",
                                                           "str", "none"]), sel, st.booleans()),
        st.tuples(st.just("bad_add"), sel, st.integers(0, len(NON_FRAMES) - 1)),
        st.tuples(st.just("assign"), sel, st.sampled_from(["neg1", "neg", "over", "over2", "type", "legal"]), sel),
        st.tuples(st.just("clone"), sel, st.sampled_from(["copy", "deepcopy", "pickle", "rebuild"])),
        st.tuples(st.just("observe"), sel),
    )
    return st.lists(op, min_size=1, max_size=40)


def _val(v, span, sel=0):
    if v == "max":
        return (1 << span) - 1
    if v == "top":
        return 1 << (span - 1)
    return v % (1 << span)


_LAST = {"flags": (False, False)}


def _interp(ops):
    frame = _frame_mod()
    out = []
    pool = []       # (frame, model, is_concat)
    after_concat = False
    top_write = False
    touched = []

    def pick(sel):
        return pool[sel % len(pool)]

    for step, op in enumerate(ops):
        op = list(op)
        kind = op[0]
        where = "step %d %r" % (step, op)
        if not pool and kind not in ("new", "newbytes", "bad_new", "newback", "bad_newback"):
            kind, op = "new", ["new", 8, 0xA5]
        try:
            if kind in ("new", "newbytes"):
                w = op[1]
                n = _val(op[2], w)
                cls = frame.Frame if step % 3 else frame.ForwardFrame
                if kind == "new":
                    f = cls(w, n)
                else:
                    # any spelling of the value as a big-endian byte sequence: minimal length, the packed length,
                    # extra leading zero bytes; as bytes / bytearray / list / tuple / one-shot iterator / generator
                    nb = (w + 7) // 8
                    need = max((n.bit_length() + 7) // 8, 0)
                    ln = [nb, need, nb + 1, nb + 3, max(need, nb - 1)][(step + n) % 5]
                    data = [(n >> (8 * (ln - 1 - k))) & 0xFF for k in range(ln)]
                    form = (step * 7 + w) % 6
                    given = [bytes(data), bytearray(data), list(data), tuple(data), iter(list(data)), (x for x in list(data))][form]
                    f = cls(w, given)
                    touched.append(0)
                    out_len = len(f.pack)
                    if out_len != nb:
                        out.append(("C05:pack", "%s: built from %d data bytes (form %d): pack has %d bytes, expected %d"
                                    % (where, ln, form, out_len, nb)))
                m = M.from_int(w, n)
                pool.append((f, m, False))
                quick_agree(f, m, out, where)
            elif kind == "setbit":
                f, m, cc = pick(op[1])
                i = op[2] % m.w
                if op[2] % 5 == 0:
                    i = m.w - 1
                f[i] = op[3]
                m.bits[i] = bool(op[3])
                after_concat |= cc
                top_write |= i == m.w - 1
                touched.append(i)
                quick_agree(f, m, out, where)
            elif kind in ("setslice", "setslice_top"):
                f, m, cc = pick(op[1])
                if kind == "setslice":
                    a, b, v = op[2] % m.w, op[3] % m.w, op[4]
                else:
                    a, b, v = m.w - 1, op[2] % m.w, op[3]
                    if op[2] % 2:
                        a, b = b, a
                v = _val(v, abs(a - b) + 1)
                f[a:b] = v
                m.set_slice(a, b, v)
                after_concat |= cc
                top_write |= max(a, b) == m.w - 1
                touched += [a, b]
                quick_agree(f, m, out, where)
                got = f[b:a]
                if got != v:
                    out.append(("C05:slice-readback", "%s: wrote %#x read %#x" % (where, v, got)))
            elif kind == "add":
                f1, m1, _ = pick(op[1])
                f2, m2, _ = pick(op[2])
                if m1.w + m2.w <= 512:
                    g = f1 + f2
                    mg = M(m2.bits + m1.bits)   # f1 is the most significant part
                    if not isinstance(g, frame.Frame):
                        out.append(("C05:add-type", "%s: result %r" % (where, type(g))))
                    else:
                        pool.append((g, mg, True))
                        quick_agree(g, mg, out, where)
                        quick_agree(f1, m1, out, where + " (left operand)")
                        quick_agree(f2, m2, out, where + " (right operand)")
            elif kind == "iadd":
                # "g = f1; g += f2": g is the concatenation, and the object f1 still names is unchanged
                f1, m1, _ = pick(op[1])
                f2, m2, _ = pick(op[2])
                if m1.w + m2.w <= 512:
                    g = f1
                    g += f2
                    mg = M(m2.bits + m1.bits)
                    if not isinstance(g, frame.Frame):
                        out.append(("C05:add-type", "%s: result %r" % (where, type(g))))
                    else:
                        quick_agree(g, mg, out, where + " (result of +=)")
                        quick_agree(f1, m1, out, where + " (object on the left of +=, still referenced elsewhere)")
                        if f2 is not f1:
                            quick_agree(f2, m2, out, where + " (right operand)")
                        if g is not f1:
                            pool.append((g, mg, True))
            elif kind == "newback":
                n = _val(op[3], 8)
                cls = frame.BackwardFrameError if op[2] else frame.BackwardFrame
                data = n if op[1] == "int" else bytes([n]) if op[1] == "bytes" else [n]
                f = cls(data)
                m = M.from_int(8, n)
                pool.append((f, m, False))
                quick_agree(f, m, out, where)
                if f.error != bool(op[2]):
                    out.append(("C05:backward-frame-error-flag", "%s: error=%r" % (where, f.error)))
            elif kind == "bad_newback":
                k = 1 + op[2] % 300
                data = {"neg1": -1, "neg": -k, "over": 256, "over2": 256 + k, "bytes2": bytes([1 + k % 255, 1]),
                        "bytes0": b"", "float": 1.5, "str": "1", "none": None}[op[1]]
                cls = frame.BackwardFrameError if op[3] else frame.BackwardFrame
                if op[1] == "bytes0":
                    pass        # an empty sequence as "no data": not stated either way
                else:
                    expect_raise(lambda: cls(data), FAMILY, None, None, out, where, "constructor-backward-" + op[1])
            elif kind == "bad_index":
                f, m, _ = pick(op[1])
                w = m.w
                k = 1 + op[4] % 40
                # "huge": indices far beyond anything a frame can have (sys.maxsize, 2**64, ...) are out of range too
                huge = [2 ** 63 - 1, 2 ** 63, 2 ** 64, 2 ** 100, 10 ** 30][k % 5]
                bad = {"-1": -1, "w": w, "w+k": w + k, "-k": -k, "huge": huge, "-huge": -huge}[op[3]]
                good = op[4] % w
                strict = (IndexError,)
                loose = FAMILY if bad < 0 else (IndexError,)
                if op[2] == "getbit":
                    expect_raise(lambda: f[bad], strict, f, m, out, where, "bit-index")
                elif op[2] == "setbit":
                    def fn():
                        f[bad] = True
                    expect_raise(fn, strict, f, m, out, where, "bit-index")
                elif op[2] == "getslice":
                    expect_raise(lambda: f[bad:good], loose, f, m, out, where, "slice-index")
                    expect_raise(lambda: f[good:bad], loose, f, m, out, where, "slice-index")
                else:
                    def fn1():
                        f[bad:good] = 0
                    def fn2():
                        f[good:bad] = 0
                    expect_raise(fn1, loose, f, m, out, where, "slice-index")
                    expect_raise(fn2, loose, f, m, out, where, "slice-index")
            elif kind == "bad_step":
                f, m, _ = pick(op[1])
                a = op[2] % m.w
                expect_raise(lambda: f[a:0:op[3]], FAMILY, f, m, out, where, "stepped-slice")
                def fn():
                    f[a:0:op[3]] = 0
                expect_raise(fn, FAMILY, f, m, out, where, "stepped-slice")
            elif kind == "bad_key":
                f, m, _ = pick(op[1])
                key = BAD_KEYS[op[2]]
                if op[3]:
                    expect_raise(lambda: f[key], FAMILY, f, m, out, where, "key-type")
                    expect_raise(lambda: f[key:0], FAMILY, f, m, out, where, "key-type")
                    expect_raise(lambda: f[:0], FAMILY, f, m, out, where, "key-type")
                else:
                    def fn():
                        f[key] = 1
                    def fn2():
                        f[0:key] = 0
                    expect_raise(fn, FAMILY, f, m, out, where, "key-type")
                    expect_raise(fn2, FAMILY, f, m, out, where, "key-type")
            elif kind == "alike_key":
                # indices that compare and hash equal to integers just used legally on a frame of this width
                import decimal
                import fractions
                f, m, _ = pick(op[1])
                a, b = op[2] % m.w, op[3] % m.w
                conv = {"float": float, "fraction": fractions.Fraction, "decimal": decimal.Decimal, "complex": complex}[op[4]]
                _ = f[a:b]
                f[a:b] = f[a:b]
                _ = f[a]
                ka = conv(a) if op[5] in ("hi", "both", "bit") else a
                kb = conv(b) if op[5] in ("lo", "both") else b
                if op[5] == "bit":
                    if op[6]:
                        expect_raise(lambda: f[ka], FAMILY, f, m, out, where, "look-alike-index")
                    else:
                        def fnb():
                            f[ka] = True
                        expect_raise(fnb, FAMILY, f, m, out, where, "look-alike-index")
                elif op[6]:
                    expect_raise(lambda: f[ka:kb], FAMILY, f, m, out, where, "look-alike-index")
                else:
                    def fns():
                        f[ka:kb] = 0
                    expect_raise(fns, FAMILY, f, m, out, where, "look-alike-index")
            elif kind == "bit_no_truth":
                # a single-bit write whose value has no truth value: it raises, and the frame is what it was
                f, m, _ = pick(op[1])
                i = op[2] % m.w
                obj = _NoTruth() if op[3] else _NoLen()
                def fnt():
                    f[i] = obj
                try:
                    fnt()
                    out.append(("C05:accepted:bit-value-without-truth", "%s: returned instead of raising" % where))
                except Exception:  # noqa - whatever the value raised comes out
                    pass
                quick_agree(f, m, out, where + " (after the failed bit write)")
                if f[i] is not m.bits[i]:
                    out.append(("C05:failed-write-changed-frame", "%s: bit %d is %r, model %r" % (where, i, f[i], m.bits[i])))
            elif kind == "bad_value":
                f, m, _ = pick(op[1])
                a, b = op[2] % m.w, op[3] % m.w
                span = abs(a - b) + 1
                if op[4] == "over":
                    v = (1 << span) + (op[2] % 3) * (1 << span)
                elif op[4] == "neg":
                    v = -1 - (op[3] % 3)
                else:
                    v = BAD_VALUES[op[5]]
                def fn():
                    f[a:b] = v
                expect_raise(fn, FAMILY, f, m, out, where, "slice-value-" + op[4])
            elif kind == "bad_new":
                w = op[2]
                what = op[1]
                if what in ("frame-over", "frame-fit"):
                    # initial data that is itself a frame: refused, or taken for its value - never a value out of range
                    src = frame.Frame(w + 8, ((1 << (w + 8)) - 1) if what == "frame-over" else 1)
                    cls = getattr(frame, op[3]) if len(op) > 3 else frame.Frame
                    try:
                        g = cls(w, src)
                    except Exception:  # noqa - refused
                        g = None
                    if g is not None:
                        n_g = g.as_integer
                        if what == "frame-over" or len(g) != w or not 0 <= n_g < (1 << w):
                            out.append(("C05:accepted:constructor-" + what, "%s: %s(%d, Frame(%d, %#x)) was accepted: width %d value %#x"
                                        % (where, cls.__name__, w, w + 8, src.as_integer, len(g), n_g)))
                    continue
                if what.startswith("data-"):
                    # initial data that is neither an integer nor a byte sequence - also when it is falsy
                    import decimal
                    import fractions
                    bad = {"data-none": None, "data-float0": 0.0, "data-float": 1.5, "data-str0": "", "data-str": "1",
                           "data-complex0": 0j, "data-decimal0": decimal.Decimal(0), "data-fraction0": fractions.Fraction(0),
                           "data-object": object()}[what]
                    cls = getattr(frame, op[3]) if len(op) > 3 else frame.Frame
                    expect_raise(lambda: cls(w, bad), FAMILY, None, None, out, where, "constructor-" + what)
                    expect_raise(lambda: frame.BackwardFrame(bad), FAMILY, None, None, out, where, "constructor-backward-" + what)
                    continue
                args = {
                    "bits0": (0, 0), "bits-1": (-1, 0), "bitsfloat": (float(w), 0), "bitsstr": (str(w), 0),
                    "bitsnone": (None, 0), "dataneg": (w, -1), "dataover": (w, 1 << w),
                    "bytesover": (w, bytes([0xFF] * ((w + 7) // 8 + 1))),
                }[what]
                cls = getattr(frame, op[3]) if len(op) > 3 else frame.Frame
                expect_raise(lambda: cls(*args), FAMILY, None, None, out, where, "constructor-" + what)
            elif kind == "bad_add":
                f, m, _ = pick(op[1])
                other = NON_FRAMES[op[2]]
                expect_raise(lambda: f + other, FAMILY, f, m, out, where, "add-non-frame")
                expect_raise(lambda: other + f, FAMILY, f, m, out, where, "non-frame-plus-frame")
                if op[2] % 3 == 0:
                    # sum() starts from the int 0: joining frames that way is a concatenation with a non-frame
                    expect_raise(lambda: sum([f]), FAMILY, f, m, out, where, "sum-of-frames")
                    expect_raise(lambda: sum([f, f]), FAMILY, f, m, out, where, "sum-of-frames")
            elif kind == "assign":
                # assignment to the frame's public views (as_integer, as_byte_sequence, pack, ...): where a view can
                # be assigned at all, a negative, oversized or non-integer value is refused and the frame unchanged;
                # whatever is accepted leaves a frame of the same width whose views are still one number in range
                f, m, _ = pick(op[1])
                w = m.w
                k = 1 + op[3] % 300
                v = {"neg1": -1, "neg": -k, "over": 1 << w, "over2": (1 << w) + k, "type": BAD_VALUES[k % len(BAD_VALUES)],
                     "legal": k % (1 << w)}[op[2]]
                views = [a for a in dir(type(f)) if not a.startswith("_")
                         and hasattr(getattr(type(f), a, None), "__set__")]
                for a in views:
                    given = v
                    if a != "as_integer" and isinstance(v, int) and 0 <= v < (1 << w):
                        given = v.to_bytes((w + 7) // 8, "big")
                    try:
                        setattr(f, a, given)
                    except Exception:  # noqa - the view is read-only, or the value was refused
                        quick_agree(f, m, out, where + " (after refused assignment to .%s)" % a)
                        continue
                    if op[2] != "legal":
                        out.append(("C05:accepted:assignment-" + op[2], "%s: .%s = %r was accepted" % (where, a, given)))
                        break
                    n = f.as_integer
                    if len(f) != w or not isinstance(n, int) or not 0 <= n < (1 << w):
                        out.append(("C05:value-left-range", "%s: after .%s = %r the frame has width %r value %r"
                                    % (where, a, given, len(f), n)))
                        break
                    m.bits[:] = M.from_int(w, n).bits
                    quick_agree(f, m, out, where + " (after accepted assignment to .%s)" % a)
            elif kind == "clone":
                # a copy of a frame (copy / deepcopy / pickle round trip / rebuilt from its own views) is an equal frame
                # of the same class and from then on a frame of its own: later writes to either leave the other alone
                import copy
                import pickle
                f, m, cc = pick(op[1])
                how = op[2]
                if how == "copy":
                    g = copy.copy(f)
                elif how == "deepcopy":
                    g = copy.deepcopy(f)
                elif how == "pickle":
                    g = pickle.loads(pickle.dumps(f, protocol=step % (pickle.HIGHEST_PROTOCOL + 1)))
                else:
                    g = type(f)(f.as_integer) if isinstance(f, frame.BackwardFrame) else type(f)(len(f), f.as_byte_sequence)
                if type(g) is not type(f) or not (g == f) or (g != f) or g is f:
                    out.append(("C05:clone-differs", "%s: %s of a %s(%d, %#x) gives %r" % (where, how, type(f).__name__, m.w, m.n, g)))
                else:
                    mg = M(list(m.bits))
                    pool.append((g, mg, cc))
                    quick_agree(g, mg, out, where + " (the clone)")
                    # one write to the clone, read both
                    i = (step * 5) % m.w
                    g[i] = not mg.bits[i]
                    mg.bits[i] = not mg.bits[i]
                    quick_agree(g, mg, out, where + " (the clone after a write to it)")
                    quick_agree(f, m, out, where + " (the original after a write to its clone)")
            elif kind == "observe":
                f, m, _ = pick(op[1])
                deep_agree(f, m, out, where, touched[-4:])
        except Exception as e:  # noqa
            out.append(("C05:legal-operation-raised:%s:%s" % (kind, type(e).__name__), "%s: %r" % (where, e)))
        if out:
            break
    _LAST["flags"] = (after_concat, top_write)
    if out:
        return out
    for k, (f, m, _) in enumerate(pool):
        deep_agree(f, m, out, "final view of frame %d (w=%d)" % (k, m.w), touched[-4:])
        if out:
            break
    return out


def run_case(case):
    if isinstance(case, dict) and case.get("kind") == "exh":
        return exhaustive_case(case)
    if isinstance(case, dict) and case.get("kind") == "exh-view":
        out = []
        frame = _frame_mod()
        deep_agree(frame.Frame(case["w"], case["init"]), M.from_int(case["w"], case["init"]), out, "fresh")
        return out
    ops = case["ops"] if isinstance(case, dict) else case
    return _interp(ops)


def _hist_shard(arg):
    seed, n, shrink = arg
    res = Result()

    def nontrivial(ops):
        a, b = _LAST["flags"]
        return a or b

    def classify(ops):
        a, b = _LAST["flags"]
        labs = ["hist-op:" + op[0] for op in ops]
        if a:
            labs.append("history:write-after-concat")
        if b:
            labs.append("history:write-touching-top-bit")
        return labs

    hyp.search(ops_strategy(), lambda ops: _interp(ops), res, n, seed, ID,
               nontrivial=nontrivial, classify=classify, shrink=shrink,
               to_json=lambda ops: {"kind": "history", "ops": [list(o) for o in ops]})
    return res


def run(ctx):
    maxw = 7 if ctx.quick else 8
    shards = []
    for w in range(1, maxw + 1):
        total = 1 << w
        step = max(1, total // (16 if w >= 7 else 4 if w >= 5 else 1))
        for lo in range(0, total, step):
            shards.append((w, lo, min(total, lo + step)))
    ctx.pmap(_exh_shard, shards)
    n = 16000 if ctx.quick else 200000
    per = max(1, n // 16)
    ctx.pmap(_hist_shard, [(ctx.seed * 1000 + k, per, True) for k in range(16)])
    ctx.result.exhaustive = False  # the history part is a sample; see extra for the exhaustive part
    ctx.result.extra["exhaustive_widths"] = "1..%d (every initial value x (hi,lo) in -1..w x value -1..2^w)" % maxw
    ctx.result.extra["history_examples_per_shard"] = per
