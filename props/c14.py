"""C14 - colour (DT8) sequences carry 16-bit values byte-exactly and in order.

The library sequences SetDT8ColourValueTc / SetDT8TcLimit / QueryDT8ColourValue are run through the
fake bus against the frame-level gear model's IEC 62386-209 Tc subset (harness/model_gear.py: raw
16-bit registers, DTR0 = LSB, DTR1 = MSB, DTR2 = limit selector, ENABLE DEVICE TYPE 8 gating,
send-twice rule for STORE ... LIMIT, QUERY COLOUR VALUE answers the MSB and leaves the LSB in DTR0).
"""
from harness.bus import Bus, Fault, NonTermination
from harness.model_gear import GearModel
from harness.runner import Result, library_frame

ID = "C14"
LEVEL = "exploration"
RULE = ("enumeration: (mirek value, destination kind) for set, (limit selector, value) for limits, (query selector, "
        "stored value) for queries, plus (selector, value, faulty step, fault kind) and illegal arguments; every "
        "enumerated tuple is distinct by construction; non-trivial = the two bytes of the value differ (byte order "
        "matters) or a fault/illegal argument is involved")
ASSUMPTIONS = [
    "a conforming DT8 unit takes DTR0 as the low byte and DTR1 as the high byte of a 16-bit value, answers QUERY COLOUR "
    "VALUE with the high byte and leaves the low byte in DTR0 (IEC 62386-209 9.x / command 250), acts on an "
    "application-extended command only directly after ENABLE DEVICE TYPE 8, and on STORE COLOUR TEMPERATURE Tc LIMIT "
    "only when it is sent twice",
    "the model keeps registers raw (no clamping to the Tc limits), so 'ends up with exactly the requested value' is a "
    "statement about bytes; for 65535 (MASK) only the DTR contents at the time of the command are judged",
    "limit selectors other than the four defined ones are not required to be rejected (the statement is silent)",
]

DESTS = ["short", "int", "group", "broadcast"]
SELECTORS = None


def _load():
    from dali.gear import sequences as gs
    from dali.gear import colour
    from dali import address
    return gs, colour, address


def dest(address, kind):
    return {"short": address.GearShort(9), "int": 9, "group": address.GearGroup(3),
            "broadcast": address.GearBroadcast()}[kind]


def unit():
    u = GearModel(short=9, groups={3}, device_types=[6, 8])
    u.dtr0, u.dtr1, u.dtr2 = 0xA5, 0x5A, 0x77       # stale contents
    return u


def bystander():
    return GearModel(short=10, groups={4}, device_types=[8])


def case_set(case):
    gs, colour, address = _load()
    v, kind = case["value"], case["dest"]
    u, b = unit(), bystander()
    bus = Bus([u, b] if kind in ("short", "int", "group") else [u], max_commands=20)
    where = "SetDT8ColourValueTc(%s, %d)" % (kind, v)
    try:
        bus.run(gs.SetDT8ColourValueTc(dest(address, kind), v))
    except Exception as e:  # noqa
        if library_frame(e.__traceback__) is None and not isinstance(e, NonTermination):
            raise
        return [("C14:set-raised:%s" % type(e).__name__, "%s raised %r" % (where, e))]
    out = []
    lo, hi = v & 0xFF, v >> 8
    sets = [x for x in u.log if x[0] == "set_temp_tc"]
    if sets != [("set_temp_tc", lo, hi)]:
        out.append(("C14:set-dtr-bytes", "%s: at SET TEMPORARY COLOUR TEMPERATURE the unit saw (DTR0, DTR1) = %r, expected (%d, %d)"
                    % (where, [x[1:] for x in sets], lo, hi)))
    if [x[0] for x in u.log] != ["set_temp_tc", "activate"]:
        out.append(("C14:set-not-activated", "%s: unit saw %r" % (where, [x[0] for x in u.log])))
    elif v != 0xFFFF and u.tc != v:
        out.append(("C14:set-final-value", "%s: unit ends with Tc = %d" % (where, u.tc)))
    if kind in ("short", "int", "group") and b.log:
        out.append(("C14:set-hit-bystander", "%s: another unit saw %r" % (where, b.log)))
    return out


def case_limit(case):
    gs, colour, address = _load()
    v, sel, kind = case["value"], case["selector"], case["dest"]
    u = unit()
    bus = Bus([u], max_commands=20)
    where = "SetDT8TcLimit(%s, %d, %d)" % (kind, sel, v)
    try:
        limit_enum = colour.StoreColourTemperatureTcLimitDTR2
        bus.run(gs.SetDT8TcLimit(dest(address, kind), limit_enum(sel) if case.get("as_enum") else sel, v))
    except Exception as e:  # noqa
        if library_frame(e.__traceback__) is None and not isinstance(e, NonTermination):
            raise
        return [("C14:limit-raised:%s" % type(e).__name__, "%s raised %r" % (where, e))]
    out = []
    st = [x for x in u.log if x[0] == "store_limit"]
    if st != [("store_limit", v & 0xFF, v >> 8, sel)]:
        out.append(("C14:limit-dtr-bytes", "%s: at STORE COLOUR TEMPERATURE Tc LIMIT the unit saw (DTR0, DTR1, DTR2) = %r, "
                    "expected (%d, %d, %d)" % (where, [x[1:] for x in st], v & 0xFF, v >> 8, sel)))
    elif u.tc_limits[sel] != v:
        out.append(("C14:limit-final-value", "%s: limit %d is %d" % (where, sel, u.tc_limits[sel])))
    if any(u.tc_limits[k] != 0xFFFF for k in range(4) if k != sel):
        out.append(("C14:limit-wrong-register", "%s: limits now %r" % (where, u.tc_limits)))
    return out


def selectors():
    global SELECTORS
    if SELECTORS is None:
        gs, colour, address = _load()
        SELECTORS = [int(m.value) for m in colour.QueryColourValueDTR]
    return SELECTORS


def case_query(case):
    gs, colour, address = _load()
    sel, v = case["selector"], case["value"]
    u = unit()
    # the sequence starts with QUERY ACTUAL LEVEL (209 requires it to refresh the report values); whatever level the
    # unit reports - including 0 (off) and 255 (MASK: lamp failure / level unknown) - the colour registers are readable
    u.level = case.get("level", [0, 1, 170, 254, 255][(v + sel) % 5])
    u.colour_values = {sel: v}
    # neighbours hold different values so that a wrong selector is visible
    for other in selectors():
        if other != sel:
            u.colour_values[other] = (v ^ 0x5A5A) & 0xFEFF
    faults = []
    if case.get("fault"):
        faults = [Fault(case["fault"][0], case["fault"][1], case["fault"][2] if len(case["fault"]) > 2 else None)]
    bus = Bus([u, bystander()], faults=faults, max_commands=20)
    where = "QueryDT8ColourValue(selector %d) on a unit holding %#06x%s" % (sel, v, (" with fault %r" % (case["fault"],)) if case.get("fault") else "")
    try:
        r = bus.run(gs.QueryDT8ColourValue(9 if case.get("int_addr") else address.GearShort(9), colour.QueryColourValueDTR(sel)))
    except Exception as e:  # noqa
        if library_frame(e.__traceback__) is None and not isinstance(e, NonTermination):
            raise
        return [("C14:query-raised:%s" % type(e).__name__, "%s raised %r" % (where, e))]
    f = case.get("fault")
    if f and f[0] in (2, 3):
        exp = None           # one of the two answer bytes missing or garbled
    elif (v >> 8) == 0xFF:
        exp = None           # MASK
    else:
        exp = v
    if r != exp or (r is not None and not isinstance(r, int)):
        sig = "C14:query-value" if not f else "C14:query-fault-not-none"
        if exp is None and not f:
            sig = "C14:query-mask-not-none"
        return [(sig, "%s returned %r, expected %r" % (where, r, exp))]
    return []


ILLEGAL_TC = [65536, -1, 2 ** 32, 1.5, None, "153"]


def case_illegal(case):
    gs, colour, address = _load()
    what = case["what"]
    u = unit()
    bus = Bus([u], max_commands=20)
    try:
        if what == "set":
            seq = gs.SetDT8ColourValueTc(address.GearShort(9), ILLEGAL_TC[case["i"]])
        elif what == "limit":
            seq = gs.SetDT8TcLimit(address.GearShort(9), 0, ILLEGAL_TC[case["i"]])
        else:
            bad = [2, "ColourTemperatureTC", None, 2.0, 999, colour.StoreColourTemperatureTcLimitDTR2(1)][case["i"]]
            seq = gs.QueryDT8ColourValue(address.GearShort(9), bad)
        bus.run(seq)
    except Exception as e:  # noqa
        if library_frame(e.__traceback__) is None and not isinstance(e, NonTermination):
            raise
        if bus.n:
            return [("C14:illegal-rejected-late:" + what, "%s illegal argument #%d: %d command(s) were sent before %r"
                     % (what, case["i"], bus.n, e))]
        return []
    return [("C14:illegal-accepted:" + what, "%s illegal argument #%d was accepted; %d commands sent" % (what, case["i"], bus.n))]


def run_case(case):
    return {"set": case_set, "limit": case_limit, "query": case_query, "illegal": case_illegal}[case["kind"]](case)


def _shard(arg):
    kind = arg[0]
    res = Result()

    def go(case, nt):
        res.count()
        if nt:
            res.nontrivial()
        for sig, msg in run_case(case):
            res.violation(sig, case, msg)

    if kind == "set":
        _, d, lo, hi, stride = arg
        for v in range(lo, hi, stride):
            go({"kind": "set", "value": v, "dest": d}, (v & 0xFF) != (v >> 8))
        res.label("set:" + d, len(range(lo, hi, stride)))
        res.sample({"kind": "set", "value": lo + 258, "dest": d}, cls="set Tc")
    elif kind == "limit":
        _, sel, lo, hi, stride = arg
        for v in range(lo, hi, stride):
            go({"kind": "limit", "value": v, "selector": sel, "dest": DESTS[v % 4], "as_enum": bool(v & 1)}, (v & 0xFF) != (v >> 8))
        res.label("limit:%d" % sel, len(range(lo, hi, stride)))
        res.sample({"kind": "limit", "value": lo + 513, "selector": sel, "dest": "short"}, cls="store limit")
    elif kind == "query":
        _, sels, start, stride = arg
        for sel in sels:
            for v in range(start, 65536, stride):
                go({"kind": "query", "selector": sel, "value": v, "int_addr": bool(v & 1)}, (v & 0xFF) != (v >> 8))
            for v in (0x0000, 0x00FF, 0x0100, 0x1234, 0xFE01, 0xFEFF, 0xFF00, 0xFFFF):
                go({"kind": "query", "selector": sel, "value": v}, True)
                for step in (0, 1, 2, 3):
                    for fk in (["silence"], ["garble", 0x12], ["garble", None]):
                        go({"kind": "query", "selector": sel, "value": v, "fault": [step] + fk}, True)
                        res.label("query-fault:step%d" % step)
        res.label("query", 1)
        res.sample({"kind": "query", "selector": sels[0], "value": 0x1234, "fault": [2, "garble", 0x12]}, cls="query")
    elif kind == "illegal":
        for what, n in (("set", len(ILLEGAL_TC)), ("limit", len(ILLEGAL_TC)), ("query", 6)):
            for i in range(n):
                go({"kind": "illegal", "what": what, "i": i}, True)
                res.label("illegal:" + what)
        res.sample({"kind": "illegal", "what": "set", "i": 0}, cls="illegal")
    return res


def run(ctx):
    q, s = ctx.quick, ctx.seed
    shards = [("illegal",)]
    st_ = 1
    for d in DESTS:
        for k in range(4):
            lo = k << 14
            shards.append(("set", d, lo + s % st_, lo + (1 << 14), st_))
    for sel in range(4):
        for k in range(2):
            lo = k << 15
            shards.append(("limit", sel, lo + s % st_, lo + (1 << 15), st_))
    sels = selectors()
    qs = 61 if q else 1          # 257 is coprime to 256: every low byte and every high byte is visited
    if not q:
        qs = 1
    for k in range(0, len(sels), 2 if q else 1):
        shards.append(("query", sels[k:k + (2 if q else 1)], s % qs, qs))
    ctx.pmap(_shard, shards)
    ctx.result.exhaustive = not q
    ctx.result.extra["query_selectors"] = len(sels)
    ctx.result.extra["strides"] = {"set_and_limit": st_, "query_values": qs}
