"""C14 - colour (DT8) sequences carry 16-bit values byte-exactly and in order.

The library sequences SetDT8ColourValueTc / SetDT8TcLimit / QueryDT8ColourValue are run through the
fake bus against the frame-level gear model's IEC 62386-209 Tc subset (harness/model_gear.py: raw
16-bit registers, DTR0 = LSB, DTR1 = MSB, DTR2 = limit selector, ENABLE DEVICE TYPE 8 gating,
send-twice rule for STORE ... LIMIT, QUERY COLOUR VALUE answers the MSB and leaves the LSB in DTR0).

Histories of calls in one process: the sequences are also run one after the other, each against units and a bus of its
own (or against the unit of the previous call after someone else changed it), where later calls carry arguments EQUAL to
those of earlier ones - the same call repeated, and "look-alikes" of a legal argument just used (float / Fraction /
Decimal / complex / bool / int subclass / __index__ object / foreign enum member that compares and hashes equal to the
int or selector).  Every call of a history is judged by the oracle of the single call: what an earlier call was given
or did must not change what a later one does.
"""
from harness.bus import Bus, Fault, NonTermination, run_interleaved
from harness.model_gear import GearModel
from harness.runner import Result, library_frame

ID = "C14"
LEVEL = "exploration"
RULE = ("enumeration: (mirek value, destination kind) for set, (limit selector, value) for limits, (query selector, "
        "stored value) for queries, plus (selector, value, faulty step, fault kind) and illegal arguments; every "
        "enumerated tuple is distinct by construction; non-trivial = the two bytes of the value differ (byte order "
        "matters) or a fault/illegal argument is involved; several sequences in flight: (2 or 3 sequences with their "
        "arguments, advance order) - for pairs every order of the first eight advances x a list of value pairs differing "
        "in the high byte / the low byte / both, for triples a list of orders, plus Hypothesis-generated tuples; "
        "non-trivial = the sequences overlap in time and do not all carry the same value ('exhaustive' in the evidence "
        "refers to the single-sequence enumeration only); histories: (2..6 calls run one after the other in one process, "
        "each with its own fresh unit and bus or with the previous call's unit after another controller / a power cycle "
        "changed it): a listed set of values x every argument of the three sequences x every look-alike form, placed "
        "before, between and after legal calls with equal arguments in two spellings; every sequence repeated with equal "
        "arguments 2-3 times with and without other calls in between; plus Hypothesis-generated histories over a small "
        "pool of values; non-trivial = at least two calls of the history carry equal-comparing arguments")
ASSUMPTIONS = [
    "a conforming DT8 unit takes DTR0 as the low byte and DTR1 as the high byte of a 16-bit value, answers QUERY COLOUR "
    "VALUE with the high byte and leaves the low byte in DTR0 (IEC 62386-209 9.x / command 250), acts on an "
    "application-extended command only directly after ENABLE DEVICE TYPE 8, and on STORE COLOUR TEMPERATURE Tc LIMIT "
    "only when it is sent twice",
    "the model keeps registers raw (no clamping to the Tc limits), so 'ends up with exactly the requested value' is a "
    "statement about bytes; for 65535 (MASK) only the DTR contents at the time of the command are judged",
    "limit selectors other than the four defined ones are not required to be rejected (the statement is silent)",
    "sequences in flight at the same time on separate buses (one driver per DALI line in one process) are independent: "
    "each must do to its unit, and return, exactly what it does when it runs alone",
    "calls made one after the other in one process are independent: each is judged by the statement on its own unit, "
    "whatever earlier calls were given (the statement quantifies over every value and selector, not over first uses)",
    "a colour temperature that is not an int (float, Fraction, Decimal, complex, an object with __index__) is a "
    "wrong-type argument even when it compares equal to a 16-bit int: rejected before anything is sent; an instance of "
    "an int subclass (bool included) may be rejected before anything is sent or be treated exactly as that int",
    "a query selector that is not a member of the query-code enumeration (a plain int, float, Fraction, Decimal, bool, "
    "int subclass, member of another enumeration with the same value) is 'not a query code': rejected before anything "
    "is sent",
    "look-alikes of the limit selector and of an int destination: the statement is silent; they may be rejected at any "
    "point, provided the unit has acted on no colour command, or be treated exactly as the equal int",
]

DESTS = ["short", "int", "group", "broadcast"]
SELECTORS = None


def _load():
    from dali.gear import sequences as gs
    from dali.gear import colour
    from dali import address
    return gs, colour, address


def dest(address, kind):
    return {"short": address.GearShort(9), "int": 9, "group": address.GearGroup(3),
            "broadcast": address.GearBroadcast()}[kind]


def unit():
    u = GearModel(short=9, groups={3}, device_types=[6, 8])
    u.dtr0, u.dtr1, u.dtr2 = 0xA5, 0x5A, 0x77       # stale contents
    return u


def bystander():
    return GearModel(short=10, groups={4}, device_types=[8])


class Job:
    """One colour sequence prepared against its own units and bus; judged once its outcome is known."""

    def __init__(self, kind, case, u, b, bus, seq, where):
        self.kind, self.case, self.u, self.b, self.bus, self.seq, self.where = kind, case, u, b, bus, seq, where


def run_alone(job):
    """-> ("returned", value) | ("raised", exception)"""
    try:
        return ("returned", job.bus.run(job.seq()))
    except Exception as e:  # noqa: classified by the judge
        return ("raised", e)


def _raised(job, oc, what):
    """The violation for a sequence that must not raise, or None; harness errors propagate."""
    if oc[0] != "raised":
        return None
    e = oc[1]
    if library_frame(e.__traceback__) is None and not isinstance(e, NonTermination):
        raise e
    return [("C14:%s-raised:%s" % (what, type(e).__name__), "%s raised %r" % (job.where, e))]


def prep_set(case, reuse=None):
    gs, colour, address = _load()
    v, kind = case["value"], case["dest"]
    u, b = reuse if reuse is not None else (unit(), bystander())
    bus = Bus([u, b] if kind in ("short", "int", "group") else [u], max_commands=20)
    where = "SetDT8ColourValueTc(%s, %d)" % (kind, v)
    return Job("set", case, u, b, bus, lambda: gs.SetDT8ColourValueTc(dest(address, kind), v), where)


def judge_set(job, oc):
    case, u, b, where = job.case, job.u, job.b, job.where
    v, kind = case["value"], case["dest"]
    bad = _raised(job, oc, "set")
    if bad:
        return bad
    out = []
    lo, hi = v & 0xFF, v >> 8
    sets = [x for x in u.log if x[0] == "set_temp_tc"]
    if sets != [("set_temp_tc", lo, hi)]:
        out.append(("C14:set-dtr-bytes", "%s: at SET TEMPORARY COLOUR TEMPERATURE the unit saw (DTR0, DTR1) = %r, expected (%d, %d)"
                    % (where, [x[1:] for x in sets], lo, hi)))
    if [x[0] for x in u.log] != ["set_temp_tc", "activate"]:
        out.append(("C14:set-not-activated", "%s: unit saw %r" % (where, [x[0] for x in u.log])))
    elif v != 0xFFFF and u.tc != v:
        out.append(("C14:set-final-value", "%s: unit ends with Tc = %d" % (where, u.tc)))
    if kind in ("short", "int", "group") and b.log:
        out.append(("C14:set-hit-bystander", "%s: another unit saw %r" % (where, b.log)))
    return out


def prep_limit(case):
    gs, colour, address = _load()
    v, sel, kind = case["value"], case["selector"], case["dest"]
    u = unit()
    bus = Bus([u], max_commands=20)
    where = "SetDT8TcLimit(%s, %d, %d)" % (kind, sel, v)
    limit_enum = colour.StoreColourTemperatureTcLimitDTR2
    return Job("limit", case, u, None, bus,
               lambda: gs.SetDT8TcLimit(dest(address, kind), limit_enum(sel) if case.get("as_enum") else sel, v), where)


def judge_limit(job, oc):
    case, u, where = job.case, job.u, job.where
    v, sel = case["value"], case["selector"]
    bad = _raised(job, oc, "limit")
    if bad:
        return bad
    out = []
    st = [x for x in u.log if x[0] == "store_limit"]
    if st != [("store_limit", v & 0xFF, v >> 8, sel)]:
        out.append(("C14:limit-dtr-bytes", "%s: at STORE COLOUR TEMPERATURE Tc LIMIT the unit saw (DTR0, DTR1, DTR2) = %r, "
                    "expected (%d, %d, %d)" % (where, [x[1:] for x in st], v & 0xFF, v >> 8, sel)))
    elif u.tc_limits[sel] != v:
        out.append(("C14:limit-final-value", "%s: limit %d is %d" % (where, sel, u.tc_limits[sel])))
    if any(u.tc_limits[k] != 0xFFFF for k in range(4) if k != sel):
        out.append(("C14:limit-wrong-register", "%s: limits now %r" % (where, u.tc_limits)))
    return out


def selectors():
    global SELECTORS
    if SELECTORS is None:
        gs, colour, address = _load()
        SELECTORS = [int(m.value) for m in colour.QueryColourValueDTR]
    return SELECTORS


def prep_query(case):
    gs, colour, address = _load()
    sel, v = case["selector"], case["value"]
    u = unit()
    # the sequence starts with QUERY ACTUAL LEVEL (209 requires it to refresh the report values); whatever level the
    # unit reports - including 0 (off) and 255 (MASK: lamp failure / level unknown) - the colour registers are readable
    u.level = case.get("level", [0, 1, 170, 254, 255][(v + sel) % 5])
    u.colour_values = {sel: v}
    # neighbours hold different values so that a wrong selector is visible
    for other in selectors():
        if other != sel:
            u.colour_values[other] = (v ^ 0x5A5A) & 0xFEFF
    faults = []
    if case.get("fault"):
        faults = [Fault(case["fault"][0], case["fault"][1], case["fault"][2] if len(case["fault"]) > 2 else None)]
    b = bystander()
    bus = Bus([u, b], faults=faults, max_commands=20)
    where = "QueryDT8ColourValue(selector %d) on a unit holding %#06x%s" % (sel, v, (" with fault %r" % (case["fault"],)) if case.get("fault") else "")
    return Job("query", case, u, b, bus,
               lambda: gs.QueryDT8ColourValue(9 if case.get("int_addr") else address.GearShort(9), colour.QueryColourValueDTR(sel)),
               where)


def judge_query(job, oc):
    case, where = job.case, job.where
    sel, v = case["selector"], case["value"]
    bad = _raised(job, oc, "query")
    if bad:
        return bad
    r = oc[1]
    f = case.get("fault")
    if f and f[0] in (2, 3):
        exp = None           # one of the two answer bytes missing or garbled
    elif (v >> 8) == 0xFF:
        exp = None           # MASK
    else:
        exp = v
    if r != exp or (r is not None and not isinstance(r, int)):
        sig = "C14:query-value" if not f else "C14:query-fault-not-none"
        if exp is None and not f:
            sig = "C14:query-mask-not-none"
        return [(sig, "%s returned %r, expected %r" % (where, r, exp))]
    return []


ILLEGAL_TC = [65536, -1, 2 ** 32, 1.5, None, "153"]


def prep_illegal(case):
    gs, colour, address = _load()
    what = case["what"]
    u = unit()
    bus = Bus([u], max_commands=20)

    def seq():
        if what == "set":
            return gs.SetDT8ColourValueTc(address.GearShort(9), ILLEGAL_TC[case["i"]])
        if what == "limit":
            return gs.SetDT8TcLimit(address.GearShort(9), 0, ILLEGAL_TC[case["i"]])
        bad = [2, "ColourTemperatureTC", None, 2.0, 999, colour.StoreColourTemperatureTcLimitDTR2(1)][case["i"]]
        return gs.QueryDT8ColourValue(address.GearShort(9), bad)

    return Job("illegal", case, u, None, bus, seq, "%s with illegal argument #%d" % (what, case["i"]))


def judge_illegal(job, oc):
    case, bus = job.case, job.bus
    what = case["what"]
    if oc[0] == "raised":
        e = oc[1]
        if library_frame(e.__traceback__) is None and not isinstance(e, NonTermination):
            raise e
        if bus.n:
            return [("C14:illegal-rejected-late:" + what, "%s illegal argument #%d: %d command(s) were sent before %r"
                     % (what, case["i"], bus.n, e))]
        return []
    return [("C14:illegal-accepted:" + what, "%s illegal argument #%d was accepted; %d commands sent" % (what, case["i"], bus.n))]


# ------------------------------------------------------------------ look-alikes ----
# forms of a value that compare (and hash) equal to an int n without being that int
ALIKE_FORMS = ("float", "fraction", "decimal", "complex", "indexable", "intsub", "bool", "int", "other-enum")
INT_SUBCLASS_FORMS = ("intsub", "bool", "other-enum")      # isinstance(x, int) holds
_ALIKE_TYPES = {}


def _alike_types():
    if not _ALIKE_TYPES:
        class IntSub(int):
            pass

        class Indexable:
            """not a number, but usable as an index - equal to, and hashing like, the int it stands for"""
            def __init__(self, n):
                self.n = n

            def __index__(self):
                return self.n

            def __int__(self):
                return self.n

            def __eq__(self, other):
                return self.n == other

            def __hash__(self):
                return hash(self.n)

            def __repr__(self):
                return "Indexable(%d)" % self.n

        _ALIKE_TYPES["intsub"] = IntSub
        _ALIKE_TYPES["indexable"] = Indexable
        _ALIKE_TYPES["enums"] = {}
    return _ALIKE_TYPES


def forms_for(n, arg):
    """The look-alike forms that exist for the int n used as argument `arg` ('tc' | 'selector' | 'address' | 'query')."""
    out = []
    for f in ALIKE_FORMS:
        if f == "bool" and n not in (0, 1):
            continue
        if f == "int" and arg != "query":
            continue            # a plain int IS the legal form of every argument but the query selector
        out.append(f)
    return out


def look_alike(form, n):
    import decimal
    import enum
    import fractions
    t = _alike_types()
    if form == "float":
        return float(n)
    if form == "fraction":
        return fractions.Fraction(n)
    if form == "decimal":
        return decimal.Decimal(n)
    if form == "complex":
        return complex(n)
    if form == "bool":
        return bool(n)
    if form == "int":
        return int(n)
    if form == "intsub":
        return t["intsub"](n)
    if form == "indexable":
        return t["indexable"](n)
    if form == "other-enum":
        if n not in t["enums"]:
            t["enums"][n] = enum.IntEnum("NotAQueryCode", {"Member%d" % n: n})
        return list(t["enums"][n])[0]
    raise ValueError("look-alike form %r" % (form,))


def prep_alike(case):
    """A call in which ONE argument is replaced by a look-alike of its legal int value.
    case: what 'set'|'limit'|'query', arg 'tc'|'selector'|'address', form, value, selector, dest (int address form)"""
    gs, colour, address = _load()
    what, arg, form = case["what"], case["arg"], case["form"]
    v, sel = case["value"], case.get("selector", 0)
    u, b = unit(), bystander()
    if what == "query":
        u.level = 170
        u.colour_values = {s_: (v if s_ == sel else (v ^ 0x5A5A) & 0xFEFF) for s_ in selectors()}
    bus = Bus([u, b], max_commands=20)

    def seq():
        a = look_alike(form, 9) if arg == "address" else (address.GearShort(9) if case.get("dest") == "short" else 9)
        if what == "set":
            return gs.SetDT8ColourValueTc(a, look_alike(form, v) if arg == "tc" else v)
        if what == "limit":
            return gs.SetDT8TcLimit(a, look_alike(form, sel) if arg == "selector" else sel,
                                    look_alike(form, v) if arg == "tc" else v)
        return gs.QueryDT8ColourValue(a, look_alike(form, sel) if arg == "selector" else colour.QueryColourValueDTR(sel))

    where = "%s with its %s given as the %s look-alike of %d (other arguments: %s)" % (
        {"set": "SetDT8ColourValueTc", "limit": "SetDT8TcLimit", "query": "QueryDT8ColourValue"}[what],
        {"tc": "colour temperature", "selector": "selector", "address": "destination"}[arg], form,
        9 if arg == "address" else sel if arg == "selector" else v,
        ", ".join("%s %d" % (n, x) for n, x in (("destination", 9), ("selector", sel), ("value", v))
                  if not (n == "selector" and what == "set") and not (n == "value" and what == "query")))
    return Job("alike", case, u, b, bus, seq, where)


def alike_mode(case):
    """'reject' (must be rejected before anything is sent) | 'reject-or-int' (that, or exactly as the int) |
    'any-or-int' (rejected at any point with the unit untouched, or exactly as the int)"""
    what, arg, form = case["what"], case["arg"], case["form"]
    if arg == "tc":
        return "reject-or-int" if form in INT_SUBCLASS_FORMS else "reject"
    if arg == "selector" and what == "query":
        return "reject"
    return "any-or-int"


def judge_alike(job, oc):
    case, u, b, bus, where = job.case, job.u, job.b, job.bus, job.where
    what, mode = case["what"], alike_mode(case)
    name = "%s-%s" % (what, case["arg"])
    if oc[0] == "raised":
        e = oc[1]
        if library_frame(e.__traceback__) is None and not isinstance(e, NonTermination):
            raise e
        if isinstance(e, NonTermination):
            return [("C14:look-alike-nontermination:" + name, "%s: more than %d commands" % (where, bus.max_commands))]
        out = []
        if bus.n and mode != "any-or-int":
            out.append(("C14:look-alike-rejected-late:" + name, "%s: %d command(s) were sent before %r" % (where, bus.n, e)))
        if u.log or b.log or u.tc != 0xFFFF or any(x != 0xFFFF for x in u.tc_limits):
            out.append(("C14:look-alike-rejected-but-acted-on:" + name, "%s: raised %r, but the unit acted on %r (Tc %d, "
                        "limits %r), the other unit on %r" % (where, e, u.log, u.tc, u.tc_limits, b.log)))
        return out
    if mode == "reject":
        return [("C14:look-alike-accepted:" + name, "%s was accepted: %d command(s) sent, the unit acted on %r, returned %r"
                 % (where, bus.n, u.log, oc[1]))]
    # accepted: then it must be treated exactly as the int it equals
    sub = dict(case, dest="int")
    legal = Job(what, sub, u, b if what != "limit" else None, bus, job.seq, where)
    vs = JUDGE[what](legal, oc)
    if what == "limit" and b.log:
        vs = vs + [("C14:limit-hit-bystander", "%s: another unit saw %r" % (where, b.log))]
    return vs


PREP = {"set": prep_set, "limit": prep_limit, "query": prep_query, "illegal": prep_illegal, "alike": prep_alike}
JUDGE = {"set": judge_set, "limit": judge_limit, "query": judge_query, "illegal": judge_illegal, "alike": judge_alike}


def case_single(case):
    job = PREP[case["kind"]](case)
    return JUDGE[job.kind](job, run_alone(job))


# --------------------------------------------------- several sequences in flight ----
LAST_INTER = [None]     # (id(case), did the sequences really overlap in time) of the most recent interleaved case


def _end_state(job):
    """Everything the units hold when the sequence is over."""
    u, b = job.u, job.b
    return {"tc": u.tc, "temporary tc": u.temp_tc, "tc limits": list(u.tc_limits), "dtr0": u.dtr0, "dtr1": u.dtr1,
            "dtr2": u.dtr2, "level": u.level, "commands acted on": list(u.log),
            "bystander": None if b is None else (b.tc, list(b.tc_limits), list(b.log))}


def _result(oc):
    return (oc[0], type(oc[1]).__name__) if oc[0] == "raised" else (oc[0], type(oc[1]).__name__, oc[1])


def case_interleaved(case):
    """Several colour sequences in flight at once, each on its own bus against its own unit, advanced command by
    command in the order case['schedule'] (then case['cycle'] repeatedly): every unit must see and end with exactly what
    it sees and ends with when its sequence runs alone, and every sequence must return what it returns alone."""
    subs = case["jobs"]
    jobs = [PREP[c["kind"]](c) for c in subs]
    order = []
    ocs = run_interleaved([(j.bus, j.seq) for j in jobs], case.get("schedule") or (), case.get("cycle") or None, order=order)
    switches = sum(1 for a, b in zip(order, order[1:]) if a != b)
    LAST_INTER[0] = (id(case), switches > len(jobs) - 1)
    out, seen = [], set()

    def add(sig, msg):
        if sig not in seen:
            seen.add(sig)
            out.append((sig, msg))

    for i, (job, oc) in enumerate(zip(jobs, ocs)):
        vs = JUDGE[job.kind](job, oc)
        ref = PREP[job.kind](subs[i])
        roc = run_alone(ref)
        rvs = JUDGE[ref.kind](ref, roc)
        for sig, msg in rvs:                  # not a matter of interleaving: the sequence fails on its own
            add(sig, msg)
        alone = set(sig for sig, _ in rvs)
        why = None
        a, r = _end_state(job), _end_state(ref)
        if _result(oc) != _result(roc):
            why = "outcome %r, alone %r" % (_result(oc), _result(roc))
        elif a != r:
            k = [k for k in a if a[k] != r[k]][0]
            why = "the unit ends with %s = %r, alone %r" % (k, a[k], r[k])
        elif [v for v in vs if v[0] not in alone]:
            why = "%s: %s" % [v for v in vs if v[0] not in alone][0]
        if why:
            add("C14:interleaved-sequences-interfere:" + ("illegal-" + subs[i]["what"] if job.kind == "illegal" else job.kind),
                "sequence #%d of %d in flight at the same time on separate buses (advance order %s; the others: %s): %s: %s"
                % (i, len(jobs), order, "; ".join(j.where for k, j in enumerate(jobs) if k != i), job.where, why))
    return out


# ------------------------------------------------ calls one after the other ----
def disturb(u, b, how, v):
    """What may happen to a unit between two calls: another controller sets another colour temperature and uses the
    DTRs, or the unit loses power and comes back with its power-on values."""
    if how == "power-cycle":
        u.tc, u.temp_tc = 0xFFFF, 0xFFFF
        u.dtr0 = u.dtr1 = u.dtr2 = 0
        u.enabled_dt = None
    else:
        other = (v ^ 0x0155) & 0xFFFF
        u.tc, u.temp_tc = (other if other != 0xFFFF else 0x0155), 0xFFFF
        u.dtr0, u.dtr1, u.dtr2 = 0x3C, 0xC3, 0x99
    u.log = []
    if b is not None:
        b.log = []


def _step_name(c):
    return "look-alike-%s-%s" % (c["what"], c["arg"]) if c["kind"] == "alike" else \
        "illegal-" + c["what"] if c["kind"] == "illegal" else c["kind"]


def _step_args(c):
    """(sequence, the arguments as plain numbers) - equal for calls whose arguments compare equal"""
    what = c["what"] if c["kind"] in ("alike", "illegal") else c["kind"]
    if c["kind"] == "illegal":
        return (what, "illegal", c["i"])
    if what == "set":
        return (what, c["value"])
    if what == "limit":
        return (what, c.get("selector", 0), c["value"])
    return (what, c.get("selector", 0))


def related(case):
    """Do at least two calls of the history carry equal-comparing arguments?"""
    a = [_step_args(c) for c in case["steps"]]
    return len(set(a)) < len(a)


def case_history(case):
    """Calls made one after the other in one process.  Each has fresh units and a bus of its own - or, with 'same_unit',
    the units of the previous call after they were changed behind the library's back - and is judged as a single call."""
    out, seen = [], set()
    prev = None
    passed = []
    for k, step in enumerate(case["steps"]):
        if step["kind"] == "set" and step.get("same_unit") and prev is not None and prev.b is not None:
            disturb(prev.u, prev.b, step["same_unit"], step["value"])
            job = prep_set(step, reuse=(prev.u, prev.b))
        else:
            job = PREP[step["kind"]](step)
        vs = JUDGE[job.kind](job, run_alone(job))
        prev = job
        plain = {x: y for x, y in step.items() if x != "same_unit"}
        if vs and k and plain in passed:
            # the very same call was fine earlier in this history
            sig = "C14:call-depends-on-earlier-calls:" + _step_name(step)
            if sig not in seen:
                seen.add(sig)
                out.append((sig, "call #%d of %d made one after the other (%s): %s [%s]; the same call passed as call #%d. "
                            "Earlier calls: %s" % (k, len(case["steps"]), "on the previous call's unit after a %s" %
                                                  step["same_unit"] if step.get("same_unit") else "fresh unit and bus",
                                                  vs[0][1], vs[0][0], passed.index(plain), _history_text(case["steps"][:k]))))
            continue
        if not vs:
            passed.append(plain)
        for sig, msg in vs:
            if sig not in seen:
                seen.add(sig)
                out.append((sig, msg if not k else "%s (call #%d; earlier calls: %s)" % (msg, k, _history_text(case["steps"][:k]))))
    return out


def _history_text(steps):
    out = []
    for c in steps:
        if c["kind"] == "alike":
            out.append("%s(%s=%s of %d)" % (c["what"], c["arg"], c["form"],
                                           9 if c["arg"] == "address" else c.get("selector", 0) if c["arg"] == "selector" else c["value"]))
        elif c["kind"] == "illegal":
            out.append("%s(illegal #%d)" % (c["what"], c["i"]))
        else:
            out.append("%s(%s)" % (c["kind"], ", ".join("%s=%r" % (k, c[k]) for k in ("dest", "selector", "value", "as_enum", "int_addr")
                                                         if k in c)))
    return "; ".join(out)


def run_case(case):
    if case["kind"] == "interleaved":
        return case_interleaved(case)
    if case["kind"] == "history":
        return case_history(case)
    return case_single(case)


KINDS3 = ("set", "limit", "query")


def _job(kind, v, k):
    """The k-th variation of a set / limit / query job carrying value v."""
    if kind == "set":
        return {"kind": "set", "value": v, "dest": DESTS[k % 4]}
    if kind == "limit":
        return {"kind": "limit", "value": v, "selector": (k // 2) % 4, "dest": DESTS[(k + 1) % 4], "as_enum": bool(k & 1)}
    sels = selectors()
    return {"kind": "query", "selector": sels[k % len(sels)], "value": v, "int_addr": bool(k & 1)}


def value_pairs(seed, n):
    """Pairs of 16-bit values: differing in the high byte only, in the low byte only, in both; then seed-derived ones."""
    out = [(0x1234, 0x5634), (0x00FF, 0x01FF), (0x0000, 0xFE00), (0x0099, 0x0199),          # high byte
           (0x1234, 0x1256), (0xFE00, 0xFE01), (0x0100, 0x01FF), (0x0099, 0x0072),          # low byte
           (0x0099, 0x0172), (0x1234, 0x4321), (0x00FF, 0xFE00), (0xFFFF, 0x0000), (0xFEFF, 0x0100), (0x0064, 0x03E8)]
    k = 0
    while len(out) < n:
        a = (seed * 7919 + k * 25717 + 4660) & 0xFFFF
        b = (a ^ ((0x0100 << (k % 8)) if k % 3 == 0 else (1 << (k % 8)) if k % 3 == 1 else (seed * 31 + k * 40503 + 1) & 0xFFFF)) & 0xFFFF
        if a != b:
            out.append((a, b))
        k += 1
    return out[:n]


def pair_orders():
    """Every order of the first eight advances of two sequences in which each advances four times (all interleavings
    of two four-command sequences), then two that leave everything to the cycle."""
    import itertools
    out = []
    for ones in itertools.combinations(range(8), 4):
        out.append([1 if i in ones else 0 for i in range(8)])
    return out


TRIPLE_ORDERS = [([], [0, 1, 2]), ([], [2, 1, 0]), ([], [1, 2, 0]), ([0], [2, 1, 0]), ([0, 0], [1, 2, 0]), ([0, 1], [2, 0, 1]),
                 ([], [0, 0, 1, 1, 2, 2]), ([0, 1, 1], [2, 0, 1]), ([0, 0, 0, 1], [2, 1, 0]), ([0] * 20, [1, 2])]


def _inter(jobs, schedule, cycle=None):
    return {"kind": "interleaved", "jobs": jobs, "schedule": schedule, "cycle": cycle or []}


def _differ(case):
    vs = [c.get("value") for c in case["jobs"] if c["kind"] != "illegal"]
    return len(set(vs)) > 1


def _shard_inter(arg):
    what = arg[0]
    res = Result()

    def go(case, label):
        res.count()
        vs = run_case(case)
        if LAST_INTER[0][1] and _differ(case):
            res.nontrivial()
        res.label(label)
        for sig, msg in vs:
            res.violation(sig, case, msg)

    if what == "pairs":
        _, ka, kb, seed, npairs = arg
        orders = pair_orders()
        for pi, (va, vb) in enumerate(value_pairs(seed, npairs)):
            for oi, order in enumerate(orders):
                k = pi * 7 + oi
                go(_inter([_job(ka, va, k), _job(kb, vb, k + (oi % 3))], order), "interleaved:%s+%s" % (ka, kb))
            go(_inter([_job(ka, va, pi), _job(kb, vb, pi)], [0] * 20), "interleaved:sequential")
        res.sample(_inter([_job(ka, 0x0099, 0), _job(kb, 0x0172, 1)], [0, 1, 0, 1]), cls="interleaved pair")
    elif what == "triples":
        _, ka, seed, ntr = arg
        vp = value_pairs(seed + 1, ntr)
        for kb in KINDS3:
            for kc in KINDS3:
                for pi, (va, vb) in enumerate(vp):
                    vc = (va & 0xFF00) | (vb & 0x00FF)
                    for oi, (sched, cyc) in enumerate(TRIPLE_ORDERS):
                        k = pi * 5 + oi
                        go(_inter([_job(ka, va, k), _job(kb, vb, k + 1), _job(kc, vc, k + 2)], sched, cyc),
                           "interleaved:three")
        res.sample(_inter([_job(ka, 0x0099, 0), _job("limit", 0x0172, 1), _job("query", 0x1234, 2)], [], [2, 1, 0]),
                   cls="interleaved triple")
    elif what == "illegal":
        # a rejected call in between must not disturb a sequence in flight (and must still be rejected before sending)
        for ki, ka in enumerate(KINDS3):
            for wi, (w, n) in enumerate((("set", len(ILLEGAL_TC)), ("limit", len(ILLEGAL_TC)), ("query", 6))):
                for i in range(n):
                    for h in range(0, 5):
                        go(_inter([_job(ka, 0x1234 + 257 * i, i + h), {"kind": "illegal", "what": w, "i": i}], [0] * h + [1]),
                           "interleaved:with-illegal-call")
    elif what == "hyp":
        from harness import hyp
        _, seed, n = arg
        hyp.search(inter_st(), run_case, res, n, seed, ID,
                   nontrivial=lambda c: LAST_INTER[0] is not None and LAST_INTER[0][0] == id(c) and LAST_INTER[0][1] and _differ(c),
                   classify=lambda c: ["hyp:interleaved:%d" % len(c["jobs"])] + ["hyp:interleaved:has-" + j["kind"] for j in c["jobs"]],
                   extra_rounds_budget_s=10.0)
    return res


def inter_st():
    from hypothesis import strategies as st

    @st.composite
    def gen(draw):
        n = draw(st.sampled_from([2, 2, 3]))
        base = draw(st.one_of(st.integers(0, 65535), st.sampled_from([0, 0x00FF, 0xFF00, 0xFEFF, 0xFFFF, 0x0100])))
        jobs = []
        for i in range(n):
            how = draw(st.sampled_from(["high", "low", "both", "any", "same"])) if i else "same"
            v = {"high": base ^ (draw(st.integers(1, 255)) << 8), "low": base ^ draw(st.integers(1, 255)),
                 "both": base ^ draw(st.integers(1, 255)) ^ (draw(st.integers(1, 255)) << 8),
                 "any": draw(st.integers(0, 65535)), "same": base}[how]
            kind = draw(st.sampled_from(["set", "set", "limit", "limit", "query", "query", "illegal"]))
            if kind == "illegal":
                w = draw(st.sampled_from(["set", "limit", "query"]))
                jobs.append({"kind": "illegal", "what": w, "i": draw(st.integers(0, 5))})
                continue
            j = _job(kind, v, draw(st.integers(0, 63)))
            if kind == "query":
                if draw(st.integers(0, 4)) == 0:
                    j["fault"] = [draw(st.integers(0, 3))] + draw(st.sampled_from([["silence"], ["garble", 0x12], ["garble", None], ["noobject"]]))
                j["level"] = draw(st.sampled_from([0, 1, 170, 254, 255]))
            jobs.append(j)
        sched = draw(st.lists(st.integers(0, n - 1), max_size=14))
        cycle = draw(st.one_of(st.just([]), st.permutations(list(range(n))), st.lists(st.integers(0, n - 1), min_size=1, max_size=5)))
        return _inter(jobs, sched, list(cycle))

    return gen()


# ---------------------------------------------------------------- history shards ----
def hist_values(seed, n=20):
    out = [0, 1, 2, 255, 256, 257, 370, 0x1234, 0x8000, 0xFE00, 0xFEFF, 0xFF00, 65534, 65535]
    k = 0
    while len(out) < n:
        v = (seed * 7919 + k * 25717 + 153) & 0xFFFF
        if v not in out:
            out.append(v)
        k += 1
    return out[:n]


def _hist(steps):
    return {"kind": "history", "steps": steps}


def _alike(what, arg, form, v, sel=0, dest="int"):
    return {"kind": "alike", "what": what, "arg": arg, "form": form, "value": v, "selector": sel, "dest": dest}


def _legal(what, v, sel, k):
    """The legal call with value v / selector sel in its k-th spelling (destination and selector form)."""
    if what == "set":
        return {"kind": "set", "value": v, "dest": ("int", "short")[k % 2]}
    if what == "limit":
        return {"kind": "limit", "value": v, "selector": sel, "dest": ("int", "short")[k % 2], "as_enum": bool((k // 2) % 2)}
    return {"kind": "query", "selector": sel, "value": v, "int_addr": not (k % 2), "level": 170}


def _shard_hist(arg):
    what = arg[0]
    res = Result()

    def go(case, label):
        res.count()
        vs = run_case(case)
        if related(case):
            res.nontrivial()
        res.label(label)
        for sig, msg in vs:
            res.violation(sig, case, msg)

    if what == "alike":
        # look-alike of every argument before, between and after legal calls with equal arguments (two spellings)
        _, seed, seq = arg
        sels = selectors()
        n = 0
        for vi, v in enumerate(hist_values(seed)):
            if seq == "query":
                todo = [("selector", s_) for s_ in sels[vi % 8::8]] + [("address", sels[vi % len(sels)])]
            elif seq == "limit":
                todo = [("tc", s_) for s_ in range(4)] + [("selector", s_) for s_ in range(4)] + [("address", vi % 4)]
            else:
                todo = [("tc", 0), ("address", 0)]
            for argname, sel in todo:
                n_arg = 9 if argname == "address" else sel if argname == "selector" else v
                for form in forms_for(n_arg, "query" if (seq, argname) == ("query", "selector") else argname):
                    for dest in ("int", "short") if argname != "address" else ("int",):
                        n += 1
                        a = _alike(seq, argname, form, v, sel, dest)
                        k = n + (0 if dest == "int" else 1)
                        go(_hist([a, _legal(seq, v, sel, k), a, _legal(seq, v, sel, k + 1 + 2 * (n % 2)), a]),
                           "history:look-alike:%s-%s" % (seq, argname))
        res.sample(_hist([_alike("limit", "tc", "float", 370, 1), _legal("limit", 370, 1, 0), _alike("limit", "tc", "float", 370, 1)]),
                   cls="history: look-alike after legal use")
    elif what == "repeat":
        # the same call again: fresh unit and bus (second line), or the same unit changed by someone else in between
        _, seed = arg
        n = 0
        for vi, v in enumerate(hist_values(seed)):
            other = (v ^ 0x0101) & 0xFFFF
            for d in DESTS:
                s1 = {"kind": "set", "value": v, "dest": d}
                for how in (None, "other-controller", "power-cycle"):
                    s2 = dict(s1, same_unit=how) if how else s1
                    for between in ([], [{"kind": "set", "value": other, "dest": d}], [_legal("query", v, selectors()[n % len(selectors())], n)],
                                    [_legal("limit", v, n % 4, n)], [{"kind": "illegal", "what": "set", "i": n % len(ILLEGAL_TC)}]):
                        n += 1
                        go(_hist([s1] + between + [s2] + ([s2] if n % 3 == 0 else [])), "history:repeat:set")
            for sel in range(4):
                for k in range(4):
                    n += 1
                    l1 = _legal("limit", v, sel, k)
                    go(_hist([l1, l1] + ([_legal("limit", other, sel, k), l1] if k % 2 else [])), "history:repeat:limit")
            sels = selectors()
            for sel in sels[vi % 3::3]:
                n += 1
                q1 = _legal("query", v & 0xFEFF, sel, n)
                go(_hist([q1, dict(q1, value=other & 0xFEFF), q1, dict(q1, value=other | 0xFF00), dict(q1, fault=[2 + n % 2, "silence"]), q1]),
                   "history:repeat:query")
        res.sample(_hist([{"kind": "set", "value": 370, "dest": "short"}, {"kind": "set", "value": 370, "dest": "short",
                                                                          "same_unit": "other-controller"}]),
                   cls="history: same call twice")
    elif what == "hyp":
        from harness import hyp
        _, seed, n = arg
        hyp.search(history_st(), run_case, res, n, seed, ID, nontrivial=related,
                   classify=lambda c: ["hyp:history:%d" % len(c["steps"])] + ["hyp:history:has-" + _step_name(j) for j in c["steps"]],
                   extra_rounds_budget_s=10.0)
    return res


def history_st():
    from hypothesis import strategies as st

    @st.composite
    def gen(draw):
        pool = draw(st.lists(st.one_of(st.integers(0, 65535), st.sampled_from([0, 1, 255, 256, 0xFEFF, 0xFF00, 0xFFFF])),
                             min_size=1, max_size=2, unique=True))
        psel = draw(st.lists(st.integers(0, 3), min_size=1, max_size=2, unique=True))
        sels = selectors()
        qsel = draw(st.lists(st.sampled_from(sels), min_size=1, max_size=2, unique=True))
        steps = []
        for i in range(draw(st.integers(2, 6))):
            v = draw(st.sampled_from(pool))
            what = draw(st.sampled_from(KINDS3))
            sel = draw(st.sampled_from(qsel if what == "query" else psel))
            how = draw(st.integers(0, 9))
            if how < 5:
                j = _legal(what, v if what != "query" else v, sel, draw(st.integers(0, 7)))
                if what == "set":
                    j["dest"] = draw(st.sampled_from(DESTS))
                    if steps and draw(st.booleans()):
                        j["same_unit"] = draw(st.sampled_from(["other-controller", "power-cycle"]))
                steps.append(j)
            elif how < 9:
                argname = draw(st.sampled_from({"set": ["tc", "address"], "limit": ["tc", "selector", "address"],
                                                "query": ["selector", "address"]}[what]))
                n_arg = 9 if argname == "address" else sel if argname == "selector" else v
                form = draw(st.sampled_from(forms_for(n_arg, "query" if (what, argname) == ("query", "selector") else argname)))
                steps.append(_alike(what, argname, form, v, sel, draw(st.sampled_from(["int", "short"]))))
            else:
                steps.append({"kind": "illegal", "what": what, "i": draw(st.integers(0, 5))})
        return _hist(steps)

    return gen()


def _dispatch(arg):
    if arg[0] == "inter":
        return _shard_inter(arg[1:])
    if arg[0] == "hist":
        return _shard_hist(arg[1:])
    return _shard(arg)


def _shard(arg):
    kind = arg[0]
    res = Result()

    def go(case, nt):
        res.count()
        if nt:
            res.nontrivial()
        for sig, msg in run_case(case):
            res.violation(sig, case, msg)

    if kind == "set":
        _, d, lo, hi, stride = arg
        for v in range(lo, hi, stride):
            go({"kind": "set", "value": v, "dest": d}, (v & 0xFF) != (v >> 8))
        res.label("set:" + d, len(range(lo, hi, stride)))
        res.sample({"kind": "set", "value": lo + 258, "dest": d}, cls="set Tc")
    elif kind == "limit":
        _, sel, lo, hi, stride = arg
        for v in range(lo, hi, stride):
            go({"kind": "limit", "value": v, "selector": sel, "dest": DESTS[v % 4], "as_enum": bool(v & 1)}, (v & 0xFF) != (v >> 8))
        res.label("limit:%d" % sel, len(range(lo, hi, stride)))
        res.sample({"kind": "limit", "value": lo + 513, "selector": sel, "dest": "short"}, cls="store limit")
    elif kind == "query":
        _, sels, start, stride = arg
        for sel in sels:
            for v in range(start, 65536, stride):
                go({"kind": "query", "selector": sel, "value": v, "int_addr": bool(v & 1)}, (v & 0xFF) != (v >> 8))
            for v in (0x0000, 0x00FF, 0x0100, 0x1234, 0xFE01, 0xFEFF, 0xFF00, 0xFFFF):
                go({"kind": "query", "selector": sel, "value": v}, True)
                for step in (0, 1, 2, 3):
                    for fk in (["silence"], ["garble", 0x12], ["garble", None], ["noobject"]):
                        go({"kind": "query", "selector": sel, "value": v, "fault": [step] + fk}, True)
                        res.label("query-fault:step%d" % step)
        res.label("query", 1)
        res.sample({"kind": "query", "selector": sels[0], "value": 0x1234, "fault": [2, "garble", 0x12]}, cls="query")
    elif kind == "illegal":
        for what, n in (("set", len(ILLEGAL_TC)), ("limit", len(ILLEGAL_TC)), ("query", 6)):
            for i in range(n):
                go({"kind": "illegal", "what": what, "i": i}, True)
                res.label("illegal:" + what)
        res.sample({"kind": "illegal", "what": "set", "i": 0}, cls="illegal")
    return res


def run(ctx):
    q, s = ctx.quick, ctx.seed
    shards = [("illegal",)]
    st_ = 1
    for d in DESTS:
        for k in range(4):
            lo = k << 14
            shards.append(("set", d, lo + s % st_, lo + (1 << 14), st_))
    for sel in range(4):
        for k in range(2):
            lo = k << 15
            shards.append(("limit", sel, lo + s % st_, lo + (1 << 15), st_))
    sels = selectors()
    qs = 61 if q else 1          # 257 is coprime to 256: every low byte and every high byte is visited
    if not q:
        qs = 1
    for k in range(0, len(sels), 2 if q else 1):
        shards.append(("query", sels[k:k + (2 if q else 1)], s % qs, qs))
    # several sequences in flight at the same time, each on its own bus
    npairs = 16 if q else 120
    for ka in KINDS3:
        for kb in KINDS3:
            shards.append(("inter", "pairs", ka, kb, s, npairs))
        shards.append(("inter", "triples", ka, s, 3 if q else 12))
    shards.append(("inter", "illegal"))
    for k in range(4 if q else 16):
        shards.append(("inter", "hyp", s * 1000 + k, 300 if q else 3000))
    # calls one after the other in one process: look-alikes of arguments just used, the same call again
    for seq in KINDS3:
        shards.append(("hist", "alike", s, seq))
    shards.append(("hist", "repeat", s))
    for k in range(4 if q else 16):
        shards.append(("hist", "hyp", s * 1000 + 500 + k, 250 if q else 2500))
    ctx.pmap(_dispatch, shards)
    # 'exhaustive' speaks of the single-sequence space (all 65536 values per destination / selector), as before; the
    # sequences-in-flight cases are an enumeration over a LIST of value pairs plus a Hypothesis sample, not a complete space
    ctx.result.exhaustive = not q
    ctx.result.extra["sequences_in_flight"] = "enumerated orders x listed value pairs + Hypothesis sample (not exhaustive)"
    ctx.result.extra["histories"] = "listed values x every argument x every look-alike form + Hypothesis sample (not exhaustive)"
    ctx.result.extra["query_selectors"] = len(sels)
    ctx.result.extra["strides"] = {"set_and_limit": st_, "query_values": qs}
