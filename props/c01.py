"""C01 - every forward frame decodes, re-encodes to the same bits, renders as text; decoding is pure.

Engines
  * complete enumeration (thorough) / seeded stride (quick) of
      (a) all 2^16 16-bit frames x device type 0..255
      (b) all 2^24 24-bit frames, no map
      (c) all 2^21 device/instance-scheme event frames x 8 classes of instance map
      (d) lengths 1..64 other than 16/24 with boundary and pseudo-random values
  * Hypothesis: boundary-biased (length, value, device type, map) tuples, and
    decode/construct histories for purity.
Oracle: no exception; result is a Command whose .frame has the same length and integer as the
input; input object unchanged; str() is a str.  Purity: fingerprints of a fixed probe set computed
in a pristine interpreter (fresh subprocess, nothing decoded before) must be reproduced at the end
of every shard, after millions of other decodes/constructions; registries named in the anchors must
be unchanged; within a history the same input always gives the same fingerprint.
"""
import hashlib
import json
import os
import subprocess
import sys

from hypothesis import strategies as st

from harness import hyp
from harness.runner import Result, REPO, VERIF, library_frame

ID = "C01"
OPTIMIZED_PASS = True      # the whole search runs once more under python -OO (harness/runner.py)
LEVEL = "exploration"
RULE = ("enumeration of (length, value, device type, map class) - every enumerated input is distinct by "
        "construction; non-trivial = the result is a named command/event class, or a generic class reached "
        "through a non-default branch (device type != 0, a map supplied, length not 16/24); Hypothesis cases "
        "are fingerprinted")
ASSUMPTIONS = [
    "all command modules (gear: general, led, emergency, incandescent, converter, colour; device: general, "
    "pushbutton, occupancy, light) are imported before decoding, as an application would",
    "instance maps are exercised by class of entry (implemented types 1,3,4; unimplemented 0,2,31; out-of-range 77; "
    "absent); C12 covers every type",
]

MAP_CLASSES = [1, 3, 4, 0, 2, 31, 77, None]
GENERIC = ("Command", "UnknownGearCommand", "UnknownDeviceCommand", "UnknownEvent", "AmbiguousInstanceType")


def _load():
    import dali.gear.general, dali.gear.led, dali.gear.emergency, dali.gear.incandescent  # noqa
    import dali.gear.converter, dali.gear.colour  # noqa
    import dali.device.general, dali.device.pushbutton, dali.device.occupancy, dali.device.light  # noqa
    import dali.device.helpers  # noqa
    from dali import command, frame
    return command, frame


_MAPS = {}


def get_map(t):
    """Instance map resolving every (short, instance) to type t; None -> empty map."""
    if t not in _MAPS:
        from dali.device.helpers import DeviceInstanceTypeMapper
        m = DeviceInstanceTypeMapper()
        if t == "sparse":
            # one instance per device, of a type that depends on the device: "exactly one instance of type X on
            # device A" holds for some (A, X) and not for others
            for a in range(64):
                m.add_type(short_address=a, instance_number=a % 32, instance_type=[1, 3, 4, 2, 0][a % 5])
                if a % 7 == 0:
                    m.add_type(short_address=a, instance_number=(a + 1) % 32, instance_type=[1, 3, 4, 2, 0][a % 5])
        elif t is not None:
            for a in range(64):
                for i in range(32):
                    m.add_type(short_address=a, instance_number=i, instance_type=t)
        _MAPS[t] = m
    return _MAPS[t]


ATTRS = ("destination", "param", "power", "address", "broadcast", "instance", "param_1", "param_2",
         "short_address", "instance_number", "instance_group", "device_group", "instance_type", "event_data")


def fp(cmd):
    """Fingerprint of a decoded command: class, frame, text, public attribute values."""
    try:
        text = str(cmd)
    except Exception as e:  # noqa - reported by decode_check; the fingerprint must not crash on it
        text = "<str() raised %s>" % type(e).__name__
    parts = [type(cmd).__module__, type(cmd).__qualname__, len(cmd.frame), cmd.frame.as_integer, text]
    for a in ATTRS:
        if not hasattr(type(cmd), a) and a not in getattr(cmd, "__dict__", {}):
            continue
        try:
            v = getattr(cmd, a)
            parts.append("%s=%s/%s" % (a, type(v).__name__, str(v)))
        except Exception as e:  # noqa
            parts.append("%s=<raised %s>" % (a, type(e).__name__))
    return "|".join(map(str, parts))


def decode_check(bits, value, dt, mapcls, use_map, out, hist=None):
    """One decode; appends violations to out; returns the command (or None)."""
    command, frame = _load()
    f = frame.ForwardFrame(bits, value)
    try:
        if use_map and (value + dt) % 2:
            c = command.from_frame(f, dt, get_map(mapcls))          # the documented parameter order, positionally
        elif (value + dt) % 3 == 0:
            c = command.Command.from_frame(f, devicetype=dt, dev_inst_map=get_map(mapcls) if use_map else None)
        else:
            c = command.from_frame(f, devicetype=dt, dev_inst_map=get_map(mapcls) if use_map else None)
    except Exception as e:  # noqa
        out.append(("C01:decode-raised:%s@%s" % (type(e).__name__, library_frame(e.__traceback__)),
                    "from_frame(%d-bit %#x, dt=%d, map=%r) raised %r" % (bits, value, dt, mapcls if use_map else "no", e)))
        return None
    where = "from_frame(%d-bit %#x, dt=%d, map=%r)" % (bits, value, dt, mapcls if use_map else "no")
    if not isinstance(c, command.Command):
        out.append(("C01:not-a-command", "%s returned %r" % (where, c)))
        return None
    name = type(c).__name__
    try:
        cf = c.frame
        if len(cf) != bits or cf.as_integer != value:
            out.append(("C01:frame-differs:" + name, "%s -> %s whose frame is %d-bit %#x"
                        % (where, name, len(cf), cf.as_integer)))
        if f.as_integer != value or len(f) != bits:
            out.append(("C01:input-modified:" + name, "%s changed its input to %#x" % (where, f.as_integer)))
    except Exception as e:  # noqa
        out.append(("C01:frame-access-raised:" + name, "%s: %r" % (where, e)))
    try:
        s = str(c)
        if not isinstance(s, str):
            out.append(("C01:str-type:" + name, "%s: str() gave %r" % (where, type(s))))
    except Exception as e:  # noqa
        out.append(("C01:str-raised:%s:%s" % (name, type(e).__name__), "%s: str() raised %r" % (where, e)))
    if name not in ("Command", "UnknownGearCommand", "UnknownDeviceCommand"):     # these hand the caller's frame through
        # the caller refills its receive buffer: a decoded (known) command keeps the bits it was decoded from
        try:
            f[0] = not f[0]
            f[bits - 1] = not f[bits - 1]
            if c.frame.as_integer != value:
                out.append(("C01:result-shares-the-callers-frame:" + name, "%s: after the caller changed its frame object the "
                            "decoded command's frame is %#x" % (where, c.frame.as_integer)))
            f[0] = not f[0]
            f[bits - 1] = not f[bits - 1]
        except Exception as e:  # noqa
            out.append(("C01:frame-access-raised:" + name, "%s: %r" % (where, e)))
    if hist is not None:
        hist[name] += 1
    return c


# ------------------------------------------------------------ purity ----
def probe_inputs():
    """Fixed probe set: (bits, value, dt, mapcls, use_map)."""
    probes = []
    # first of all (before any event frame): instance commands whose opcodes belong to the parts 301/303/304
    for inst in (0x00, 0x1F, 0xC1, 0xC3, 0xC4, 0x81, 0xFF):
        for op in (0x00, 0x05, 0x0F, 0x10, 0x20, 0x2F, 0x30, 0x3F, 0x40):
            probes.append((24, 0x010000 | (inst << 8) | op, 0, None, False))
    x = 0x2545F491
    for k in range(1500):
        x = (x * 1103515245 + 12345) & 0x7FFFFFFF
        v = x & 0xFFFF
        probes.append((16, v, (x >> 16) % 10, None, False))
        probes.append((16, v | 0x0100, [0, 1, 4, 5, 6, 8, 3, 255][k % 8], None, False))
    for k in range(1500):
        x = (x * 1103515245 + 12345) & 0x7FFFFFFF
        v = x & 0xFFFFFF
        probes.append((24, v, 0, None, False))
        probes.append((24, v & 0x7EFFFF | 0x8000, 0, MAP_CLASSES[k % 8], True))   # device/instance events
        probes.append((24, v & 0xFEFFFF, 0, None, False))                           # events, all schemes
    for bits in (1, 8, 15, 17, 20, 25, 32, 64):
        for v in (0, 1, (1 << bits) - 1):
            probes.append((bits, v, 0, None, False))
    for t in context_targets(False, 0):
        probes.append((t[0], t[1], t[2], None if t[3] == "no" else t[3], t[3] != "no"))
    return probes


def probe_fingerprints(load=True):
    if load:
        command, frame = _load()
    else:
        from dali import command, frame
    out = []
    for bits, v, dt, mc, um in probe_inputs():
        try:
            c = command.from_frame(frame.ForwardFrame(bits, v), devicetype=dt, dev_inst_map=get_map(mc) if um else None)
            out.append(fp(c))
        except Exception as e:  # noqa - a decode failure is reported by the enumeration; keep the probe total
            out.append("<decode raised %s>" % type(e).__name__)
    return out


def registry_snapshot():
    """Deep, comparable snapshot of the registries named in the property's anchors."""
    command, frame = _load()
    from dali import address
    from dali.gear import general as gg
    from dali.device import general as dg
    from dali.device import pushbutton

    def q(c):
        return c.__module__ + "." + c.__qualname__
    # every entry is computed on its own: a registry that is missing or malformed becomes part of the snapshot
    # (and so of the comparison) instead of crashing the harness
    entries = {
        "commands": lambda: [q(c) for c in command.Command._commands],
        "framesizes": lambda: {str(k): [q(c) for c in v] for k, v in command.Command._framesizes.items()},
        "gearcommands": lambda: [q(c) for c in gg._GearCommand._gearcommands],
        "std_opcodes": lambda: sorted((str(k), q(c)) for k, c in gg._StandardCommand._opcodes.items()),
        "special_opcodes": lambda: sorted((str(k), q(c)) for k, c in gg._SpecialCommand._opcodes.items()),
        "devicecommands": lambda: [q(c) for c in dg._DeviceCommand._devicecommands],
        "dev_opcodes": lambda: sorted((str(k), q(c)) for k, c in dg._StandardDeviceCommand._opcodes.items()),
        "inst_opcodes": lambda: sorted((str(k), q(c)) for k, c in dg._StandardInstanceCommand._opcodes.items()),
        "instance_types": lambda: sorted((str(k), q(c)) for k, c in dg._Event._instance_types.items()),
        "pushbutton_events": lambda: sorted((str(k), q(c)) for k, c in pushbutton._PushbuttonEvent._event_classes.items()),
        "addrtypes": lambda: [q(c) for c in address.Address._addrtypes],
        "supported_devicetypes": lambda: sorted(command.Command._supported_devicetypes),
        # class-level attributes that decoding consults or that drivers act on: decoding must not write to them
        "class_flags": lambda: [[q(c), repr(getattr(c, "devicetype", None)), repr(getattr(c, "sendtwice", None)),
                                 q(c.response) if getattr(c, "response", None) is not None else None,
                                 repr(getattr(c, "_cmdval", None)), repr(getattr(c, "_opcode", None)),
                                 repr(getattr(c, "_hasparam", None)), repr(getattr(c, "_framesize", None)),
                                 repr(getattr(c, "_instance_type", None)), repr(getattr(c, "_event_info", None)),
                                 repr(getattr(c, "_addr", None)), repr(getattr(c, "_instance", None))]
                                for c in command.Command._commands],
    }
    snap = {}
    for k, fn in entries.items():
        try:
            snap[k] = fn()
        except Exception as e:  # noqa
            snap[k] = "<%s>" % type(e).__name__
    return hashlib.sha256(json.dumps(snap, sort_keys=True).encode()).hexdigest()


_BASELINE = {}


def pristine_baseline():
    """Probe fingerprints + registry snapshot from a fresh interpreter that has decoded nothing else."""
    env = dict(os.environ, PYTHONHASHSEED="0", VERIF_REPO=REPO, PYTHONPATH=VERIF)
    r = subprocess.run([sys.executable, "-B", os.path.abspath(__file__), "--baseline"], env=env,
                       capture_output=True, text=True, cwd=VERIF)
    if r.returncode != 0:
        if "/dali/" in r.stderr and "/verif/harness" not in r.stderr.splitlines()[-3:][0]:
            # the library itself fails in a fresh interpreter (importing, decoding the probes or exposing its
            # registries): reported as a violation by run(), the remaining strata run without the purity baseline
            return {"error": r.stderr[-1500:]}
        raise RuntimeError("baseline subprocess failed: " + r.stderr[-2000:])
    return json.loads(r.stdout)


IMPORT_HISTORIES = {
    # what the program imported, in which order, and whether it decoded anything before the command modules
    # were loaded.  Importing any module of dali.gear / dali.device loads the whole package (their __init__
    # say so), after which decoding must be what it is in a program that imported everything up front.
    "decode-before-import": (True, ["dali.gear.general", "dali.device.general"]),
    "device-general-only-first": (False, ["dali.device.general", "dali.gear.general"]),
    "sequences-only": (False, ["dali.sequences", "dali.device.helpers"]),
    "leaf-modules-only": (True, ["dali.device.pushbutton", "dali.gear.led"]),
    "drivers-only": (False, ["dali.driver.hid", "dali.device.helpers", "dali.gear"]),
    # the packages by their own names only (no submodule named by the program)
    "packages-only": (False, ["dali.device", "dali.gear"]),
    "device-package-only": (False, ["dali.device"]),
    "gear-package-only-then-decodes-then-device": (True, ["dali.gear", "dali.device"]),
    # everything imported, then the application builds its commands/events/maps BEFORE the first frame is decoded
    "constructions-before-first-decode": ("construct", ["dali.gear", "dali.device"]),
    # the program registers decoders of its own for proprietary frame lengths (direct subclasses of Command whose
    # from_frame answers None for "not mine", as the Command docstring prescribes)
    "vendor-decoders-registered": ("vendor", ["dali.gear", "dali.device"]),
}


def import_history_fingerprints(name):
    """Runs in a fresh interpreter (see __main__)."""
    import importlib
    early, mods = IMPORT_HISTORIES[name]
    if early == "vendor":
        from dali import command, frame
        for bits in (8, 15, 17, 20, 25, 32):
            def _ff(cls, f, devicetype=0, dev_inst_map=None, _bits=bits):
                if f[_bits - 1:_bits - 4] == 0xA and f[3:0] == 0x5:
                    return cls(frame.ForwardFrame(_bits, f.as_integer))
                return None
            type("Vendor%d" % bits, (command.Command,), {"_framesize": bits, "from_frame": classmethod(_ff)})
    elif early == "construct":
        _load()
        cons = constructors()
        for k in list(range(len(cons)))[::-1] + list(range(len(cons))):
            cons[k]()
    elif early:
        from dali import command, frame
        for bits, v, dt, mc, um in probe_inputs()[::7]:
            try:
                command.from_frame(frame.ForwardFrame(bits, v), devicetype=dt)
            except Exception:  # noqa - only the decodes after the imports are judged
                pass
    for m in mods:
        importlib.import_module(m)
    return probe_fingerprints(load=False)


def import_history_check(res, name):
    env = dict(os.environ, PYTHONHASHSEED="0", VERIF_REPO=REPO, PYTHONPATH=VERIF)
    case = {"kind": "import-history", "name": name}
    r = subprocess.run([sys.executable, "-B", os.path.abspath(__file__), "--import-history", name], env=env,
                       capture_output=True, text=True, cwd=VERIF)
    res.count(len(probe_inputs()))
    res.nontrivial(n=len(probe_inputs()))
    res.label("import-history:" + name, len(probe_inputs()))
    if r.returncode != 0:
        res.violation("C01:import-history-raised:" + name, case, "interpreter with import history %r failed: %s" % (name, r.stderr[-600:]))
        return
    now = json.loads(r.stdout)
    for (inp, a, b) in zip(probe_inputs(), _BASELINE["fps"], now):
        if a != b:
            res.violation("C01:decode-depends-on-import-history", dict(case, input=list(inp)),
                          "import history %r (%s%s): decode of %r gives %r, in a program that imported everything first %r"
                          % (name, "decodes before imports, then " if IMPORT_HISTORIES[name][0] else "", IMPORT_HISTORIES[name][1], inp, b, a))
            break


def _import_shard(name):
    res = Result()
    if not _BASELINE:
        base = pristine_baseline()
        if "error" in base:
            return res
        _BASELINE.update(base)
    import_history_check(res, name)
    res.sample({"kind": "import-history", "name": name}, cls="import history")
    return res


def purity_check(res, where):
    """Compare the probe set and registries now with the pristine baseline."""
    if not _BASELINE:
        return
    try:
        now = probe_fingerprints()
    except Exception as e:  # noqa
        res.violation("C01:purity-probe-raised", {"kind": "purity", "where": where}, repr(e))
        return
    base = _BASELINE["fps"]
    res.count(len(now))
    for (inp, a, b) in zip(probe_inputs(), base, now):
        if a != b:
            res.violation("C01:impure-decode", {"kind": "purity", "where": where, "input": list(inp)},
                          "decode of %r differs from the pristine interpreter's: %r vs %r" % (inp, b, a))
            break
    snap = registry_snapshot()
    if snap != _BASELINE["registry"]:
        res.violation("C01:registry-mutated", {"kind": "purity", "where": where},
                      "command registries changed after decoding (%s)" % where)


# ------------------------------------------------------- enumeration ----
def _enum_shard(arg):
    import collections
    kind = arg[0]
    res = Result()
    hist = collections.Counter()
    out = []

    def flush(case):
        for sig, msg in out:
            res.violation(sig, case, msg)
        del out[:]

    n = nt = 0
    if kind == "g16":
        _, dts, start, stride = arg
        for dt in dts:
            for v in range(start, 1 << 16, stride):
                c = decode_check(16, v, dt, None, False, out, hist)
                n += 1
                if c is not None and (dt != 0 or type(c).__name__ not in GENERIC):
                    nt += 1
                if c is not None and dt != 0 and ((v & 0x100) == 0 or (0xA0 <= (v >> 8) <= 0xCB)):
                    # direct arc power and special commands have no device type: whatever was announced before,
                    # the data byte is a level / a parameter, never an extended opcode
                    c0 = decode_check(16, v, 0, None, False, out)
                    if c0 is not None and (type(c0) is not type(c) or str(c0) != str(c)):
                        out.append(("C01:devicetype-changes-a-command-that-has-none",
                                    "16-bit %#06x decodes as %s with devicetype %d but as %s with devicetype 0" % (v, c, dt, c0)))
                if out:
                    flush({"kind": "decode", "bits": 16, "value": v, "dt": dt, "map": "no"})
        res.sample({"kind": "decode", "bits": 16, "value": start + 5 * stride, "dt": dts[0], "map": "no"}, cls="16-bit")
    elif kind == "d24":
        _, lo, hi, stride = arg
        for v in range(lo, hi, stride):
            c = decode_check(24, v, 0, None, False, out, hist)
            n += 1
            if c is not None and type(c).__name__ not in GENERIC:
                nt += 1
            if out:
                flush({"kind": "decode", "bits": 24, "value": v, "dt": 0, "map": "no"})
        res.sample({"kind": "decode", "bits": 24, "value": lo, "dt": 0, "map": "no"}, cls="24-bit")
    elif kind == "evmap":
        _, mc, lo, hi, stride = arg
        for u in range(lo, hi, stride):
            # 21 free bits: short(6) | instance number(5) | data(10)
            v = ((u >> 15) << 17) | 0x8000 | (((u >> 10) & 0x1F) << 10) | (u & 0x3FF)
            c = decode_check(24, v, 0, mc, True, out, hist)
            n += 1
            nt += 1
            if out:
                flush({"kind": "decode", "bits": 24, "value": v, "dt": 0, "map": mc})
        res.sample({"kind": "decode", "bits": 24, "value": 0x8000 | (5 << 17) | (3 << 10) | 2, "dt": 0, "map": mc},
                   cls="device/instance event with map")
    elif kind == "evsparse":
        _, lo, hi, stride = arg
        for u in range(lo, hi, stride):
            # device-scheme events (bit 23 = 0, bit 16 = 0, bit 15 = 0): short(6) | instance type(5) | data(10), and
            # instance-scheme ones, decoded with a map that lists one instance per device
            v = ((u >> 15) << 17) | (((u >> 10) & 0x1F) << 10) | (u & 0x3FF)
            for vv in (v, v | 0x800000 if (u & 3) == 0 else v):
                c = decode_check(24, vv, 0, "sparse", True, out, hist)
                n += 1
                nt += 1
                if out:
                    flush({"kind": "decode", "bits": 24, "value": vv, "dt": 0, "map": "sparse"})
        res.sample({"kind": "decode", "bits": 24, "value": (5 << 17) | (3 << 10) | 2, "dt": 0, "map": "sparse"},
                   cls="device-scheme event with a sparse map")
    elif kind == "odd":
        _, lengths = arg
        for bits in lengths:
            full = (1 << bits) - 1
            vals = {0, 1, full, full // 3, (full // 3) << 1 & full}
            x = bits * 2654435761 & 0xFFFFFFFF
            for k in range(64):
                x = (x * 6364136223846793005 + 1442695040888963407) & ((1 << 64) - 1)
                vals.add(x & full)
            for v in sorted(vals):
                for dt in (0, 6):
                    decode_check(bits, v, dt, 1, dt == 6, out, hist)
                    n += 1
                    nt += 1
                    if out:
                        flush({"kind": "decode", "bits": bits, "value": v, "dt": dt, "map": 1 if dt == 6 else "no"})
        res.sample({"kind": "decode", "bits": lengths[0], "value": 1, "dt": 0, "map": "no"}, cls="other length")
    res.count(n)
    res.nontrivial(n=nt)
    for k, c in hist.items():
        res.label("result:" + k, c)
    purity_check(res, "after shard %r" % (arg[:2],))
    return res


# ------------------------------------------------- context sensitivity ----
def context_ops():
    """Things that may have happened just before a decode: every ENABLE DEVICE TYPE frame, special commands,
    24-bit specials, events, application-extended frames under their device type, constructions."""
    ops = [("decode", 16, 0xC100 | k, 0, "no") for k in range(256)]
    for hi in (0xA1, 0xA3, 0xA5, 0xA7, 0xA9, 0xB1, 0xB7, 0xB9, 0xBB, 0xC3, 0xC5, 0xC7, 0xC9, 0xCB):
        for lo in (0x00, 0x01, 0x06, 0x08, 0xFF):
            ops.append(("decode", 16, (hi << 8) | lo, 0, "no"))
    for dt in (1, 4, 5, 6, 8, 7, 255):
        for lo in (0xE0, 0xE7, 0xF2, 0xFA, 0xFF):
            ops.append(("decode", 16, 0xFF00 | lo, dt, "no"))
            ops.append(("decode", 16, 0x0900 | lo, dt, "no"))
    for v in (0xC13001, 0xC13108, 0xC10000, 0xC50102, 0xFFFE1D, 0x01FE30, 0x03003A, 0x028401, 0x068402, 0x800405, 0xC08001):
        ops.append(("decode", 24, v, 0, "no"))
        ops.append(("decode", 24, v, 0, 1))
    for k in range(len(constructors())):
        ops.append(("construct", k))
    # a decoded object is edited in place by its receiver (frame bits, address numbers) - Frame objects are mutable
    for t in context_targets(False, 0)[::2]:
        ops.append(("vandal",) + tuple(t))
    return ops


def context_targets(quick, seed):
    ts = []
    his = (0x01, 0xFF, 0x85, 0xFD) if not quick else ((0x01, 0xFF) if seed % 2 else (0xFF, 0x85))
    for hi in his:
        for lo in list(range(0xE0, 0x100)) + [0x00, 0x20, 0x90, 0xA0, 0xC5]:
            for dt in (0, 6, 8) if quick else (0, 1, 4, 5, 6, 7, 8):
                ts.append((16, (hi << 8) | lo, dt, "no"))
    for v in (0x068402, 0x0A8C05, 0xFFFE30, 0xC13005, 0x01FE1D,
              0x000400, 0x020401, 0x028400, 0x008401, 0x8401, 0x03FE30, 0x01FE30, 0x43FE30, 0x0100FE, 0x0301FE):
        for mp in ("no", 1, 3):
            ts.append((24, v, 0, mp))
    for v in (0x0000, 0x0100, 0x0200, 0x0305, 0x8205, 0x8311):     # gear short 0 / 1, group 1
        ts.append((16, v, 0, "no"))
    for v in (0xA100, 0xA300, 0xA500, 0xA700, 0xA900, 0xAB00, 0xAD00, 0xB100, 0xB900, 0xBB00, 0xBD00, 0xC100, 0xC108):
        ts.append((16, v, 0, "no"))            # special commands, with and without a parameter
    for v in (0xC10000, 0xC10100, 0xC10200, 0xC13000, 0xC50000, 0xC1FF00):
        ts.append((24, v, 0, "no"))            # 24-bit specials
    return ts


def _ctx_shard(arg):
    ctx_slice, quick, seed = arg
    res = Result()
    command, frame = _load()
    cons = constructors()
    targets = context_targets(quick, seed)
    out = []

    def dec(t):
        bits, v, dt, mp = t
        return decode_check(bits, v, dt, None if mp == "no" else mp, mp != "no", out)

    # isolated fingerprints: each target decoded right after a neutral frame
    iso = {}
    for t in targets:
        dec((16, 0x0000, 0, "no"))
        c = dec(t)
        iso[t] = fp(c) if c is not None else None
    n = 0
    for op in ctx_slice:
        for t in targets:
            if op[0] == "construct":
                cons[op[1]]()
            elif op[0] == "vandal":
                cv = dec(tuple(op[1:]))
                if cv is not None:
                    vandalise(cv, n)
            else:
                dec(tuple(op[1:]))
            c = dec(t)
            n += 1
            got = fp(c) if c is not None else None
            if got != iso[t]:
                case = {"kind": "context", "before": list(op), "target": list(t)}
                res.violation("C01:decode-depends-on-previous-operation", case,
                              "decode of %r gives %r in isolation but %r directly after %r" % (t, iso[t], got, op))
                break
        if out:
            for sig, msg in out:
                res.violation(sig, {"kind": "context", "before": list(op)}, msg)
            del out[:]
    res.count(n)
    res.nontrivial(n=n)
    res.label("context-pairs", n)
    res.sample({"kind": "context", "before": list(ctx_slice[0]), "target": list(targets[3])}, cls="context pair")
    purity_check(res, "after context shard")
    return res


def run_context(case):
    out = []
    cons = constructors()

    def dec(t):
        bits, v, dt, mp = t
        return decode_check(bits, v, dt, None if mp == "no" else mp, mp != "no", out)
    t = tuple(case["target"])
    dec((16, 0x0000, 0, "no"))
    c0 = dec(t)
    a = fp(c0) if c0 is not None else None
    op = case["before"]
    if op[0] == "construct":
        cons[op[1]]()
    elif op[0] == "vandal":
        cv = dec(tuple(op[1:]))
        if cv is not None:
            vandalise(cv, case.get("k", 0))
            vandalise(cv, case.get("k", 0) + 3)
    else:
        dec(tuple(op[1:]))
    c1 = dec(t)
    b = fp(c1) if c1 is not None else None
    if a != b:
        out.append(("C01:decode-depends-on-previous-operation", "decode of %r gives %r in isolation but %r directly after %r" % (t, a, b, op)))
    return out


# ------------------------------------------- several results alive at once ----
def alive_inputs():
    ins = [tuple(op[1:]) for op in context_ops() if op[0] == "decode"][::3] + list(context_targets(False, 0))
    # events without a map entry / of unimplemented types, in every scheme
    for v in (0x068002, 0x1289A1, 0x028401, 0x7E8000, 0x021C55, 0x041C56, 0x807C01, 0xC01C02, 0x00FC03, 0x82FC04):
        ins.append((24, v, 0, "no"))
        ins.append((24, v, 0, 3))
    seen = []
    for t in ins:
        if t not in seen:
            seen.append(t)
    return seen


def run_alive(case):
    """A program keeps the result of one decode (parks an event, queues a command) and decodes something else:
    the kept object must still be what it was."""
    out = []

    def dec(t):
        bits, v, dt, mp = t
        return decode_check(bits, v, dt, None if mp == "no" else mp, mp != "no", out)
    a, b = tuple(case["first"]), tuple(case["then"])
    ca = dec(a)
    if ca is None or out:
        return out
    before = fp(ca)
    dec(b)
    after = fp(ca)
    if after != before or len(ca.frame) != a[0] or ca.frame.as_integer != a[1]:
        out.append(("C01:earlier-result-changed-by-later-decode",
                    "the object decoded from %r was %r; after decoding %r it is %r" % (a, before, b, after)))
    return out


def _alive_shard(arg):
    k, nshards = arg
    res = Result()
    ins = alive_inputs()
    n = 0
    for i, a in enumerate(ins):
        if i % nshards != k:
            continue
        for j, b in enumerate(ins):
            if a == b or (j + i) % 6:
                continue
            n += 1
            case = {"kind": "alive", "first": list(a), "then": list(b)}
            for sig, msg in run_alive(case):
                res.violation(sig, case, msg)
    res.count(n)
    res.nontrivial(n=n)
    res.label("two-results-alive-pairs", n)
    res.sample({"kind": "alive", "first": list(ins[0]), "then": list(ins[-1])}, cls="two results alive")
    return res


# ------------------------------------------------ decoding on other threads ----
THREAD_FORMS = ("thread", "pool", "pool-map", "asyncio-executor", "two-threads", "warnings-as-errors", "frame-subclasses")
THREAD_SLICES = 8


_FRAME_SUBCLASSES = {}


def _app_frame(frame, bits, v):
    """The frame as an object of a class the application derived from ForwardFrame (fixed-width in the style of
    BackwardFrame for 16/24 bits, an extra required argument otherwise)."""
    if not _FRAME_SUBCLASSES:
        class GearFrame(frame.ForwardFrame):
            def __init__(self, data):
                frame.ForwardFrame.__init__(self, 16, data)

        class DeviceFrame(frame.ForwardFrame):
            def __init__(self, data):
                frame.ForwardFrame.__init__(self, 24, data)

        class SniffedFrame(frame.ForwardFrame):
            def __init__(self, bits, data, stamp):
                frame.ForwardFrame.__init__(self, bits, data)
                self.stamp = stamp
        _FRAME_SUBCLASSES.update(g=GearFrame, d=DeviceFrame, s=SniffedFrame)
    if bits == 16 and v % 3:
        return _FRAME_SUBCLASSES["g"](v)
    if bits == 24 and v % 3:
        return _FRAME_SUBCLASSES["d"](v)
    return _FRAME_SUBCLASSES["s"](bits, v, 12.5)


def _fp_list(inputs, subclass_frames=False):
    command, frame = _load()
    out = []
    for bits, v, dt, mc, um in inputs:
        try:
            if subclass_frames:
                c = command.Command.from_frame(_app_frame(frame, bits, v), devicetype=dt, dev_inst_map=get_map(mc) if um else None)
            elif (v + dt) % 2:
                c = command.Command.from_frame(frame.ForwardFrame(bits, v), devicetype=dt,
                                               dev_inst_map=get_map(mc) if um else None)
            else:
                c = command.from_frame(frame.ForwardFrame(bits, v), devicetype=dt, dev_inst_map=get_map(mc) if um else None)
            out.append(fp(c))
        except Exception as e:  # noqa
            out.append("<decode raised %s@%s>" % (type(e).__name__, library_frame(e.__traceback__)))
    return out


def run_threads(case):
    """A bus watcher decodes on a worker thread / in a pool / in loop.run_in_executor: a frame decodes there to what
    it decodes to on the main thread (expectation: the main-thread result, which the rest of this check judges)."""
    import threading
    import concurrent.futures
    out = []
    form, k = case["form"], case["slice"]
    inputs = probe_inputs()[k::THREAD_SLICES]
    for t in inputs:                      # the maps are built on the main thread, as an application would
        if t[4]:
            get_map(t[3])
    if form == "asyncio-executor" or form == "pool-map":
        inputs = inputs[:250]
    main = _fp_list(inputs)
    if form == "thread":
        box = []
        th = threading.Thread(target=lambda: box.append(_fp_list(inputs)))
        th.start()
        th.join(120)
        got = box[0] if box else None
    elif form == "two-threads":
        boxes = [[], []]
        ths = [threading.Thread(target=lambda b=b: b.append(_fp_list(inputs))) for b in boxes]
        for th in ths:
            th.start()
        for th in ths:
            th.join(120)
        got = boxes[0][0] if boxes[0] else None
        if boxes[1] and got is not None and boxes[1][0] != got:
            i = next(i for i in range(len(got)) if got[i] != boxes[1][0][i])
            out.append(("C01:two-threads-decode-differently", "%r: %r on one thread, %r on another running at the same time"
                        % (inputs[i], got[i], boxes[1][0][i])))
    elif form == "pool":
        with concurrent.futures.ThreadPoolExecutor(max_workers=3) as ex:
            got = ex.submit(_fp_list, inputs).result(120)
    elif form == "pool-map":
        with concurrent.futures.ThreadPoolExecutor(max_workers=4) as ex:
            got = [r[0] for r in ex.map(lambda t: _fp_list([t]), inputs)]
    elif form == "warnings-as-errors":
        # a program (or its test suite) that runs with warnings turned into errors: decoding is still silent
        import warnings
        with warnings.catch_warnings():
            warnings.simplefilter("error")
            got = _fp_list(inputs)
    elif form == "frame-subclasses":
        got = _fp_list(inputs, subclass_frames=True)
    elif form == "asyncio-executor":
        import asyncio

        async def go():
            loop = asyncio.get_running_loop()
            return await loop.run_in_executor(None, _fp_list, inputs)
        got = asyncio.run(go())
    else:
        raise ValueError(form)
    if got is None:
        out.append(("C01:decode-on-other-thread-did-not-finish", "form %s slice %d" % (form, k)))
        return out
    for t, a, b in zip(inputs, main, got):
        if a != b:
            where_ = {"warnings-as-errors": "under-warnings-as-errors", "frame-subclasses": "for-frame-subclass-object"}.get(form, "on-other-thread")
            sig = "C01:decode-differs-" + where_
            if b.startswith("<decode raised") and not a.startswith("<decode raised"):
                sig = "C01:decode-raised-%s:" % where_ + b[15:-1]
            out.append((sig, "from_frame%r gives %r on the main thread and %r %s" % (
                t, a, b, {"warnings-as-errors": "with warnings turned into errors",
                          "frame-subclasses": "when the frame is an object of an application subclass of ForwardFrame"}.get(form, "on a " + form))))
            break
    return out


def _threads_shard(arg):
    res = Result()
    n = 0
    for form, k in arg:
        case = {"kind": "threads", "form": form, "slice": k}
        for sig, msg in run_threads(case):
            res.violation(sig, case, msg)
        m = len(probe_inputs()[k::THREAD_SLICES])
        n += min(m, 250) if form in ("asyncio-executor", "pool-map") else m
        res.label("other-thread:" + form, 1)
    res.count(n)
    res.nontrivial(n=n)
    res.sample({"kind": "threads", "form": arg[0][0], "slice": arg[0][1]}, cls="decode on another thread")
    return res


# ------------------------------------------------ a decode entered while another is in progress ----
def _ev(scheme, a, b, data):
    """24-bit event frame value (part 103 table 3)."""
    if scheme == "device":
        return (a & 63) << 17 | (b & 31) << 10 | data
    if scheme == "device_instance":
        return (a & 63) << 17 | 0x8000 | (b & 31) << 10 | data
    if scheme == "device_group":
        return 0x800000 | (a & 31) << 17 | (b & 31) << 10 | data
    if scheme == "instance":
        return 0x800000 | (a & 31) << 17 | 0x8000 | (b & 31) << 10 | data
    return 0xC00000 | (a & 31) << 17 | (b & 31) << 10 | data


REENTRY_SCHEMES = ("device", "device_instance", "device_group", "instance", "instance_group")
REENTRY_FORMS = ("nested", "nested-command-class", "nested-twice", "second-thread")


def reentry_cases(seed, n):
    x = (seed * 2654435761 + 0x9E3779B9) & 0x7FFFFFFF
    cases = []
    k = 0
    while len(cases) < n:
        x = (x * 1103515245 + 12345) & 0x7FFFFFFF
        r = x >> 3
        a, i, data = r & 63, (r >> 6) & 31, (r >> 11) & 0x3FF
        x = (x * 1103515245 + 12345) & 0x7FFFFFFF
        r = x >> 3
        a2, i2, data2 = r & 63, (r >> 6) & 31, (r >> 11) & 0x3FF
        outer = _ev("device_instance", a, i, data)
        inner = _ev(REENTRY_SCHEMES[k % 5], a2, i2, data2)
        if k % 11 == 10:
            inner = 0xFE0000 | (r & 0xFFFF) & 0xFEFFFF | 0x010000     # a device command, not an event
        cases.append({"kind": "reentry", "form": REENTRY_FORMS[(k // 5) % 4], "outer": outer, "inner": inner,
                      "outer_type": [1, 3, 4, 2, 0, 31, None][k % 7], "inner_type": [3, 1, None, 4, 2][(k // 7) % 5]})
        k += 1
    return cases


def run_reentry(case):
    """The instance map is the application's object: its get_type() may look things up slowly while another thread
    decodes, or may itself decode a frame (a cache fed from a bus log, retry_decode of parked events).  Each frame
    decodes to what it decodes to alone (expectation: the decode of the same frame with a plain mapper holding the
    same entries, nothing else going on)."""
    import threading
    command, frame = _load()
    from dali.device.helpers import DeviceInstanceTypeMapper
    out = []
    form = case["form"]
    vo, vi = case["outer"], case["inner"]
    to, ti = case["outer_type"], case["inner_type"]
    alone_o = _fp_list([(24, vo, 0, to, True)])[0]
    alone_i = _fp_list([(24, vi, 0, ti, True)])[0]
    inner_results = []
    state = {"depth": 0}
    inside, go = threading.Event(), threading.Event()

    class Mapper(DeviceInstanceTypeMapper):
        def get_type(self, *args, **kwargs):
            if state["depth"] < (2 if form == "nested-twice" else 1) and form != "second-thread":
                state["depth"] += 1
                try:
                    fi = frame.ForwardFrame(24, vi)
                    if form == "nested-command-class":
                        inner_results.append(command.Command.from_frame(fi, dev_inst_map=get_map(ti)))
                    elif form == "nested-twice":
                        inner_results.append(command.from_frame(fi, dev_inst_map=self if ti == to else get_map(ti)))
                    else:
                        inner_results.append(command.from_frame(fi, dev_inst_map=get_map(ti)))
                finally:
                    state["depth"] -= 1
            elif form == "second-thread" and threading.current_thread() is state.get("first") \
                    and not state.get("waited"):
                state["waited"] = True
                inside.set()
                go.wait(20)
            return super().get_type(*args, **kwargs)

    m = Mapper(dict(get_map(to).mapping))       # documented: preloaded mappings
    get_map(ti)
    try:
        if form == "second-thread":
            box = []

            def first():
                try:
                    box.append(command.from_frame(frame.ForwardFrame(24, vo), dev_inst_map=m))
                except Exception as e:  # noqa
                    box.append(e)
                finally:
                    inside.set()
            th = threading.Thread(target=first)
            state["first"] = th
            th.start()
            inside.wait(20)
            try:
                inner_results.append(command.from_frame(frame.ForwardFrame(24, vi), dev_inst_map=get_map(ti)))
            finally:
                go.set()
                th.join(30)
            if not box:
                return [("C01:decode-on-other-thread-did-not-finish", "reentry %r" % (case,))]
            if isinstance(box[0], Exception):
                raise box[0]
            co = box[0]
        else:
            co = command.from_frame(frame.ForwardFrame(24, vo), dev_inst_map=m)
    except Exception as e:  # noqa
        return [("C01:decode-raised-when-re-entered:%s@%s" % (type(e).__name__, library_frame(e.__traceback__)),
                 "%r raised %r" % (case, e))]
    if not inner_results:
        return [("HARNESS:reentry-inner-not-run", "%r" % (case,))]
    got_o = fp(co)
    if got_o != alone_o:
        out.append(("C01:pending-decode-changed-by-a-decode-started-meanwhile",
                    "%#x decodes alone to %r; with %#x decoded while its map lookup was in progress (%s) it gives %r"
                    % (vo, alone_o, vi, form, got_o)))
    for ci in inner_results:
        if fp(ci) != alone_i:
            out.append(("C01:decode-started-during-another-differs",
                        "%#x decodes alone to %r; decoded while %#x was in its map lookup (%s) it gives %r"
                        % (vi, alone_i, vo, form, fp(ci))))
    return out


def _reentry_shard(arg):
    seed, n = arg
    res = Result()
    cases = reentry_cases(seed, n)
    for case in cases:
        for sig, msg in run_reentry(case):
            res.violation(sig, case, msg)
        res.label("reentry:" + case["form"], 1)
    res.count(len(cases))
    res.nontrivial(n=len(cases))
    res.sample(cases[0], cls="decode re-entered")
    return res


# ------------------------------------------------ Hypothesis histories ----
def _own_frames():
    from dali import frame as fr
    for w in (8, 12, 16, 17, 20, 24, 25, 32):
        for cls in (fr.Frame, fr.ForwardFrame):
            f = cls(w)
            for hi, lo in ((23, 17), (23, 16), (22, 17), (15, 8), (15, 9), (14, 9), (14, 10), (9, 0), (7, 0), (12, 8), (3, 0),
                           (16, 16), (15, 15), (8, 8), (0, 0)):
                if hi < w:
                    f[hi:lo] = (1 << (hi - lo + 1)) - 1
                    f[hi:lo] = 0
                    _ = f[hi:lo]
            f[w - 1] = True
            f[0] = True


def constructors():
    """A construction storm: things an application would build between decodes."""
    from dali import address as a
    from dali.gear import general as g
    from dali.gear import colour, led, emergency
    from dali.device import general as d
    from dali.device import pushbutton, occupancy, light
    from dali.device.helpers import DeviceInstanceTypeMapper
    return [
        lambda: g.DAPC(5, 100), lambda: g.DAPC(a.GearBroadcast(), "MASK"),
        lambda: g.GoToScene(a.GearGroup(3), 5), lambda: g.AddToGroup(7, 15),
        lambda: g.Initialise(broadcast=True), lambda: g.Initialise(address=5), lambda: g.DTR0(7),
        lambda: g.EnableDeviceType(8), lambda: g.ProgramShortAddress("MASK"), lambda: g.SetShortAddress(a.GearBroadcast()),
        lambda: colour.SetTemporaryColourTemperature(3), lambda: led.QueryGearType(3),
        lambda: emergency.QueryEmergencyMode(1),
        lambda: d.QueryDeviceStatus(a.DeviceShort(3)), lambda: d.SetEventFilter(a.DeviceBroadcast(), a.InstanceNumber(3)),
        lambda: d.QueryInputValue(a.DeviceGroup(31), a.InstanceType(4)), lambda: d.DTR0(200), lambda: d.DTR2DTR1(1, 2),
        lambda: pushbutton.ButtonPressed(short_address=3, instance_number=2),
        lambda: occupancy.OccupancyEvent(instance_group=4, data=5),
        lambda: light.LightEvent(device_group=7, data=1023),
        lambda: d.UnknownEvent(instance_type=9, short_address=1, data=77),
        lambda: d.AmbiguousInstanceType(short_address=1, instance_number=2, data=3),
        lambda: DeviceInstanceTypeMapper().add_type(short_address=1, instance_number=1, instance_type=pushbutton),
        # bool is an int: programs do pass True/False where 1/0 is meant
        lambda: pushbutton.ButtonReleased(short_address=True), lambda: pushbutton.ButtonPressed(short_address=False, instance_number=True),
        lambda: light.LightEvent(short_address=True, data=True), lambda: g.DAPC(True, True), lambda: g.DAPC(False, 254),
        lambda: d.QueryDeviceStatus(a.DeviceShort(True)), lambda: g.GoToScene(a.GearGroup(True), True),
        lambda: a.DeviceShort(False), lambda: a.GearShort(True), lambda: a.InstanceNumber(True), lambda: a.DeviceGroup(True),
        lambda: d.SetEventFilter(a.DeviceShort(True), a.InstanceNumber(False)),
        # the program builds frames of its own, of other lengths, with the same bit ranges the library uses
        _own_frames,
    ]


def decode_strategy():
    b16 = st.builds(lambda hi, lo: (hi << 8) | lo,
                    st.one_of(st.sampled_from([0x00, 0x01, 0x7E, 0x7F, 0x80, 0x81, 0x9F, 0xA0, 0xA1, 0xA3, 0xA5, 0xB1, 0xC1, 0xC3,
                                               0xC5, 0xC7, 0xC9, 0xCB, 0xFC, 0xFD, 0xFE, 0xFF]), st.integers(0, 255)),
                    st.one_of(st.sampled_from([0, 1, 0x0F, 0x10, 0x1F, 0x20, 0x2F, 0x80, 0x8F, 0x90, 0xA0, 0xE0, 0xFE, 0xFF]),
                              st.integers(0, 255)))
    b24 = st.builds(lambda a, i, o: (a << 16) | (i << 8) | o,
                    st.one_of(st.sampled_from([0x00, 0x01, 0x7E, 0x7F, 0x80, 0x81, 0xBE, 0xBF, 0xC0, 0xC1, 0xC5, 0xC7, 0xC9, 0xFB,
                                               0xFC, 0xFD, 0xFE, 0xFF]), st.integers(0, 255)),
                    st.one_of(st.sampled_from([0x00, 0x1F, 0x20, 0x3F, 0x40, 0x60, 0x7F, 0x80, 0x9F, 0xA0, 0xC0, 0xDF, 0xE0,
                                               0xFB, 0xFC, 0xFD, 0xFE, 0xFF]), st.integers(0, 255)),
                    st.integers(0, 255))
    other = st.integers(1, 64).filter(lambda b: b not in (16, 24)).flatmap(
        lambda b: st.tuples(st.just(b), st.one_of(st.just(0), st.just((1 << b) - 1), st.integers(0, (1 << b) - 1))))
    dt = st.one_of(st.sampled_from([0, 1, 4, 5, 6, 8]), st.integers(0, 255))
    mp = st.sampled_from(["no", "sparse"] + [m for m in MAP_CLASSES])
    return st.one_of(
        st.tuples(st.just(16), b16, dt, mp),
        st.tuples(st.just(24), b24, dt, mp),
        st.tuples(other.map(lambda t: t[0]), other.map(lambda t: t[1]), dt, mp).filter(lambda t: t[1] < (1 << t[0])),
    )


def history_strategy():
    d = decode_strategy().map(lambda t: ("decode",) + tuple(t))
    c = st.tuples(st.just("construct"), st.integers(0, 23))
    r = st.tuples(st.just("again"), st.integers(0, 1000))
    v = st.tuples(st.just("vandalise"), st.integers(0, 1000))
    # one instance map kept by the program and filled in as it learns types (a bus monitor does exactly this)
    small = st.integers(0, 2)
    g = st.builds(lambda a, i, data: ("decode", 24, (a << 17) | 0x8000 | (i << 10) | data, 0, "grow"), small, small,
                  st.sampled_from([0, 1, 5, 600, 1023]))
    m = st.tuples(st.just("mapadd"), small, small, st.sampled_from([1, 3, 4, 0, 2, 31]))
    # one receive buffer reused for every frame of a length, refilled bit by bit (a bit-banging bus monitor)
    b = d.map(lambda t: ("bufdecode",) + tuple(t[1:]))
    return st.lists(st.one_of(d, d, c, r, v, g, m, b, b), min_size=1, max_size=30)


def vandalise(c, k):
    """What a careless caller may do to an object a decode handed out: renumber its address objects, flip bits of
    its frame, add attributes.  Never raises."""
    for attr in ("destination", "short_address", "instance"):
        try:
            o = getattr(c, attr, None)
            for fld, top in (("address", 64), ("group", 16)):
                if isinstance(getattr(o, fld, None), int) and not isinstance(getattr(o, fld), bool):
                    setattr(o, fld, (getattr(o, fld) + 1 + k) % top)
            if o is not None and hasattr(o, "__dict__"):
                o.verif_note = k
        except Exception:  # noqa - read-only attributes are fine
            pass
    try:
        f = c.frame
        f[k % len(f)] = not f[k % len(f)]
    except Exception:  # noqa
        pass
    try:
        c.verif_note = k
    except Exception:  # noqa
        pass


def run_history(ops):
    out = []
    seen = {}
    order = []
    cons = constructors()
    last = last_key = last_fp = None
    kept = []
    from dali.device.helpers import DeviceInstanceTypeMapper
    command, frame = _load()
    grow = DeviceInstanceTypeMapper()
    entries = {}
    buffers = {}
    for op in ops:
        op = list(op)
        if op[0] == "construct":
            cons[op[1] % len(cons)]()
            continue
        if op[0] == "bufdecode":
            bits, v, dt, mp = op[1], op[2], op[3], op[4]
            buf = buffers.get(bits)
            if buf is None:
                buf = buffers[bits] = frame.ForwardFrame(bits, 0)
            try:
                for i in range(bits):
                    buf[i] = bool((v >> i) & 1)
                a = command.from_frame(buf, devicetype=dt, dev_inst_map=get_map(None if mp == "no" else mp) if mp != "no" else None)
                fa = fp(a) + "|" + repr(a.frame.pack) + "|" + str(a.frame)
                b_ = command.from_frame(frame.ForwardFrame(bits, v), devicetype=dt,
                                        dev_inst_map=get_map(None if mp == "no" else mp) if mp != "no" else None)
                fb = fp(b_) + "|" + repr(b_.frame.pack) + "|" + str(b_.frame)
            except Exception as e:  # noqa
                return [("C01:decode-raised:%s@%s" % (type(e).__name__, library_frame(e.__traceback__)),
                         "from_frame(reused %d-bit buffer refilled to %#x) raised %r" % (bits, v, e))]
            if fa != fb:
                return [("C01:decode-from-reused-buffer-differs", "%d-bit %#x shifted bit by bit into a reused frame object decodes "
                         "and renders as %r, from a fresh frame as %r" % (bits, v, fa, fb))]
            continue
        if op[0] == "mapadd":
            grow.add_type(short_address=op[1], instance_number=op[2], instance_type=op[3])
            entries[(op[1], op[2])] = op[3]
            continue
        if op[0] == "decode" and op[4] == "grow":
            # the program's own, growing map against a map built from scratch with the same entries
            bits, v = op[1], op[2]
            try:
                a = command.from_frame(frame.ForwardFrame(bits, v), dev_inst_map=grow)
                fresh = DeviceInstanceTypeMapper()
                for (sa, inum), t in entries.items():
                    fresh.add_type(short_address=sa, instance_number=inum, instance_type=t)
                b = command.from_frame(frame.ForwardFrame(bits, v), dev_inst_map=fresh)
            except Exception as e:  # noqa
                return [("C01:decode-raised:%s@%s" % (type(e).__name__, library_frame(e.__traceback__)),
                         "from_frame(24-bit %#x, growing map %r) raised %r" % (v, entries, e))]
            if fp(a) != fp(b):
                return [("C01:decode-depends-on-map-object-history",
                         "24-bit %#x with the program's map (entries %r added over time) decodes %r, with a new map holding "
                         "the same entries %r" % (v, entries, fp(a), fp(b)))]
            if last is not None:
                kept.append((last, last_key, last_fp))
            last, last_key, last_fp = a, (bits, v, 0, "grow"), fp(a)
            continue
        if op[0] == "vandalise":
            if last is not None:
                vandalise(last, op[1])
                last = None
            continue
        if op[0] == "again":
            if not order:
                continue
            key = order[op[1] % len(order)]
        else:
            key = (op[1], op[2], op[3], op[4])
        bits, v, dt, mp = key
        c = decode_check(bits, v, dt, None if mp == "no" else mp, mp != "no", out)
        if out:
            return out
        f = fp(c)
        if last is not None:
            kept.append((last, last_key, last_fp))
        last, last_key, last_fp = c, key, f
        if key in seen:
            if seen[key] != f:
                return [("C01:impure-decode", "decode of %r gave %r first and %r later in the same history" % (key, seen[key], f))]
        else:
            seen[key] = f
            order.append(key)
    for (c, key, f) in kept[-12:]:
        if fp(c) != f:
            return [("C01:earlier-result-changed-by-later-decode", "the object decoded from %r was %r, at the end of the "
                     "history it is %r" % (key, f, fp(c)))]
    return out


def run_case(case):
    kind = case.get("kind")
    if kind == "decode":
        out = []
        mp = case["map"]
        decode_check(case["bits"], case["value"], case["dt"], None if mp == "no" else mp, mp != "no", out)
        return out
    if kind == "history":
        return run_history(case["ops"])
    if kind == "context":
        return run_context(case)
    if kind == "alive":
        return run_alive(case)
    if kind == "threads":
        return run_threads(case)
    if kind == "reentry":
        return run_reentry(case)
    if kind == "import-history":
        res = _import_shard(case["name"])
        return [(s, v["msg"]) for s, v in res.violations.items()]
    if kind == "purity":
        res = Result()
        if not _BASELINE:
            base = pristine_baseline()
            if "error" in base:
                return [("C01:pristine-interpreter-fails", base["error"][-600:])]
            _BASELINE.update(base)
        purity_check(res, "replay")
        return [(s, v["msg"]) for s, v in res.violations.items()]
    raise ValueError(kind)


def _hyp_shard(arg):
    seed, n = arg
    res = Result()

    def one(t):
        out = []
        bits, v, dt, mp = t
        decode_check(bits, v, dt, None if mp == "no" else mp, mp != "no", out)
        return out
    hyp.search(decode_strategy(), one, res, n, seed, ID,
               classify=lambda t: ["hyp:len16" if t[0] == 16 else "hyp:len24" if t[0] == 24 else "hyp:other-length"],
               to_json=lambda t: {"kind": "decode", "bits": t[0], "value": t[1], "dt": t[2], "map": t[3]})
    hyp.search(history_strategy(), run_history, res, max(50, n // 8), seed + 1, ID,
               classify=lambda ops: ["history:" + o[0] + (":growing-map" if o[0] == "decode" and o[4] == "grow" else "") for o in ops],
               nontrivial=lambda ops: any(o[0] == "again" for o in ops) and any(o[0] in ("construct", "vandalise") for o in ops),
               to_json=lambda ops: {"kind": "history", "ops": [list(o) for o in ops]})
    purity_check(res, "after hypothesis shard")
    return res


def run(ctx):
    base = pristine_baseline()
    if "error" in base:
        ctx.result.violation("C01:pristine-interpreter-fails", {"kind": "purity", "where": "baseline"},
                             "a fresh interpreter that imports the library, decodes the probe set and reads the registries "
                             "named in the property's anchors fails: " + base["error"][-600:])
    else:
        _BASELINE.update(base)
    q = ctx.quick
    s = ctx.seed
    shards = []
    st16 = 13 if q else 1
    for k in range(32):
        shards.append(("g16", list(range(k * 8, k * 8 + 8)), s % st16, st16))
    st24 = 13 if q else 1
    for k in range(64):
        lo = k << 18
        shards.append(("d24", lo + (s % st24), lo + (1 << 18), st24))
    stev = 13 if q else 1
    for mc in MAP_CLASSES:
        for k in range(4):
            lo = k << 19
            shards.append(("evmap", mc, lo + (s % stev), lo + (1 << 19), stev))
    for k in range(4):
        lo = k << 19
        shards.append(("evsparse", lo + (s % stev), lo + (1 << 19), stev * 3))
    odd = [b for b in range(1, 65) if b not in (16, 24)]
    for k in range(0, len(odd), 8):
        shards.append(("odd", odd[k:k + 8]))
    ctx.pmap(_enum_shard, shards)
    ctx.pmap(_import_shard, sorted(IMPORT_HISTORIES))
    ctx.pmap(_alive_shard, [(k, 16) for k in range(16)])
    combos = [(f, (k + s) % THREAD_SLICES) for k, f in enumerate(THREAD_FORMS)] + \
             [(f, (k + s + 3) % THREAD_SLICES) for k, f in enumerate(THREAD_FORMS)]
    ctx.pmap(_threads_shard, [combos[k::5] for k in range(5)])
    ctx.pmap(_reentry_shard, [(s * 100 + k, 140 if q else 1200) for k in range(8)])
    cops = context_ops()
    per = (len(cops) + 15) // 16
    ctx.pmap(_ctx_shard, [(cops[k:k + per], q, s) for k in range(0, len(cops), per)])
    n = 3000 if q else 40000
    ctx.pmap(_hyp_shard, [(s * 1000 + k, n // 16) for k in range(16)])
    ctx.result.exhaustive = False if q else True
    ctx.result.extra["strides"] = {"16bit_x_dt": st16, "24bit": st24, "event_x_map": stev}
    ctx.result.extra["purity_probe_size"] = len(probe_inputs())
    ctx.result.extra["exhaustive_note"] = ("thorough tier enumerates strata (a)-(c) completely; the Hypothesis part and "
                                           "stratum (d) are samples")


if __name__ == "__main__":
    if "--baseline" in sys.argv:
        sys.path.insert(0, os.environ.get("VERIF_REPO", "/repo"))
        sys.path.insert(1, os.path.dirname(os.path.dirname(os.path.abspath(__file__))))
        print(json.dumps({"fps": probe_fingerprints(), "registry": registry_snapshot()}))
    if "--import-history" in sys.argv:
        sys.path.insert(0, os.environ.get("VERIF_REPO", "/repo"))
        sys.path.insert(1, os.path.dirname(os.path.dirname(os.path.abspath(__file__))))
        print(json.dumps(import_history_fingerprints(sys.argv[sys.argv.index("--import-history") + 1])))
